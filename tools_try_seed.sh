#!/bin/sh
# usage: tools_try_seed.sh <seed dir> <PROP> [tier]  — applies the patch to /repo, runs the check, restores /repo
d=$1; p=$2; t=${3:-quick}
cd /repo && git apply "$d/patch.diff" || exit 9
cd /verif && timeout 1800 ./check $p --tier $t > /tmp/seed_run.log 2>&1; rc=$?
cd /repo && git checkout -- . ; (cd /verif && git checkout -- evidence 2>/dev/null)   # evidence written against a changed tree is discarded
echo "rc=$rc"; grep -E "^(VIOLATION|KNOWN|PROOF-BROKEN|UNDECIDED|CHECKER)" /tmp/seed_run.log | cut -c1-260 | head -${4:-8}; grep -E "tier=" /tmp/seed_run.log | cut -c1-250
