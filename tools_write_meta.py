#!/venv/bin/python
"""usage: tools_write_meta.py <matrix output file> <wave label> <repo commit the checks ran against>
writes seeded/<id>/meta.json for every line of a tools_seed_matrix.sh output, using /tmp/conf_<id>.out (tools_confirm_seed.sh)."""
import json, re, sys, os
matrix, wave, commit = sys.argv[1:4]
for l in open(matrix):
    m = re.match(r'(\S+) rc=(\d+) proof=(\d+) table=(\d+) bounded=(\d+) proof_broken=(\d+) first=\[(.*)\]', l.strip())
    if not m:
        continue
    sid, rc, pr, tb, bd, pb, first = m.groups()
    d = '/verif/seeded/' + sid
    c = None
    cf = '/tmp/conf_%s.out' % sid
    if os.path.exists(cf):
        mm = re.search(r'clean_demo_rc=(\d+) patched_demo_rc=(\d+) tests_rc=(\d+) :: (.*)', open(cf).read())
        c = mm.groups() if mm else None
    notes = open(d + '/notes.md').read()
    mm = re.search(r'(?is)(what it needs[^\n]*\n|needs to manifest[^\n]*\n|conditions[^\n]*\n|\*\*what it needs[^\n]*\n)(.*?)(\n#|\n\*\*Test|\Z)', notes)
    needs = (mm.group(2).strip()[:700] if mm else 'see notes.md')
    by = []
    if int(pr): by.append('proof obligation')
    if int(tb): by.append('table obligation')
    if int(bd): by.append('bounded stage')
    meta = dict(id=sid, property=sid[:3], breaks='property ' + sid[:3],
                origin='independent sub-agent (%s) given only the property text and a scratch worktree of /repo' % wave,
                needs_to_manifest=needs,
                confirmed=dict(how='tools_confirm_seed.sh in a scratch worktree of /repo HEAD (removed afterwards): demo on the clean tree, demo with the patch, pytest with the three always-failing tests deselected',
                               clean_demo_rc=int(c[0]) if c else None, patched_demo_rc=int(c[1]) if c else None,
                               tests_rc=int(c[2]) if c else None, tests_summary=c[3].strip() if c else None),
                check_run=dict(cmd='./tools_seed_matrix.sh (git -C /repo apply patch.diff; ./check %s --tier quick; git -C /repo checkout -- .)' % sid[:3],
                               against_repo_commit=commit, exit_code=int(rc), violations_from_proof_obligations=int(pr),
                               violations_from_table_obligations=int(tb), violations_from_bounded_stages=int(bd), first_violation=first),
                caught=int(rc) == 1, caught_by=by)
    json.dump(meta, open(d + '/meta.json', 'w'), indent=1, ensure_ascii=False)
    print(sid, meta['caught'], by)
