"""Orchestration of one property check and the evidence file."""
import json
import multiprocessing as mp
import os
import sys
import time
import traceback

from . import driver as D
from . import contract as C
from . import codec
from . import solve

ROOT = D.ROOT

TRUSTED_BASE = [
    'z3 5.1.0 (z3-new), z3 4.8.12, cvc5 1.0.3: an `unsat` answer from one of them discharges an obligation; regauto (pyvc/regauto.py): own automata decision procedure for regular constraints over one string variable (regex inclusion goals on which the SMT solvers time out), cross-checked against the SMT solvers in the thorough tier',
    'pyvc (this AST->SMT-LIB generator), guarded by canaries, concolic CPython cross-check on every path and the broken-body self-test (pipeline_selftest)',
    'loop rule of pyvc/loops.py where a contract declares a loop invariant: invariant on entry, havoc of the declared modifies set (sequence contents declared unchanged are checked after the body), one arbitrary iteration re-establishes the invariant and decreases a bounded variant, exit continues from the havocked state; sequences of symbolic length are SMT arrays of element ids over a finite universe of token kinds (the stated type invariant)',
    'CPython semantics assumed by the encoding: floor // and %, short-circuit and/or returning operands, lexicographic tuple comparison, left-to-right evaluation, str comparison by code point, canonical str(int) and int(str(n)) == n, identity of XlError singletons, functools.lru_cache transparent on pure functions',
]


def scan_assumption_markers():
    """Mechanical scan of contracts/ for assumption markers (DESIGN §2.7 item 6)."""
    hits = []
    import glob
    import re
    for fn in sorted(glob.glob(os.path.join(ROOT, 'contracts', '*.py'))):
        for i, line in enumerate(open(fn), 1):
            if re.search(r'\b(assume\(|trusted\s*=|axiom\(|proved_in\s*=|ASSUMED)', line) and not line.lstrip().startswith('#'):
                hits.append('%s:%d: %s' % (os.path.basename(fn), i, line.strip()[:160]))
    return hits


def run_property(prop, tier, seed, jobs, only=None):
    t0 = time.time()
    mods = D.load_modules()
    reg = D.registry(mods)
    known_all = D.load_known()
    known = [k for k in known_all.get('findings', []) if k['property'] == prop or prop in k.get('also_properties', [])]
    meta = {}
    for m in mods:
        meta.update(getattr(m, 'PROPERTIES', {}))
    pm = meta.get(prop)
    if pm is None:
        print('no check registered for %s' % prop)
        return 2
    cons = [c for c in reg if c.prop == prop and not getattr(c, 'proved_in', None)]
    if only:
        cons = [c for c in cons if c.name in only]
    if tier == 'quick':
        cons = [c for c in cons if not getattr(c, 'thorough_only', False)]
    payloads = [(None, c.name, tier, seed, known) for c in cons]
    results = []
    hung = []
    if payloads:
        ctx = mp.get_context('fork')
        # one task per contract; a worker that does not come back (the changed code under test loops natively during a
        # replay, or exhausts the memory cap) leaves its contract undecided - the check itself always terminates
        deadline = float(os.environ.get('VERIF_CONTRACT_TIMEOUT', 1800 if tier == 'quick' else 7200))
        pool = ctx.Pool(min(jobs, len(payloads)), initializer=D._cap_memory, maxtasksperchild=None)
        try:
            asyncs = [(p, pool.apply_async(D.verify_task, (p,))) for p in payloads]
            t_end = time.time() + deadline
            for p, a in asyncs:
                try:
                    results.append(a.get(timeout=max(1.0, t_end - time.time())))
                except mp.TimeoutError:
                    hung.append((p[1], 'worker did not finish within %g s' % deadline))
                except Exception as ex:
                    hung.append((p[1], 'worker failed: %r' % (ex,)))
        finally:
            pool.terminate()
            pool.join()
    tables, bounded = [], []
    for m in mods:
        tables.extend(D.run_tables(m, prop))
        if not only:
            bounded.extend(D.run_bounded(m, prop, tier, seed, known))

    lines, errors, violations, undecided, known_hit = [], [], [], [], {}
    # the pipeline must be able to fail: correct bodies accepted, broken bodies refuted (contracts/selftest_bodies.py)
    from . import selftest
    st0 = time.time()
    try:
        st_errors = selftest.run(D.discharge, 'quick')
    except Exception as ex:
        st_errors = ['self-test crashed: %r' % ex]
    selftest_info = dict(pairs=len(selftest._contracts()) // 2, ok=not st_errors, seconds=round(time.time() - st0, 2))
    errors.extend('self-test: ' + e for e in st_errors)
    n_obl = n_dis = 0
    samples = []
    functions = []
    assumptions = set(pm.get('assumptions', []))
    paths = 0
    concolic = {}
    solver_s = 0.0
    by_solver = {}
    proof_broken = []
    n_kf_obl = 0
    for cname, why in hung:
        undecided.append(dict(name=cname, reason=why))
    for r in results:
        errors.extend(r['errors'])
        fatal = r.get('fatal')
        if fatal in ('missing', 'unsupported'):
            undecided.append(dict(name=r['contract'], reason='%s: %s' % (fatal, '; '.join(r['errors'])[:300])))
            errors = [e for e in errors if e not in r['errors']]
            continue
        if r.get('source'):
            functions.append(dict(contract=r['contract'], **r['source'], paths=r['paths']))
        paths += r['paths']
        for k, v in r['concolic'].items():
            concolic[k] = concolic.get(k, 0) + v
        for o in r['obligations']:
            n_obl += 1
            if o['verdict'] in ('unsat',):
                n_dis += 1
                by_solver[o['solver']] = by_solver.get(o['solver'], 0) + 1
            elif o['verdict'] == 'unsat-outside-known-regions':
                # decided form of the obligation: requires and not region ==> clause (DESIGN §3)
                n_dis += 1
                n_kf_obl += 1
                by_solver['outside-known-region'] = by_solver.get('outside-known-region', 0) + 1
            solver_s += o['seconds']
            if len(samples) < 12:
                samples.append(dict(obligation=o['name'], kind=o['kind'], verdict=o['verdict'],
                                    solver=o['solver'], seconds=o['seconds']))
        for u in r['undecided']:
            undecided.append(u)
            if u.get('proof_broken'):
                proof_broken.append(u)
        for v in r['violations']:
            violations.append(v)
        for k in r['known']:
            known_hit[k['id']] = k
        assumptions |= set(r['assumptions'])
    for t in tables:
        n_obl += 1
        if t.get('ok') is True:
            n_dis += 1
            by_solver['ground-evaluation'] = by_solver.get('ground-evaluation', 0) + 1
        elif t.get('ok') is False:
            fid = t.get('known_id')
            kf = next((k for k in known if k['id'] == fid), None) if fid else None
            if kf:
                known_hit[kf['id']] = kf
            elif t.get('kind', 'P') == 'P':
                violations.append(dict(obligation=t['name'], contract='table', clause=t['name'], status='replayed' if t.get('witness') else 'no-failing-input-found',
                                       args=None, observed=codec.enc(t.get('detail')), witness=t.get('witness'), solver_output='ground evaluation: %s' % t.get('detail')))
            else:
                undecided.append(dict(name=t['name'], reason='PROOF-BROKEN supporting table fact false: %s' % t.get('detail'), proof_broken=True))
        else:
            undecided.append(dict(name=t['name'], reason='table crashed: %s' % t.get('error')))
        if len(samples) < 16:
            samples.append(dict(obligation=t['name'], kind=t.get('kind', 'P'), verdict='true' if t.get('ok') else str(t.get('ok')), solver='ground-evaluation'))
    b_eval = b_distinct = 0
    b_desc = []
    for b in bounded:
        if b.get('error'):
            errors.append('bounded stage %s: %s' % (b['name'], b['error']))
            continue
        b_eval += b.get('evaluations', 0)
        b_distinct += b.get('distinct_nontrivial', 0)
        b_desc.append(dict(name=b['name'], bound=b.get('bound'), evaluations=b.get('evaluations'),
                           distinct_nontrivial=b.get('distinct_nontrivial'), wall_s=b.get('wall_s'),
                           crosshair=b.get('crosshair'), skipped=b.get('skipped')))
        for v in b.get('violations', []):
            v.setdefault('kind', 'bounded')
            violations.append(v)
        for k in b.get('known', []):
            known_hit[k['id']] = k
        assumptions |= set(b.get('assumptions', []))

    # vacuity
    if n_obl == 0 and not bounded:
        errors.append('zero obligations generated for %s' % prop)

    # known findings: replay each listed witness natively; print while it still fails
    for k in known:
        still = None
        try:
            still = replay_known(k, reg, mods)
        except Exception as ex:
            # the function the witness is replayed on cannot be located (renamed / restructured): the finding is neither
            # confirmed nor refuted - undecided, not a checker error
            undecided.append(dict(name='known-finding %s' % k['id'], reason='witness cannot be replayed: %r' % (ex,)))
        if still:
            lines.append('KNOWN-FINDING: property=%s %s [%s]' % (prop, k['what'], k['id']))
        elif still is False and k['id'] in known_hit:
            pass

    exit_code = 0
    for v in violations:
        v_path = D.write_replay(prop, v)
        suffix = '' if v.get('status') == 'replayed' or v.get('kind') == 'bounded' and v.get('args') is not None or v.get('witness') else ' no-failing-input-found'
        lines.append('VIOLATION property=%s replay=%s obligation=%s%s' % (prop, v_path, v['obligation'], suffix))
        exit_code = 1
    for u in undecided:
        tag = 'PROOF-BROKEN' if u.get('proof_broken') else 'UNDECIDED'
        lines.append('%s obligation=%s reason=%s' % (tag, u['name'], str(u['reason'])[:300]))
    if errors:
        for e in errors:
            lines.append('CHECKER-ERROR %s' % str(e)[:600])
        if exit_code == 0:
            exit_code = 3
    if exit_code == 0 and undecided:
        # undecided clauses: fine only if the bounded stage of this property ran clean
        if not bounded or any(b.get('error') for b in bounded):
            if n_dis == 0:
                exit_code = 2

    wall = time.time() - t0
    level = pm['level']
    full = (n_obl > 0 and n_dis + sum(1 for r in results for o in r['obligations'] if o['verdict'] == 'unsat-outside-known-regions') == n_obl)
    explanation = pm['explanation']
    if level == 'proof' and not (n_obl > 0 and n_dis == n_obl):
        level = 'other'
        explanation = ('NOT a complete proof in this run: %d of %d obligations discharged (see undecided / known findings). ' % (n_dis, n_obl)) + explanation
    cov = dict(
        obligations=n_obl, discharged=n_dis,
        checker_cmd='./check %s --tier %s' % (prop, tier),
        trusted_base=TRUSTED_BASE + sorted(pm.get('trusted', [])),
        explanation=explanation,
        functions_under_contract=functions,
        paths_explored=paths,
        traces_validated_against_impl=concolic.get('ok', 0),
        concolic=concolic,
        discharged_by_backend=by_solver,
        solver_seconds=round(solver_s, 2),
        undecided=[u['name'] for u in undecided],
        known_findings=sorted(known_hit),
        obligations_discharged_only_outside_known_finding_regions=n_kf_obl,
        bounded=b_desc,
        samples=samples or [dict(note='no proof obligations in this run')],
        exhaustive=False,
        assumption_markers_in_contracts=scan_assumption_markers(),
        pipeline_selftest=selftest_info,
        not_proved=pm.get('not_proved', []),
    )
    if b_eval:
        cov['evaluations'] = b_eval
        cov['distinct_nontrivial'] = b_distinct
        cov['rule'] = pm.get('bounded_rule', 'bounded stages: see coverage.bounded; labelled bounded, never counted in obligations/discharged')
    ev = dict(property_id=prop, tier=tier, seed=seed, level=level, coverage=cov,
              assumptions=sorted(assumptions), wall_s=round(wall, 2), violations=len(violations))
    os.makedirs(os.path.join(D.OUTDIR, 'evidence'), exist_ok=True)
    with open(os.path.join(D.OUTDIR, 'evidence', prop + '.json'), 'w') as f:
        json.dump(ev, f, indent=1, default=str)
    print('%s tier=%s: %d contracts, %d paths, %d/%d obligations discharged %s, concolic %s, bounded evaluations %d, %.1fs'
          % (prop, tier, len(results), paths, n_dis, n_obl, by_solver, concolic, b_eval, wall))
    if os.environ.get('VERIF_DEBUG'):
        for r in results:
            print('  [%s] paths=%s explore=%ss wall=%ss obligations=%d concolic=%s' % (
                r['contract'], r.get('paths'), r.get('explore_s'), r.get('wall_s'), len(r['obligations']), r.get('concolic')))
        for b in bounded:
            print('  [bounded %s] %s evaluations, %ss' % (b.get('name'), b.get('evaluations'), b.get('wall_s')))
    for ln in lines:
        print(ln)
    print('exit %d' % exit_code)
    return exit_code


def replay_known(k, reg, mods):
    """True if the listed witness still fails natively."""
    if not k.get('sites'):
        for m in mods:
            for st in getattr(m, 'BOUNDED', []) + getattr(m, 'TABLES', []):
                if st.name == k['stages'][0]:
                    return st.witness_fails(k)
        raise KeyError(k['stages'])
    site = k['sites'][0]
    con = next(c for c in reg if c.name == site['contract'])
    cargs = codec.dec(k['witness'])
    nat = C.native_check(con, cargs, None)
    return bool(nat['pre'] and site['clause'] in nat['failed'])
