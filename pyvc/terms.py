"""Term language of pyvc: immutable SMT terms with light simplification, SMT-LIB 2
emission and a reference evaluator in Python (used by the concolic cross-check).

Sorts are strings: 'Int', 'Bool', 'String', 'Real', '(Array Int Int)', … or the name of a
declared uninterpreted sort.
"""
from fractions import Fraction
import itertools

INT, BOOL, STR, REAL = 'Int', 'Bool', 'String', 'Real'


class T:
    __slots__ = ('op', 'args', 'sort', 'val', '_h')

    def __init__(self, op, args=(), sort=None, val=None):
        self.op, self.args, self.sort, self.val = op, tuple(args), sort, val
        self._h = hash((op, self.args, sort, val if not isinstance(val, list) else None))

    def __hash__(self):
        return self._h

    def __eq__(self, other):
        return (isinstance(other, T) and self._h == other._h and self.op == other.op
                and self.sort == other.sort and self.val == other.val
                and self.args == other.args)

    def __ne__(self, other):
        return not self.__eq__(other)

    def __repr__(self):
        return to_smt(self)

    def __bool__(self):
        raise TypeError('symbolic term used as Python bool: %s' % to_smt(self))

    @property
    def is_const(self):
        return self.op == 'const'


def const(v):
    if isinstance(v, bool):
        return T('const', (), BOOL, v)
    if isinstance(v, int):
        return T('const', (), INT, v)
    if isinstance(v, str):
        return T('const', (), STR, v)
    if isinstance(v, Fraction):
        return T('const', (), REAL, v)
    if isinstance(v, float):
        return T('const', (), REAL, Fraction(v))
    raise TypeError(v)


TRUE, FALSE = const(True), const(False)
_counter = itertools.count()


def var(name, sort):
    return T('var', (), sort, name)


def fresh(prefix, sort):
    return var('%s!%d' % (prefix, next(_counter)), sort)


def app(fn, args, sort):
    """Application of an uninterpreted (declared) function."""
    return T('app', tuple(args), sort, fn)


# ----------------------------------------------------------------------------------
# smart constructors


def mk_not(a):
    if a.is_const:
        return const(not a.val)
    if a.op == 'not':
        return a.args[0]
    if a.op == '<=' and a.args[0].sort in (INT, REAL):
        return mk_lt(a.args[1], a.args[0])
    if a.op == '<' and a.args[0].sort in (INT, REAL):
        return mk_le(a.args[1], a.args[0])
    return T('not', (a,), BOOL)


def mk_and(*xs):
    out = []
    for x in xs:
        if x.op == 'and':
            ys = x.args
        else:
            ys = (x,)
        for y in ys:
            if y.is_const:
                if not y.val:
                    return FALSE
                continue
            if y not in out:
                out.append(y)
    if not out:
        return TRUE
    if len(out) == 1:
        return out[0]
    return T('and', out, BOOL)


def mk_or(*xs):
    out = []
    for x in xs:
        if x.op == 'or':
            ys = x.args
        else:
            ys = (x,)
        for y in ys:
            if y.is_const:
                if y.val:
                    return TRUE
                continue
            if y not in out:
                out.append(y)
    if not out:
        return FALSE
    if len(out) == 1:
        return out[0]
    return T('or', out, BOOL)


def mk_implies(a, b):
    if a.is_const:
        return b if a.val else TRUE
    if b.is_const:
        return TRUE if b.val else mk_not(a)
    return T('=>', (a, b), BOOL)


def mk_ite(c, a, b):
    if c.is_const:
        return a if c.val else b
    if a == b:
        return a
    if a.sort == BOOL:
        if a.is_const and b.is_const:
            return c if a.val else mk_not(c)
    assert a.sort == b.sort, (a.sort, b.sort)
    return T('ite', (c, a, b), a.sort)


def mk_eq(a, b):
    if a == b:
        return TRUE
    if a.is_const and b.is_const:
        return const(a.val == b.val)
    assert a.sort == b.sort, ('eq sorts', a.sort, b.sort, a, b)
    if a.sort == STR:
        r = _str_eq(a, b)
        if r is not None:
            return r
    if a.sort == BOOL:
        if a.is_const:
            return b if a.val else mk_not(b)
        if b.is_const:
            return a if b.val else mk_not(a)
    return T('=', (a, b), BOOL)


def mk_ne(a, b):
    return mk_not(mk_eq(a, b))


def _num(v, sort):
    return const(v) if sort == INT else const(Fraction(v))


def mk_add(*xs):
    sort = xs[0].sort
    c, out = 0, []
    for x in xs:
        ys = x.args if x.op == '+' else (x,)
        for y in ys:
            if y.is_const:
                c += y.val
            else:
                out.append(y)
    if c != 0 or not out:
        out.append(_num(c, sort))
    if len(out) == 1:
        return out[0]
    return T('+', out, sort)


def mk_neg(a):
    if a.is_const:
        return _num(-a.val, a.sort)
    if a.op == 'neg':
        return a.args[0]
    return T('neg', (a,), a.sort)


def mk_sub(a, b):
    if a.is_const and b.is_const:
        return _num(a.val - b.val, a.sort)
    if b.is_const:
        return mk_add(a, _num(-b.val, a.sort))
    if a == b:
        return _num(0, a.sort)
    if a.sort == INT:
        xa, xb, hit = _cancel(a, b)
        if hit:
            return mk_sub(mk_add(*xa) if xa else _num(0, INT), mk_add(*xb) if xb else _num(0, INT))
    return T('-', (a, b), a.sort)


def _summands(t):
    return list(t.args) if t.op == '+' else [t]


def _cancel(a, b):
    """Common summands of two integer sums removed (multiset); constants folded to one side."""
    xa, xb, hit = _summands(a), _summands(b), False
    for y in list(xb):
        if not y.is_const and y in xa:
            xa.remove(y)
            xb.remove(y)
            hit = True
    ca = sum(x.val for x in xa if x.is_const)
    cb = sum(x.val for x in xb if x.is_const)
    if ca and cb:
        xa = [x for x in xa if not x.is_const]
        xb = [x for x in xb if not x.is_const]
        if ca - cb > 0:
            xa.append(_num(ca - cb, INT))
        elif ca - cb < 0:
            xb.append(_num(cb - ca, INT))
        hit = True
    return xa, xb, hit


def _nonneg(t):
    if t.is_const:
        return t.val >= 0
    if t.op == 'str.len':
        return True
    if t.op == '+':
        return all(_nonneg(x) for x in t.args)
    if t.op == 'ite':
        return _nonneg(t.args[1]) and _nonneg(t.args[2])
    return False


def _positive(t):
    if t.is_const:
        return t.val > 0
    if t.op == '+':
        return all(_nonneg(x) for x in t.args) and any(_positive(x) for x in t.args)
    return False


def mk_mul(a, b):
    if a.is_const and b.is_const:
        return _num(a.val * b.val, a.sort)
    for x, y in ((a, b), (b, a)):
        if x.is_const:
            if x.val == 0:
                return _num(0, a.sort)
            if x.val == 1:
                return y
    return T('*', (a, b), a.sort)


def py_floordiv(a, b):
    return a // b


def mk_div(a, b):
    """Python // on ints (floor division).  SMT `div` is Euclidean: equal for b > 0; for
    b < 0 we encode floor explicitly."""
    if a.is_const and b.is_const and b.val != 0:
        return const(a.val // b.val)
    if b.is_const and b.val > 0:
        return T('div', (a, b), INT)
    # floor(a/b) = -(ceil(-a / b)); general encoding through Euclidean div/mod
    q = T('div', (a, b), INT)
    r = T('mod', (a, b), INT)
    # Euclidean: a = b*q + r, 0<=r<|b|.  floor = q if b>0 or r==0 else q-1  (b<0, r>0)
    return mk_ite(mk_or(mk_lt(const(0), b), mk_eq(r, const(0))), q, mk_sub(q, const(1)))


def mk_mod(a, b):
    """Python % on ints (sign of the divisor)."""
    if a.is_const and b.is_const and b.val != 0:
        return const(a.val % b.val)
    if b.is_const and b.val > 0:
        return T('mod', (a, b), INT)
    r = T('mod', (a, b), INT)
    return mk_ite(mk_or(mk_lt(const(0), b), mk_eq(r, const(0))), r, mk_add(r, b))


def mk_rdiv(a, b):
    if a.is_const and b.is_const and b.val != 0:
        return const(Fraction(a.val) / Fraction(b.val))
    return T('/', (a, b), REAL)


def mk_lt(a, b):
    if a.is_const and b.is_const:
        return const(a.val < b.val)
    if a == b:
        return FALSE
    if a.sort == INT and b.sort == INT:
        xa, xb, hit = _cancel(a, b)
        if hit:
            return mk_lt(mk_add(*xa) if xa else _num(0, INT), mk_add(*xb) if xb else _num(0, INT))
        if b.is_const and b.val <= 0 and _nonneg(a):          # lengths are non-negative
            return FALSE
        if a.is_const and a.val <= 0 and _positive(b):
            return TRUE
        if a.is_const and a.val < 0 and _nonneg(b):
            return TRUE
    return T('<', (a, b), BOOL)


def mk_le(a, b):
    if a.is_const and b.is_const:
        return const(a.val <= b.val)
    if a == b:
        return TRUE
    if a.sort == INT and b.sort == INT:
        xa, xb, hit = _cancel(a, b)
        if hit:
            return mk_le(mk_add(*xa) if xa else _num(0, INT), mk_add(*xb) if xb else _num(0, INT))
        if a.is_const and a.val <= 0 and _nonneg(b):
            return TRUE
        if b.is_const and b.val < 0 and _nonneg(a):
            return FALSE
        if b.is_const and b.val <= 0 and _positive(a):
            return FALSE
    return T('<=', (a, b), BOOL)


def mk_abs(a):
    if a.is_const:
        return _num(abs(a.val), a.sort)
    return mk_ite(mk_lt(a, _num(0, a.sort)), mk_neg(a), a)


def mk_to_real(a):
    if a.sort == REAL:
        return a
    if a.is_const:
        return const(Fraction(a.val))
    return T('to_real', (a,), REAL)


def mk_floor(a):
    """Real -> Int floor (SMT to_int)."""
    if a.sort == INT:
        return a
    if a.is_const:
        return const(a.val.numerator // a.val.denominator)
    if a.op == 'to_real':
        return a.args[0]
    return T('to_int', (a,), INT)


def mk_is_int(a):
    if a.is_const:
        return const(a.val.denominator == 1)
    if a.op == 'to_real':
        return TRUE
    return T('is_int', (a,), BOOL)


# strings --------------------------------------------------------------------------

def mk_concat(*xs):
    out = []
    for x in xs:
        ys = x.args if x.op == 'str.++' else (x,)
        for y in ys:
            if y.is_const and y.val == '':
                continue
            if y.is_const and out and out[-1].is_const:
                out[-1] = const(out[-1].val + y.val)
            else:
                out.append(y)
    if not out:
        return const('')
    if len(out) == 1:
        return out[0]
    return T('str.++', out, STR)


def mk_len(a):
    if a.is_const:
        return const(len(a.val))
    if a.op == 'str.++':
        return mk_add(*[mk_len(x) for x in a.args])
    if a.op == 'str.from_code_ok':
        return const(1)
    return T('str.len', (a,), INT)


def _known_len(t):
    if t.is_const:
        return len(t.val)
    if t.op == 'str.from_code_ok':
        return 1
    return None


def _char_parts(t):
    """t as a list of single-character terms, or None."""
    parts = t.args if t.op == 'str.++' else (t,)
    out = []
    for p in parts:
        if p.is_const:
            out.extend(const(ch) for ch in p.val)
        elif p.op == 'str.from_code_ok':
            out.append(p)
        else:
            return None
    return out


def _parts(t):
    out = []
    for p in (t.args if t.op == 'str.++' else (t,)):
        if p.is_const:
            out.extend(const(ch) for ch in p.val)
        else:
            out.append(p)
    return out


def _is_char(p):
    return (p.is_const and len(p.val) == 1) or p.op == 'str.from_code_ok'


def _min_len(p):
    if p.is_const:
        return len(p.val)
    if p.op == 'str.from_code_ok':
        return 1
    if p.op == 'app' and (p.val == 'dec' or p.val.startswith('udigits') or p.val.startswith('ldigits')):
        return 1
    return 0


LETTER_CODES = set()      # code-point terms known to denote ASCII letters (registered by ColT / upper())


def _sep_free(p, ch):
    """Part `p` certainly does not contain the character ch (ch is not a letter or digit)."""
    if p.is_const:
        return ch not in p.val
    if p.op == 'str.from_code_ok':
        k = p.args[0]
        return k in LETTER_CODES or (k.is_const and chr(k.val) != ch)
    if p.op == 'app' and (p.val == 'dec' or p.val.startswith('udigits') or p.val.startswith('ldigits') or p.val == 'zeros'):
        return ch not in '-0123456789abcdefABCDEF'
    return False


def _split_last(parts, ch):
    """(prefix parts, suffix parts) around the last occurrence of the constant character ch, where
    the suffix is certainly ch-free; None if not determined."""
    for i in range(len(parts) - 1, -1, -1):
        p = parts[i]
        if p.is_const and p.val == ch:
            return parts[:i], parts[i + 1:]
        if not _sep_free(p, ch):
            return None
    return ('none', parts)      # the whole string is ch-free


def _join(parts):
    parts = _merge_consts(parts)
    if not parts:
        return const('')
    return parts[0] if len(parts) == 1 else T('str.++', parts, STR)


def _sep_rule(pa, pb):
    """Unique split at the last separator: X ch R == Y ch Q with R, Q ch-free  <=>  X == Y and R == Q;
    a ch-free string never equals one that contains ch.  (Theorem of the free monoid.)"""
    for ch in ('!', ':'):
        sa, sb = _split_last(pa, ch), _split_last(pb, ch)
        if sa is None or sb is None:
            continue
        if sa[0] == 'none' and sb[0] == 'none':
            continue
        if sa[0] == 'none' or sb[0] == 'none':
            return FALSE
        if not sa[0] and not sb[0] and not sa[1] and not sb[1]:
            continue
        return mk_and(mk_eq(_join(sa[0]), _join(sb[0])), mk_eq(_join(sa[1]), _join(sb[1])))
    return None


def _str_eq(a, b):
    """Cancellation on both ends of two concatenations (sound and complete: the free monoid is
    cancellative); single characters are compared by code point.  None = no simplification."""
    pa, pb = _parts(a), _parts(b)
    conj = []
    changed = False
    for side in (0, -1):
        while pa and pb:
            x, y = pa[side], pb[side]
            if x == y:
                pass
            elif _is_char(x) and _is_char(y):
                e = mk_eq(_code_of(x), _code_of(y))
                if e.is_const and not e.val:
                    return FALSE
                conj.append(e)
            else:
                break
            pa.pop(side)
            pb.pop(side)
            changed = True
    if pa and pb:
        r = _sep_rule(pa, pb)
        if r is not None:
            return mk_and(*(conj + [r]))
    if not pa and not pb:
        return mk_and(*conj)
    if not pa or not pb:
        rest = pa or pb
        if any(_min_len(p) > 0 for p in rest):
            return FALSE
        changed = True
        return mk_and(*(conj + [T('=', (p, const('')), BOOL) for p in rest]))
    if not changed:
        return None
    ra = pa[0] if len(pa) == 1 else T('str.++', _merge_consts(pa), STR)
    rb = pb[0] if len(pb) == 1 else T('str.++', _merge_consts(pb), STR)
    if ra.is_const and rb.is_const:
        return mk_and(*(conj + [const(ra.val == rb.val)]))
    return mk_and(*(conj + [T('=', (ra, rb), BOOL)]))


def _merge_consts(parts):
    out = []
    for p in parts:
        if p.is_const and out and out[-1].is_const:
            out[-1] = const(out[-1].val + p.val)
        else:
            out.append(p)
    return out


def _code_of(ch):
    return const(ord(ch.val)) if ch.is_const else ch.args[0]


def mk_strop(op, args, sort):
    if op == 'str.at' and args[1].is_const:
        parts = args[0].args if args[0].op == 'str.++' else (args[0],)
        pos, i = 0, args[1].val
        for p_ in parts:
            n = _known_len(p_)
            if n is None:
                break
            if pos <= i < pos + n:
                return const(p_.val[i - pos]) if p_.is_const else p_
            pos += n
    if all(x.is_const for x in args):
        try:
            return const(_EVAL[op](*[x.val for x in args]))
        except Exception:
            pass
    return T(op, tuple(args), sort)


def mk_from_code1(k):
    """chr(k) for a code point known (by the caller) to be valid: length-1 string."""
    if k.is_const:
        return const(chr(k.val))
    return T('str.from_code_ok', (k,), STR)


def mk_forall(vs, body):
    if body.is_const:
        return body
    return T('forall', (body,), BOOL, tuple(vs))


def mk_exists(vs, body):
    if body.is_const:
        return body
    return T('exists', (body,), BOOL, tuple(vs))


def mk_select(a, i):
    if a.op == 'store':
        arr, j, v = a.args
        if i == j:
            return v
        if i.is_const and j.is_const and i.val != j.val:
            return mk_select(arr, i)
    esort = a.sort[1:-1].split(' ', 2)[2]
    return T('select', (a, i), esort)


def mk_store(a, i, v):
    return T('store', (a, i, v), a.sort)


# ----------------------------------------------------------------------------------
# SMT-LIB emission

def smt_str(s):
    out = []
    for ch in s:
        o = ord(ch)
        if ch == '"':
            out.append('""')
        elif ch == '\\':
            out.append('\\u{5c}')
        elif 32 <= o < 127:
            out.append(ch)
        else:
            out.append('\\u{%x}' % o)
    return '"%s"' % ''.join(out)


def smt_num(v, sort):
    if sort == INT:
        return str(v) if v >= 0 else '(- %d)' % -v
    v = Fraction(v)
    n, d = v.numerator, v.denominator
    s = '%d.0' % abs(n) if d == 1 else '(/ %d.0 %d.0)' % (abs(n), d)
    return s if n >= 0 else '(- %s)' % s


def sym_name(n):
    return '|%s|' % n


_RENAME = {'neg': '-', 'str.from_code_ok': 'str.from_code'}


def to_smt(t, cache=None):
    if cache is None:
        cache = {}
    r = cache.get(t)
    if r is not None:
        return r
    op = t.op
    if op == 'const':
        if t.sort == BOOL:
            r = 'true' if t.val else 'false'
        elif t.sort == STR:
            r = smt_str(t.val)
        else:
            r = smt_num(t.val, t.sort)
    elif op == 'var':
        r = sym_name(t.val)
    elif op == 'app':
        if t.args:
            r = '(%s %s)' % (sym_name(t.val), ' '.join(to_smt(a, cache) for a in t.args))
        else:
            r = sym_name(t.val)
    elif op in ('forall', 'exists'):
        r = '(%s (%s) %s)' % (op, ' '.join('(%s %s)' % (sym_name(v.val), v.sort) for v in t.val),
                             to_smt(t.args[0], cache))
    elif op == 're':
        r = t.val  # raw SMT-LIB regular expression text
    else:
        r = '(%s %s)' % (_RENAME.get(op, op), ' '.join(to_smt(a, cache) for a in t.args))
    cache[t] = r
    return r


def collect(t, vars_, funs, seen):
    """Collect free variables and uninterpreted function symbols."""
    if t in seen:
        return
    seen.add(t)
    if t.op == 'var':
        vars_[t.val] = t.sort
    elif t.op == 'app':
        funs[t.val] = (tuple(a.sort for a in t.args), t.sort)
    elif t.op in ('forall', 'exists'):
        sub = {}
        collect(t.args[0], sub, funs, seen)
        for v in t.val:
            sub.pop(v.val, None)
        vars_.update(sub)
        return
    for a in t.args:
        collect(a, vars_, funs, seen)


def subterms(t, seen=None):
    if seen is None:
        seen = set()
    if t in seen:
        return
    seen.add(t)
    yield t
    for a in t.args:
        yield from subterms(a, seen)


def substitute(t, m, cache=None):
    if cache is None:
        cache = {}
    if t in m:
        return m[t]
    if t in cache:
        return cache[t]
    if not t.args:
        return t
    args = tuple(substitute(a, m, cache) for a in t.args)
    r = t if args == t.args else rebuild(t, args)
    cache[t] = r
    return r


def instantiate_foralls(t, witness_tuples, positive=True):
    """Replace every forall sub-formula occurring *positively* in hypothesis `t` by the
    conjunction of its instances at the given witness tuples (same arity).  The result is
    implied by `t` (sound weakening of a hypothesis); foralls in negative positions and those
    without a matching witness tuple are kept."""
    op = t.op
    if op == 'forall':
        if positive:
            insts = []
            for w in witness_tuples:
                if len(w) == len(t.val) and all(a.sort == b.sort for a, b in zip(w, t.val)):
                    body = substitute(t.args[0], dict(zip(t.val, w)))
                    insts.append(instantiate_foralls(body, witness_tuples, True))
            if insts:
                return mk_and(*insts)
        return t
    if op == 'and':
        return mk_and(*[instantiate_foralls(a, witness_tuples, positive) for a in t.args])
    if op == 'or':
        return mk_or(*[instantiate_foralls(a, witness_tuples, positive) for a in t.args])
    if op == 'not':
        return mk_not(instantiate_foralls(t.args[0], witness_tuples, not positive))
    if op == '=>':
        return mk_implies(instantiate_foralls(t.args[0], witness_tuples, not positive),
                          instantiate_foralls(t.args[1], witness_tuples, positive))
    if op == 'ite' and t.sort == BOOL:
        return mk_ite(t.args[0], instantiate_foralls(t.args[1], witness_tuples, positive),
                      instantiate_foralls(t.args[2], witness_tuples, positive))
    return t


def has_quantifier(t):
    return any(s.op in ('forall', 'exists') for s in subterms(t))


def rebuild(t, args):
    f = _MK.get(t.op)
    if f is not None:
        return f(*args)
    return T(t.op, args, t.sort, t.val)


_MK = {
    'not': mk_not, 'and': mk_and, 'or': mk_or, '=>': mk_implies, 'ite': mk_ite,
    '=': mk_eq, '+': mk_add, '-': mk_sub, '*': mk_mul, 'neg': mk_neg, '<': mk_lt,
    '<=': mk_le, 'str.++': mk_concat, 'str.len': mk_len, 'to_real': mk_to_real,
}

# ----------------------------------------------------------------------------------
# reference evaluator (Python semantics of every operator above)


def _euclid_div(a, b):
    q = a // b
    return q + 1 if a - b * q < 0 else q


def _euclid_mod(a, b):
    return a - b * _euclid_div(a, b)


def _substr(s, i, n):
    if i < 0 or i >= len(s) or n <= 0:
        return ''
    return s[i:i + n]


def _indexof(s, t, i):
    if i < 0 or i > len(s):
        return -1
    return s.find(t, i)


def _replace(s, a, b):
    if a == '':
        return b + s
    return s.replace(a, b, 1)


def _to_code(s):
    return ord(s) if len(s) == 1 else -1


def _from_code(k):
    return chr(k) if 0 <= k < 0x30000 else ''


def _str_to_int(s):
    return int(s) if s and all('0' <= c <= '9' for c in s) else -1


_EVAL = {
    'str.len': len,
    'str.at': lambda s, i: s[i] if 0 <= i < len(s) else '',
    'str.substr': _substr,
    'str.prefixof': lambda a, b: b.startswith(a),
    'str.suffixof': lambda a, b: b.endswith(a),
    'str.contains': lambda a, b: b in a,
    'str.indexof': _indexof,
    'str.replace': _replace,
    'str.replace_all': lambda s, a, b: s.replace(a, b) if a else s,
    'str.to_code': _to_code,
    'str.from_code': _from_code,
    'str.from_code_ok': _from_code,
    'str.<': lambda a, b: a < b,
    'str.<=': lambda a, b: a <= b,
    'str.to_int': _str_to_int,
    'str.from_int': lambda n: str(n) if n >= 0 else '',
}


class EvalError(Exception):
    pass


RE_PY = {}     # SMT-LIB regex text -> python pattern (full match), for the reference evaluator


def register_re(smt_text, py_pattern):
    RE_PY[smt_text] = py_pattern
    return smt_text


def evaluate(t, env, funs=None, cache=None):
    """Evaluate term `t` with `env`: var name -> python value.  `funs`: name -> python
    callable for uninterpreted functions (their *real* interpretation)."""
    if cache is None:
        cache = {}
    if t in cache:
        return cache[t]
    op = t.op
    ev = lambda x: evaluate(x, env, funs, cache)
    if op == 'const':
        r = t.val
    elif op == 'var':
        if t.val not in env:
            raise EvalError('no value for %s' % t.val)
        r = env[t.val]
    elif op == 'app':
        if not funs or t.val not in funs:
            raise EvalError('no interpretation for %s' % t.val)
        r = funs[t.val](*[ev(a) for a in t.args])
    elif op == 'not':
        r = not ev(t.args[0])
    elif op == 'and':
        r = all(ev(a) for a in t.args)
    elif op == 'or':
        r = any(ev(a) for a in t.args)
    elif op == '=>':
        r = (not ev(t.args[0])) or ev(t.args[1])
    elif op == 'ite':
        r = ev(t.args[1]) if ev(t.args[0]) else ev(t.args[2])
    elif op == '=':
        r = ev(t.args[0]) == ev(t.args[1])
    elif op == 'distinct':
        vs = [ev(a) for a in t.args]
        r = len(set(vs)) == len(vs)
    elif op == '+':
        r = sum(ev(a) for a in t.args)
    elif op == '-':
        r = ev(t.args[0]) - ev(t.args[1])
    elif op == 'neg':
        r = -ev(t.args[0])
    elif op == '*':
        r = ev(t.args[0]) * ev(t.args[1])
    elif op == 'div':
        b = ev(t.args[1])
        if b == 0:
            raise EvalError('div by zero')
        r = _euclid_div(ev(t.args[0]), b)
    elif op == 'mod':
        b = ev(t.args[1])
        if b == 0:
            raise EvalError('mod by zero')
        r = _euclid_mod(ev(t.args[0]), b)
    elif op == '/':
        b = ev(t.args[1])
        if b == 0:
            raise EvalError('real div by zero')
        r = Fraction(ev(t.args[0])) / Fraction(b)
    elif op == '<':
        r = ev(t.args[0]) < ev(t.args[1])
    elif op == '<=':
        r = ev(t.args[0]) <= ev(t.args[1])
    elif op == 'to_real':
        r = Fraction(ev(t.args[0]))
    elif op == 'to_int':
        v = Fraction(ev(t.args[0]))
        r = v.numerator // v.denominator
    elif op == 'is_int':
        r = Fraction(ev(t.args[0])).denominator == 1
    elif op == 'str.++':
        r = ''.join(ev(a) for a in t.args)
    elif op in _EVAL:
        r = _EVAL[op](*[ev(a) for a in t.args])
    elif op == 'str.in_re':
        import re as _re
        pat = RE_PY.get(t.args[1].val)
        if pat is None:
            raise EvalError('regex without python counterpart')
        r = _re.fullmatch(pat, ev(t.args[0]), _re.S) is not None
    elif op == 'select':
        a = ev(t.args[0])
        r = a.get(ev(t.args[1]), a.get('default'))
    elif op == 'store':
        a = dict(ev(t.args[0]))
        a[ev(t.args[1])] = ev(t.args[2])
        r = a
    else:
        raise EvalError('cannot evaluate %s' % op)
    cache[t] = r
    return r
