"""Translate a small Python regex subset to SMT-LIB RegLan text (via sre_parse)."""
try:
    import re._parser as sre_parse
    import re._constants as sre_c
except ImportError:  # pragma: no cover
    import sre_parse
    import sre_constants as sre_c

from .terms import smt_str


def _char(c):
    return '(str.to_re %s)' % smt_str(chr(c))


def _cat(parts):
    parts = [p for p in parts if p != '(str.to_re "")']
    if not parts:
        return '(str.to_re "")'
    if len(parts) == 1:
        return parts[0]
    return '(re.++ %s)' % ' '.join(parts)


def _union(parts):
    if len(parts) == 1:
        return parts[0]
    return '(re.union %s)' % ' '.join(parts)


_CATEGORY = {
    sre_c.CATEGORY_DIGIT: '(re.range "0" "9")',
    sre_c.CATEGORY_SPACE: '(re.union (str.to_re " ") (re.range "\\u{9}" "\\u{d}"))',
    sre_c.CATEGORY_WORD: '(re.union (re.range "0" "9") (re.range "A" "Z") (re.range "a" "z") (str.to_re "_"))',
}


def _conv(items, ignorecase=False):
    out = []
    for op, av in items:
        if op is sre_c.LITERAL:
            ch = chr(av)
            if ignorecase and ch.lower() != ch.upper():
                out.append(_union([_char(ord(ch.lower())), _char(ord(ch.upper()))]))
            else:
                out.append(_char(av))
        elif op is sre_c.ANY:
            out.append('re.allchar')
        elif op is sre_c.IN:
            neg = False
            alts = []
            for o2, a2 in av:
                if o2 is sre_c.NEGATE:
                    neg = True
                elif o2 is sre_c.LITERAL:
                    ch = chr(a2)
                    alts.append(_char(a2))
                    if ignorecase and ch.lower() != ch.upper():
                        alts.append(_char(ord(ch.swapcase())))
                elif o2 is sre_c.RANGE:
                    alts.append('(re.range %s %s)' % (smt_str(chr(a2[0])), smt_str(chr(a2[1]))))
                    if ignorecase:
                        lo, hi = chr(a2[0]), chr(a2[1])
                        if lo.isalpha() and hi.isalpha():
                            alts.append('(re.range %s %s)' % (smt_str(lo.swapcase()), smt_str(hi.swapcase())))
                elif o2 is sre_c.CATEGORY:
                    alts.append(_CATEGORY[a2])
                else:
                    raise ValueError('regex class item %r' % (o2,))
            u = _union(alts) if alts else 're.none'
            out.append('(re.diff re.allchar %s)' % u if neg else u)
        elif op in (sre_c.MAX_REPEAT, sre_c.MIN_REPEAT) or str(op) == 'POSSESSIVE_REPEAT':
            lo, hi, sub = av
            r = _cat(_conv(sub, ignorecase))
            if hi is sre_c.MAXREPEAT:
                if lo == 0:
                    out.append('(re.* %s)' % r)
                elif lo == 1:
                    out.append('(re.+ %s)' % r)
                else:
                    out.append('(re.++ ((_ re.^ %d) %s) (re.* %s))' % (lo, r, r))
            elif lo == 0 and hi == 1:
                out.append('(re.opt %s)' % r)
            else:
                out.append('((_ re.loop %d %d) %s)' % (lo, hi, r))
        elif op is sre_c.SUBPATTERN:
            out.append(_cat(_conv(av[3], ignorecase)))
        elif str(op) == 'ATOMIC_GROUP':
            out.append(_cat(_conv(av, ignorecase)))
        elif op is sre_c.BRANCH:
            out.append(_union([_cat(_conv(b, ignorecase)) for b in av[1]]))
        elif op is sre_c.CATEGORY:
            out.append(_CATEGORY[av])
        elif op is sre_c.AT:
            continue  # anchors: full-match semantics
        else:
            raise ValueError('regex construct %r not supported' % (op,))
    return out


_CACHE = {}


def regex_to_smt(pattern, ignorecase=False):
    key = (pattern, ignorecase)
    if key not in _CACHE:
        _CACHE[key] = _cat(_conv(sre_parse.parse(pattern), ignorecase))
        from .terms import register_re
        register_re(_CACHE[key], ('(?i:%s)' % pattern) if ignorecase else pattern)
    return _CACHE[key]


def match_language(pattern, ignorecase=False):
    """RegLan text of {s | re.compile(pattern).match(s) is not None} for patterns whose only anchors are an optional
    leading ^ and an optional trailing $ at top level (no MULTILINE): body, then an optional "\\n" when the pattern ends
    with $ (Python's $ also matches before a final newline), otherwise any suffix."""
    key = ('match', pattern, ignorecase)
    if key in _CACHE:
        return _CACHE[key]
    items = list(sre_parse.parse(pattern))
    if items and items[0][0] is sre_c.AT and items[0][1] is sre_c.AT_BEGINNING:
        items = items[1:]
    at_end = False
    if items and items[-1][0] is sre_c.AT and items[-1][1] is sre_c.AT_END:
        items, at_end = items[:-1], True

    def no_anchor(its):
        for op, av in its:
            if op is sre_c.AT:
                raise ValueError('anchor inside the pattern')
            if op is sre_c.SUBPATTERN:
                no_anchor(av[3])
            elif op is sre_c.BRANCH:
                for b in av[1]:
                    no_anchor(b)
            elif op in (sre_c.MAX_REPEAT, sre_c.MIN_REPEAT):
                no_anchor(av[2])
    no_anchor(items)
    body = _cat(_conv(items, ignorecase))
    tail = '(re.opt (str.to_re "\\u{a}"))' if at_end else 're.all'
    r = '(re.++ %s %s)' % (body, tail)
    from .terms import register_re
    body_py = ''.join(_unparse(items))
    register_re(r, '(?s:%s%s)' % (body_py, '\\n?' if at_end else '.*'))
    _CACHE[key] = r
    return r


def _unparse(items):
    """Python source of the (anchor-free) item list, for the reference evaluator."""
    out = []
    for op, av in items:
        if op is sre_c.LITERAL:
            import re as _re
            out.append(_re.escape(chr(av)))
        elif op is sre_c.ANY:
            out.append('[^\\n]')
        elif op is sre_c.IN:
            neg, parts = False, []
            import re as _re
            for o2, a2 in av:
                if o2 is sre_c.NEGATE:
                    neg = True
                elif o2 is sre_c.LITERAL:
                    parts.append(_re.escape(chr(a2)))
                elif o2 is sre_c.RANGE:
                    parts.append('%s-%s' % (_re.escape(chr(a2[0])), _re.escape(chr(a2[1]))))
                elif o2 is sre_c.CATEGORY:
                    parts.append({sre_c.CATEGORY_DIGIT: '0-9', sre_c.CATEGORY_SPACE: ' \\t-\\r',
                                  sre_c.CATEGORY_WORD: '0-9A-Za-z_'}[a2])
            out.append('[%s%s]' % ('^' if neg else '', ''.join(parts)))
        elif op in (sre_c.MAX_REPEAT, sre_c.MIN_REPEAT):
            lo, hi, sub = av
            q = '{%d,%s}' % (lo, '' if hi is sre_c.MAXREPEAT else hi)
            out.append('(?:%s)%s' % (''.join(_unparse(sub)), q))
        elif op is sre_c.SUBPATTERN:
            out.append('(?:%s)' % ''.join(_unparse(av[3])))
        elif op is sre_c.BRANCH:
            out.append('(?:%s)' % '|'.join(''.join(_unparse(b)) for b in av[1]))
        elif op is sre_c.CATEGORY:
            out.append({sre_c.CATEGORY_DIGIT: '[0-9]', sre_c.CATEGORY_SPACE: '[ \\t-\\r]', sre_c.CATEGORY_WORD: '[0-9A-Za-z_]'}[av])
        else:
            raise ValueError('regex construct %r not supported' % (op,))
    return out
