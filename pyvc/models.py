"""Python data model and builtins over symbolic values."""
import builtins
import functools
import itertools
import math
import operator as _op
import string
import types
from fractions import Fraction

from . import terms as tm
from .values import SymSet  # noqa: E402
from .values import (Sym, SInt, SBool, SStr, SReal, SDec, SErr, Obj, SymSeq, Unsupported,
                     dec_term, is_sym, SComplex, OpaqueVal)

NUMERIC = (SInt, SBool, SReal)
STRINGY = (SStr, SDec)


def is_concrete(v, depth=0):
    if isinstance(v, (Sym, SymSeq, Obj)):
        return False
    if type(v).__name__ in ('OpaqueVal', 'OpaqueFn', 'ArrVal', 'MatchVal'):
        return False
    if type(v).__name__ in ('DateVal', 'DeltaVal'):
        return False
    from .interp import Closure, BoundMethod, NativeMethod
    if isinstance(v, (Closure, BoundMethod, NativeMethod)):
        return False
    if is_sym_array(v):
        return False
    if depth < 4:
        if isinstance(v, (list, tuple, set, frozenset)):
            return all(is_concrete(x, depth + 1) for x in v)
        if isinstance(v, dict):
            return all(is_concrete(x, depth + 1) for x in v.values())
        if isinstance(v, slice):
            return all(is_concrete(x, depth + 1) for x in (v.start, v.stop, v.step))
    return True


def is_sym_array(v):
    """A real numpy object array that holds engine values (symbolic scalars): numpy is the container, run natively for
    everything that does not look at the elements (shape, indexing with concrete indices / masks, copying, iteration)."""
    import numpy as _np
    if not isinstance(v, _np.ndarray):
        return False
    if v.dtype != object:
        return False
    return any(isinstance(x, (Sym, SymSeq, Obj)) or type(x).__name__ in ('OpaqueVal', 'MatchVal') for x in v.flat)


_NATIVE_DENY = set()


def NATIVE_OK(f):
    """Native callables allowed on fully concrete arguments (pure library functions)."""
    mod = getattr(f, '__module__', None) or ''
    if f in (eval, exec, open, input, print, compile, __import__):
        return False
    return True


# ----------------------------------------------------------------------------------
# terms of values

def int_term(v):
    if isinstance(v, SInt):
        return v.t
    if isinstance(v, SBool):
        return tm.mk_ite(v.t, tm.const(1), tm.const(0))
    if isinstance(v, bool):
        return tm.const(int(v))
    if isinstance(v, int):
        return tm.const(v)
    raise Unsupported('int term of %r' % (v,))


def real_term(v):
    if isinstance(v, SReal):
        return v.t
    if isinstance(v, float):
        if v != v or v in (float('inf'), float('-inf')):
            raise Unsupported('non-finite float constant')
        return tm.const(Fraction(v))
    if isinstance(v, SComplex):
        raise Unsupported('complex arithmetic')
    return tm.mk_to_real(int_term(v))


def is_num(v):
    return isinstance(v, NUMERIC) or (isinstance(v, (int, float)) )


def is_intlike(v):
    return isinstance(v, (SInt, SBool)) or (isinstance(v, int))


def is_str(v):
    return isinstance(v, (SStr, SDec, SErr, str))


def str_term(interp, v):
    """String term of a str-typed value."""
    if isinstance(v, SStr):
        return v.t
    if isinstance(v, SDec):
        return dec_term(interp.ctx, v.t)
    if isinstance(v, SErr):
        from .interp import ERRORS
        t = tm.const(str(ERRORS[-1]))
        for i in range(len(ERRORS) - 2, -1, -1):
            t = tm.mk_ite(tm.mk_eq(v.t, tm.const(i)), tm.const(str(ERRORS[i])), t)
        return t
    if isinstance(v, str):
        return tm.const(str(v))
    raise Unsupported('str term of %r' % (v,))


def py_str(interp, v):
    """str(v) as a value."""
    if isinstance(v, (SStr, SDec)):
        return v
    if isinstance(v, SErr):
        return SStr(str_term(interp, v))
    if isinstance(v, SInt):
        return SDec(v.t)
    if isinstance(v, SBool):
        return SStr(tm.mk_ite(v.t, tm.const('True'), tm.const('False')))
    if isinstance(v, (Sym, SymSeq)):
        raise Unsupported('str() of %r' % (v,))
    if isinstance(v, Obj):
        from .interp import interpretable, closure_of
        for nm in ('__str__', '__repr__'):
            m = interp._class_lookup(v.cls, nm)
            if m is not None and isinstance(m, types.FunctionType) and interpretable(m):
                return interp.call(closure_of(m), [v], {})
        if issubclass(v.cls, BaseException):
            a = v.fields.get('args', ())
            return py_str(interp, a[0]) if len(a) == 1 else ('' if not a else Unsupported)
        raise Unsupported('str() of object %r' % (v,))
    if not is_concrete(v):
        raise Unsupported('str() of container with symbolic content')
    return str(v)


def str_concat(interp, vs):
    if all(isinstance(v, str) and not is_sym(v) for v in vs):
        return ''.join(vs)
    return SStr(tm.mk_concat(*[str_term(interp, v) for v in vs]))


def to_int(interp, v):
    """int(v)"""
    if isinstance(v, SInt):
        return v
    if isinstance(v, SBool):
        return SInt(int_term(v))
    if isinstance(v, SDec):
        return SInt(v.t)
    if isinstance(v, SReal):
        fl = tm.mk_floor(v.t)
        return SInt(tm.mk_ite(tm.mk_le(tm.const(Fraction(0)), v.t), fl,
                              tm.mk_neg(tm.mk_floor(tm.mk_neg(v.t)))))
    if isinstance(v, SStr):
        return int_with_base(interp, v, 10)
    if isinstance(v, SErr):
        interp.raise_(ValueError, 'invalid literal for int()')
    if isinstance(v, (Sym, SymSeq, Obj)):
        raise Unsupported('int() of %r' % (v,))
    try:
        return int(v)
    except Exception as ex:
        interp.raise_(type(ex), *ex.args)


def to_float(interp, v):
    if isinstance(v, SReal):
        return v
    if isinstance(v, (SInt, SBool)):
        return SReal(real_term(v))
    if isinstance(v, SDec):
        return SReal(tm.mk_to_real(v.t))
    if isinstance(v, SErr):
        interp.raise_(ValueError, 'could not convert string to float')
    if isinstance(v, SStr):
        return float_of_text(interp, v)
    if isinstance(v, SComplex):
        interp.raise_(TypeError, "float() argument must be a string or a real number, not 'complex'")
    if isinstance(v, (Sym, SymSeq, Obj)):
        raise Unsupported('float() of %r' % (v,))
    try:
        return float(v)
    except Exception as ex:
        interp.raise_(type(ex), *ex.args)


# ----------------------------------------------------------------------------------
# binary operators

_ARITH = {'Add': '+', 'Sub': '-', 'Mult': '*', 'FloorDiv': '//', 'Mod': '%', 'Div': '/', 'Pow': '**',
          'BitAnd': '&', 'BitOr': '|', 'BitXor': '^', 'LShift': '<<', 'RShift': '>>', 'MatMult': '@'}
_PYOP = {'+': _op.add, '-': _op.sub, '*': _op.mul, '//': _op.floordiv, '%': _op.mod,
         '/': _op.truediv, '**': _op.pow, '&': _op.and_, '|': _op.or_, '^': _op.xor,
         '<<': _op.lshift, '>>': _op.rshift, '@': _op.matmul}


def binop(interp, opname, a, b, inplace=False):
    op = _ARITH[opname]
    from . import dates
    r = dates.date_binop(interp, op, a, b)
    if r is not NotImplemented:
        return r
    if isinstance(a, Obj) or isinstance(b, Obj):
        return obj_binop(interp, op, a, b)
    if not (is_sym(a) or is_sym(b) or isinstance(a, SymSeq) or isinstance(b, SymSeq)):
        # concrete containers possibly holding symbolic items
        if isinstance(a, (list, tuple)) and isinstance(b, (list, tuple)) and op == '+':
            if type(a) is not type(b):
                interp.raise_(TypeError, 'can only concatenate like sequences')
            if inplace and isinstance(a, list):
                a.extend(b)
                return a
            return a + b
        if isinstance(a, (list, tuple)) and isinstance(b, int) and op == '*':
            return a * b
        if isinstance(a, str) and op == '%':
            return percent_format(interp, a, b)
        if is_concrete(a) and is_concrete(b):
            try:
                return _PYOP[op](a, b)
            except Exception as ex:
                interp.raise_(type(ex), *ex.args)
        raise Unsupported('binop %s on %r, %r' % (op, a, b))
    # bool & bool etc.
    if isinstance(a, (SBool, bool)) and isinstance(b, (SBool, bool)) and op in '&|^':
        ta, tb = _bool_t(a), _bool_t(b)
        if op == '&':
            return SBool(tm.mk_and(ta, tb))
        if op == '|':
            return SBool(tm.mk_or(ta, tb))
        return SBool(tm.mk_ne(ta, tb))
    if is_num(a) and is_num(b):
        return num_binop(interp, op, a, b)
    if is_str(a) and is_str(b) and op == '+':
        return str_concat(interp, [a, b])
    if is_str(a) and op == '%':
        if isinstance(a, str):
            return percent_format(interp, a, b)
        raise Unsupported('symbolic %-format string')
    if is_str(a) and is_intlike(b) and op == '*':
        if isinstance(a, str) and str(a) == '0':
            k = int_term(b)
            z = tm.app('zeros', (k,), tm.STR)
            if z not in interp.ctx.dec_seen:
                interp.ctx.dec_seen.add(z)
                interp.ctx.axioms.append(tm.mk_implies(tm.mk_le(tm.const(0), k), tm.mk_eq(tm.mk_len(z), k)))
                interp.ctx.axioms.append(tm.mk_implies(tm.mk_le(k, tm.const(0)), tm.mk_eq(z, tm.const(''))))
                interp.ctx.axioms.append(tm.T('str.in_re', (z, tm.T('re', (), 'RegLan', '(re.* (str.to_re "0"))')), tm.BOOL))
            return SStr(z)
        raise Unsupported('string repetition with symbolic operand')
    if isinstance(a, SymSeq) or isinstance(b, SymSeq):
        raise Unsupported('sequence op on symbolic-length sequence')
    # type errors
    interp.raise_(TypeError, 'unsupported operand type(s) for %s' % op)


def _bool_t(v):
    return v.t if isinstance(v, SBool) else tm.const(v)


def obj_binop(interp, op, a, b):
    from .interp import interpretable, closure_of
    names = {'+': '__add__', '-': '__sub__', '&': '__and__', '|': '__or__'}
    n = names.get(op)
    if n and isinstance(a, Obj):
        m = interp._class_lookup(a.cls, n)
        if m is not None and interpretable(m):
            return interp.call(closure_of(m), [a, b], {})
    raise Unsupported('object binop %s' % op)


def num_binop(interp, op, a, b):
    real = isinstance(a, (SReal, float)) or isinstance(b, (SReal, float)) or op == '/'
    if op in ('&', '|', '^', '<<', '>>'):
        return bit_binop(interp, op, a, b)
    if op == '**':
        return pow_binop(interp, a, b)
    if not real:
        x, y = int_term(a), int_term(b)
        if op == '+':
            return SInt(tm.mk_add(x, y))
        if op == '-':
            return SInt(tm.mk_sub(x, y))
        if op == '*':
            return SInt(tm.mk_mul(x, y))
        if op in ('//', '%'):
            if interp.ctx.branch(tm.mk_eq(y, tm.const(0))):
                interp.raise_(ZeroDivisionError, 'integer division or modulo by zero')
            return SInt(tm.mk_div(x, y) if op == '//' else tm.mk_mod(x, y))
    else:
        if interp.float_mode != 'real':
            return float_op(interp, op, a, b)
        interp.ctx.ghost.setdefault('assumptions', set()).add('float arithmetic treated as real arithmetic')
        x, y = real_term(a), real_term(b)
        if op == '+':
            return SReal(tm.mk_add(x, y))
        if op == '-':
            return SReal(tm.mk_sub(x, y))
        if op == '*':
            return SReal(tm.mk_mul(x, y))
        if op == '/':
            if interp.ctx.branch(tm.mk_eq(y, tm.const(Fraction(0)))):
                interp.raise_(ZeroDivisionError, 'division by zero')
            return SReal(tm.mk_rdiv(x, y))
        if op == '//':
            if interp.ctx.branch(tm.mk_eq(y, tm.const(Fraction(0)))):
                interp.raise_(ZeroDivisionError, 'float floor division by zero')
            return SReal(tm.mk_to_real(tm.mk_floor(tm.mk_rdiv(x, y))))
        if op == '%':
            if interp.ctx.branch(tm.mk_eq(y, tm.const(Fraction(0)))):
                interp.raise_(ZeroDivisionError, 'float modulo')
            q = tm.mk_to_real(tm.mk_floor(tm.mk_rdiv(x, y)))
            return SReal(tm.mk_sub(x, tm.mk_mul(y, q)))
    raise Unsupported('numeric op %s' % op)


def pow_binop(interp, a, b):
    if isinstance(b, int) and not isinstance(b, bool) and 0 <= b <= 4 and not isinstance(a, (SReal, float)):
        x = int_term(a)
        r = tm.const(1)
        for _ in range(b):
            r = tm.mk_mul(r, x)
        return SInt(r)
    if isinstance(a, int) and not isinstance(a, bool) and a == 2 and is_intlike(b):
        # 2 ** n with symbolic n: uninterpreted pow2 (only used with concrete masks normally)
        raise Unsupported('2 ** symbolic')
    if interp.float_mode == 'opaque' and is_num(a) and is_num(b):
        return float_op(interp, '**', a, b)
    raise Unsupported('** on symbolic operands')


def _pow2_mask(v):
    """If v is a concrete non-negative int of the form 2^k - 1 return k."""
    if isinstance(v, int) and v >= 0 and (v & (v + 1)) == 0:
        return v.bit_length()
    return None


def bit_binop(interp, op, a, b):
    """Bit operators, exact arithmetic encodings for masks of the form 2^k-1 / ~(2^k-1) /
    single power-of-two bits, and shifts by constants."""
    if op in ('<<', '>>') and isinstance(b, int):
        x = int_term(a)
        if op == '<<':
            return SInt(tm.mk_mul(x, tm.const(1 << b)))
        return SInt(tm.mk_div(x, tm.const(1 << b)))
    if op == '&':
        for x, m in ((a, b), (b, a)):
            if isinstance(m, int) and not isinstance(m, bool):
                k = _pow2_mask(m)
                if k is not None:  # x & (2^k-1) == x mod 2^k  (python semantics, any sign)
                    return SInt(tm.mk_mod(int_term(x), tm.const(1 << k)))
                k = _pow2_mask(~m)
                if k is not None:  # x & ~(2^k-1) == x - (x mod 2^k)
                    xt = int_term(x)
                    return SInt(tm.mk_sub(xt, tm.mk_mod(xt, tm.const(1 << k))))
                if m < 0 and (~m) > 0 and ((~m) & ((~m) - 1)) == 0:  # all ones except bit k: clears bit k
                    b_ = ~m
                    xt = int_term(x)
                    bit = tm.mk_mod(tm.mk_div(xt, tm.const(b_)), tm.const(2))
                    return SInt(tm.mk_sub(xt, tm.mk_mul(bit, tm.const(b_))))
                if m > 0 and (m & (m - 1)) == 0:  # single bit 2^k
                    xt = int_term(x)
                    bit = tm.mk_mod(tm.mk_div(xt, tm.const(m)), tm.const(2))
                    return SInt(tm.mk_mul(bit, tm.const(m)))
    raise Unsupported('bit operator %s on symbolic operands' % op)


def percent_format(interp, fmt, b):
    args = list(b) if isinstance(b, tuple) else [b]
    out, i, n = [], 0, 0
    while i < len(fmt):
        ch = fmt[i]
        if ch == '%':
            c = fmt[i + 1] if i + 1 < len(fmt) else ''
            if c == '%':
                out.append('%')
            elif c in 'sd':
                if n >= len(args):
                    interp.raise_(TypeError, 'not enough arguments for format string')
                v = args[n]
                n += 1
                if c == 'd' and not is_intlike(v):
                    if is_num(v):
                        v = to_int(interp, v)
                    else:
                        interp.raise_(TypeError, '%d format: a number is required')
                out.append(py_str(interp, v))
            else:
                raise Unsupported('%%-format directive %r' % c)
            i += 2
        else:
            j = fmt.find('%', i)
            j = len(fmt) if j < 0 else j
            out.append(fmt[i:j])
            i = j
    if n != len(args):
        interp.raise_(TypeError, 'not all arguments converted during string formatting')
    return str_concat(interp, out)


def str_format(interp, fmt, args, kwargs):
    out = []
    auto = 0
    for lit, field, spec, conv in string.Formatter().parse(fmt):
        if lit:
            out.append(lit)
        if field is None:
            continue
        if spec or conv:
            raise Unsupported('format spec')
        if field == '':
            if auto >= len(args):
                interp.raise_(IndexError, 'Replacement index out of range')
            v = args[auto]
            auto += 1
        elif field.isdigit():
            if int(field) >= len(args):
                interp.raise_(IndexError, 'Replacement index out of range')
            v = args[int(field)]
        else:
            if field not in kwargs:
                interp.raise_(KeyError, field)
            v = kwargs[field]
        out.append(py_str(interp, v))
    return str_concat(interp, out)


# ----------------------------------------------------------------------------------
# comparisons

def _kind(v):
    if isinstance(v, (SBool, SInt, SReal)) or (isinstance(v, (int, float)) ):
        return 'num'
    if isinstance(v, (SStr, SDec, SErr)) or isinstance(v, str):
        return 'str'
    if v is None:
        return 'none'
    return 'other'


def _array_compare(interp, op, a, b):
    """numpy's element-wise comparison of an object array holding symbolic values with a scalar (or an array of the
    same shape): each element comparison is decided on the path (fork), the result is a concrete boolean array."""
    import numpy as np
    arr, other, swap = (a, b, False) if is_sym_array(a) else (b, a, True)
    if isinstance(other, np.ndarray):
        if other.shape != arr.shape:
            raise Unsupported('comparison of arrays of different shapes')
        others = list(other.flat)
    else:
        others = [other] * arr.size
    out = np.empty(arr.size, bool)
    for k, (x, y) in enumerate(zip(arr.flat, others)):
        r = compare(interp, op, y, x) if swap else compare(interp, op, x, y)
        out[k] = interp.truth(r)
    return out.reshape(arr.shape)


def compare(interp, op, a, b):
    if op in ('==', '!=', '<', '<=', '>', '>=') and (is_sym_array(a) or is_sym_array(b)):
        return _array_compare(interp, op, a, b)
    if op == 'is':
        return identical(interp, a, b)
    if op == 'is not':
        return bnot(identical(interp, a, b))
    if op == 'in':
        return contains(interp, b, a)
    if op == 'not in':
        return bnot(contains(interp, b, a))
    if op == '==':
        return equal(interp, a, b)
    if op == '!=':
        return bnot(equal(interp, a, b))
    return order(interp, op, a, b)


def bnot(v):
    if isinstance(v, bool):
        return not v
    return SBool(tm.mk_not(v.t))


def band(vs):
    ts = [tm.const(v) if isinstance(v, bool) else v.t for v in vs]
    t = tm.mk_and(*ts)
    return t.val if t.is_const else SBool(t)


def identical(interp, a, b):
    if a is b:
        return True
    if isinstance(a, SErr) or isinstance(b, SErr):
        return equal_err(interp, a, b)
    if isinstance(a, SComplex) or isinstance(b, SComplex):
        return a is b
    if is_sym(a) and is_sym(b) and type(a) is not type(b) and not {type(a), type(b)} <= {SStr, SDec}:
        return False          # objects of different python types are never identical
    if isinstance(a, SReal) and isinstance(b, SReal):
        return False          # two distinct float objects (floats are not interned)
    if is_sym(a) or is_sym(b):
        if a is None or b is None:
            return False
        if isinstance(a, SBool) and isinstance(b, (SBool, bool)) or isinstance(b, SBool) and isinstance(a, (SBool, bool)):
            return SBool(tm.mk_eq(_bool_t(a), _bool_t(b)))
        for x, y in ((a, b), (b, a)):
            if is_sym(x) and not is_sym(y):
                if not isinstance(y, (int, str, float)):
                    return False  # a symbolic int/str is never a sentinel object
                if isinstance(x, (SInt, SBool, SReal)) and isinstance(y, str):
                    return False
                if isinstance(x, (SStr, SDec)) and (isinstance(y, (int, float)) or type(y) is not str):
                    return False  # plain str value vs number / XlError-like singleton
        raise Unsupported('identity of symbolic values %r is %r' % (a, b))
    return a is b


def equal_err(interp, a, b):
    from .interp import ERRORS
    if isinstance(a, SErr) and isinstance(b, SErr):
        return SBool(tm.mk_eq(a.t, b.t))
    s, o = (a, b) if isinstance(a, SErr) else (b, a)
    for i, e in enumerate(ERRORS):
        if o is e:
            return SBool(tm.mk_eq(s.t, tm.const(i)))
    return False


def equal(interp, a, b):
    if isinstance(a, Obj) or isinstance(b, Obj):
        if a is b:
            return True
        for x in (a, b):
            if isinstance(x, Obj) and interp._class_lookup(x.cls, '__eq__') is not object.__eq__:
                raise Unsupported('custom __eq__')
        return False
    ka, kb = _kind(a), _kind(b)
    if not (is_sym(a) or is_sym(b)):
        if isinstance(a, (dict, list, tuple)) and type(a) is type(b) or \
                (isinstance(a, (list, tuple, dict)) and isinstance(b, (list, tuple, dict))):
            return container_eq(interp, a, b)
        if isinstance(a, SymSeq) or isinstance(b, SymSeq):
            raise Unsupported('== on symbolic-length sequence')
        if is_concrete(a) and is_concrete(b):
            try:
                r = a == b
                if type(r).__module__ == 'numpy' and getattr(r, 'ndim', 0) > 0:
                    return r           # numpy's element-wise comparison of concrete arrays
                return bool(r)
            except Exception as ex:
                raise Unsupported('== of %r, %r' % (a, b))
        if isinstance(a, (dict, list, tuple, set)) or isinstance(b, (dict, list, tuple, set)):
            return False if type(a) is not type(b) else container_eq(interp, a, b)
        raise Unsupported('== of %r, %r' % (a, b))
    if ka == 'num' and kb == 'num':
        if isinstance(a, (SReal, float)) or isinstance(b, (SReal, float)):
            fa, fb = fin_term(a), fin_term(b)
            e = tm.mk_eq(real_term(a), real_term(b))
            if not (fa.is_const and fb.is_const):
                # inf / nan never equal a finite number; two non-finite values: not modelled (uninterpreted)
                both = tm.mk_and(fa, fb)
                neither = tm.mk_and(tm.mk_not(fa), tm.mk_not(fb))
                e = tm.mk_ite(both, e, tm.mk_and(neither, tm.app('nonfinite_eq', (real_term(a), real_term(b)), tm.BOOL)))
            return e.val if e.is_const else SBool(e)
        return SBool(tm.mk_eq(int_term(a), int_term(b)))
    if ka == 'str' and kb == 'str':
        import schedula as _sh
        ta, tb = isinstance(a, (SErr, _sh.Token)), isinstance(b, (SErr, _sh.Token))
        if ta or tb:
            # schedula tokens (the error values, sh.EMPTY) compare by identity, never by text
            if ta and tb and (isinstance(a, SErr) or isinstance(b, SErr)):
                return equal_err(interp, a, b)
            return a is b
        if isinstance(a, SDec) and isinstance(b, SDec):
            return SBool(tm.mk_eq(a.t, b.t))
        for x, y in ((a, b), (b, a)):
            if isinstance(x, SDec) and isinstance(y, str):
                try:
                    if str(int(y)) == y:
                        return SBool(tm.mk_eq(x.t, tm.const(int(y))))
                except ValueError:
                    pass
                return False
        if isinstance(a, SErr) and isinstance(b, SErr):
            return SBool(tm.mk_eq(a.t, b.t))
        r = tm.mk_eq(str_term(interp, a), str_term(interp, b))
        return r.val if r.is_const else SBool(r)
    # different kinds: never equal
    return False


def container_eq(interp, a, b):
    if isinstance(a, dict) and isinstance(b, dict):
        if set(a) != set(b):
            return False
        return band([equal(interp, a[k], b[k]) for k in a])
    if isinstance(a, (list, tuple)) and type(a) is type(b):
        if len(a) != len(b):
            return False
        return band([equal(interp, x, y) for x, y in zip(a, b)])
    return False


def order(interp, op, a, b):
    ka, kb = _kind(a), _kind(b)
    if not (is_sym(a) or is_sym(b)):
        if isinstance(a, tuple) and isinstance(b, tuple) or isinstance(a, list) and isinstance(b, list):
            return seq_order(interp, op, a, b)
        if is_concrete(a) and is_concrete(b):
            try:
                return bool({'<': _op.lt, '<=': _op.le, '>': _op.gt, '>=': _op.ge}[op](a, b))
            except Exception as ex:
                interp.raise_(type(ex), *ex.args)
        raise Unsupported('ordering of %r, %r' % (a, b))
    if ka == 'num' and kb == 'num':
        if isinstance(a, (SReal, float)) or isinstance(b, (SReal, float)):
            x, y = real_term(a), real_term(b)
        else:
            x, y = int_term(a), int_term(b)
        t = {'<': tm.mk_lt(x, y), '<=': tm.mk_le(x, y), '>': tm.mk_lt(y, x), '>=': tm.mk_le(y, x)}[op]
        fa, fb = fin_term(a), fin_term(b)
        if not (fa.is_const and fb.is_const):
            # ordering against inf / nan is not modelled: uninterpreted outcome
            t = tm.mk_ite(tm.mk_and(fa, fb), t, tm.app('nonfinite_cmp_' + {'<': 'lt', '<=': 'le', '>': 'gt', '>=': 'ge'}[op], (x, y), tm.BOOL))
        return t.val if t.is_const else SBool(t)
    if ka == 'str' and kb == 'str':
        x, y = str_term(interp, a), str_term(interp, b)
        t = {'<': tm.T('str.<', (x, y), tm.BOOL), '<=': tm.T('str.<=', (x, y), tm.BOOL),
             '>': tm.T('str.<', (y, x), tm.BOOL), '>=': tm.T('str.<=', (y, x), tm.BOOL)}[op]
        return SBool(t)
    if ka in ('num', 'str', 'none') and kb in ('num', 'str', 'none'):
        interp.raise_(TypeError, "'%s' not supported between instances" % op)
    raise Unsupported('ordering of %r, %r' % (a, b))


def seq_order(interp, op, a, b):
    """Lexicographic comparison of concrete-length sequences with symbolic items."""
    for x, y in zip(a, b):
        eq = equal(interp, x, y)
        if eq is True:
            continue
        if eq is False or not interp.ctx.branch(eq.t):
            strict = {'<=': '<', '>=': '>'}.get(op, op)
            return order(interp, strict, x, y)
    la, lb = len(a), len(b)
    return {'<': la < lb, '<=': la <= lb, '>': la > lb, '>=': la >= lb}[op]


def contains(interp, container, item):
    if isinstance(container, dict):
        if is_sym(item):
            raise Unsupported('symbolic key membership')
        return item in container
    if isinstance(container, (list, tuple)):
        res = []
        for x in container:
            e = equal(interp, x, item)
            if e is True:
                return True
            if e is not False:
                res.append(e.t)
        if not res:
            return False
        return SBool(tm.mk_or(*res))
    if isinstance(container, SymSet):
        return contains(interp, container.elems, item)
    if isinstance(container, (set, frozenset)):
        if is_sym(item):
            return contains(interp, tuple(container), item)
        return item in container
    if isinstance(container, str) and not is_sym(container):
        if isinstance(item, str) and not is_sym(item):
            return item in container
        if is_str(item):
            return SBool(tm.T('str.contains', (tm.const(str(container)), str_term(interp, item)), tm.BOOL))
        interp.raise_(TypeError, "'in <string>' requires string as left operand")
    if isinstance(container, (SStr, SDec)):
        if not is_str(item):
            interp.raise_(TypeError, "'in <string>' requires string as left operand")
        return SBool(tm.T('str.contains', (str_term(interp, container), str_term(interp, item)), tm.BOOL))
    if isinstance(container, range) and is_intlike(item):
        if container.step == 1:
            x = int_term(item)
            return SBool(tm.mk_and(tm.mk_le(tm.const(container.start), x), tm.mk_lt(x, tm.const(container.stop))))
    raise Unsupported('membership in %r' % (container,))


# ----------------------------------------------------------------------------------
# subscripts

def getitem(interp, o, i):
    if isinstance(o, dict):
        if is_sym(i):
            if isinstance(i, (SStr, SDec, SErr, SInt)):
                # fork over the concrete keys
                for k in o:
                    e = equal(interp, i, k)
                    if e is True or (e is not False and interp.ctx.branch(e.t)):
                        return o[k]
                interp.raise_(KeyError, i)
            raise Unsupported('symbolic dict key')
        try:
            return o[i]
        except KeyError:
            interp.raise_(KeyError, i)
        except TypeError as ex:
            interp.raise_(TypeError, *ex.args)
    if isinstance(o, (list, tuple)):
        if isinstance(i, slice):
            if is_concrete(i):
                return o[i]
            raise Unsupported('symbolic slice of concrete sequence')
        if isinstance(i, (SInt, SBool)):
            n = len(o)
            t = int_term(i)
            for k in range(n):
                if interp.ctx.branch(tm.mk_or(tm.mk_eq(t, tm.const(k)), tm.mk_eq(t, tm.const(k - n)))):
                    return o[k]
            interp.raise_(IndexError, 'index out of range')
        if isinstance(i, int):
            try:
                return o[i]
            except IndexError:
                interp.raise_(IndexError, 'index out of range')
        interp.raise_(TypeError, 'indices must be integers or slices')
    if isinstance(o, str) and not is_sym(o):
        if is_concrete(i):
            try:
                return o[i]
            except Exception as ex:
                interp.raise_(type(ex), *ex.args)
        return str_getitem(interp, SStr(tm.const(str(o))), i)
    if isinstance(o, (SStr, SDec)):
        return str_getitem(interp, o, i)
    if isinstance(o, SymSeq):
        return symseq_getitem(interp, o, i)
    if isinstance(o, Obj):
        from .interp import interpretable, closure_of
        m = interp._class_lookup(o.cls, '__getitem__')
        if m is not None and interpretable(m):
            return interp.call(closure_of(m), [o, i], {})
    import numpy as _np
    if isinstance(o, _np.ndarray):
        return ndarray_getitem(interp, o, i)
    raise Unsupported('subscript of %r' % (o,))


def ndarray_getitem(interp, o, i):
    """numpy indexing run natively; a symbolic integer index is decided on the path (one fork per position, negative
    indices and IndexError as numpy has them).  None (np.newaxis) and slices pass through."""
    idx = list(i) if isinstance(i, tuple) else [i]
    if len([x for x in idx if x is not None]) > o.ndim and not any(isinstance(x, (SInt, SBool)) for x in idx):
        interp.raise_(IndexError, 'too many indices for array')
    conc, dim = [], 0
    for x in idx:
        if x is None:
            conc.append(None)
            continue
        if isinstance(x, SBool):
            raise Unsupported('boolean scalar index into an array')
        if isinstance(x, SInt):
            if dim >= o.ndim:
                interp.raise_(IndexError, 'too many indices for array')
            n = o.shape[dim]
            for k in range(n):
                if interp.ctx.branch(tm.mk_or(tm.mk_eq(x.t, tm.const(k)), tm.mk_eq(x.t, tm.const(k - n)))):
                    conc.append(k)
                    break
            else:
                interp.raise_(IndexError, 'index out of bounds')
        elif is_concrete(x):
            conc.append(x)
        else:
            raise Unsupported('array index %r' % (x,))
        dim += 1
    try:
        return o[tuple(conc) if isinstance(i, tuple) else conc[0]]
    except Exception as ex:
        interp.raise_(type(ex), *ex.args)


def str_getitem(interp, s, i):
    t = str_term(interp, s)
    n = tm.mk_len(t)
    if isinstance(i, slice):
        if i.step is not None:
            if i.step == -1 and i.start is None and i.stop is None:
                return str_reverse(interp, s)
            raise Unsupported('string slice with step')
        if i.stop is None and isinstance(i.start, int) and i.start >= 0 and t.op == 'str.++' \
                and t.args[0].is_const and len(t.args[0].val) >= i.start:
            r = tm.mk_concat(tm.const(t.args[0].val[i.start:]), *t.args[1:])
            return r.val if r.is_const else SStr(r)
        lo = tm.const(0) if i.start is None else _norm_index(interp, int_term(i.start), n)
        hi = n if i.stop is None else _norm_index(interp, int_term(i.stop), n)
        if t.op == 'app' and t.val == 'rev':
            # a slice of a reversed string is the reversal of the mirrored slice
            hi2 = tm.mk_ite(tm.mk_lt(hi, lo), lo, hi)
            inner = t.args[0]
            sub = tm.mk_strop('str.substr', (inner, tm.mk_sub(n, hi2), tm.mk_sub(hi2, lo)), tm.STR)
            r = rev_term(interp, sub)
            return r.val if r.is_const else SStr(r)
        ln = tm.mk_sub(hi, lo)
        r = tm.mk_strop('str.substr', (t, lo, tm.mk_ite(tm.mk_lt(ln, tm.const(0)), tm.const(0), ln)), tm.STR)
        return r.val if r.is_const else SStr(r)
    if is_intlike(i):
        k = int_term(i)
        if interp.ctx.branch(tm.mk_and(tm.mk_le(tm.mk_neg(n), k), tm.mk_lt(k, n))):
            k2 = tm.mk_ite(tm.mk_lt(k, tm.const(0)), tm.mk_add(k, n), k)
            r = tm.mk_strop('str.at', (t, k2), tm.STR)
            return r.val if r.is_const else SStr(r)
        interp.raise_(IndexError, 'string index out of range')
    interp.raise_(TypeError, 'string indices must be integers')


def _norm_index(interp, k, n):
    """Clamp a slice bound python-style."""
    if k.is_const and k.val >= 0:
        return tm.mk_ite(tm.mk_lt(n, k), n, k)
    if not k.is_const:
        # bounds the path already confines to 0 <= k <= n need no clamping (decided by the feasibility solver; an
        # undecided query keeps the general form)
        ctx = interp.ctx
        if not ctx.feasible([tm.mk_lt(k, tm.const(0))]) and not ctx.feasible([tm.mk_lt(n, k)]):
            return k
    neg = tm.mk_add(k, n)
    return tm.mk_ite(tm.mk_lt(k, tm.const(0)),
                     tm.mk_ite(tm.mk_lt(neg, tm.const(0)), tm.const(0), neg),
                     tm.mk_ite(tm.mk_lt(n, k), n, k))


def rev_term(interp, t):
    """Abstract reversal: uninterpreted `rev` with rev(rev(x)) = x, |rev(x)| = |x|; slices are pushed through it
    (str_getitem): rev(x)[a:b] = rev(x[n-b:n-a]).  Theorems about string reversal."""
    if t.is_const:
        return tm.const(t.val[::-1])
    if t.op == 'app' and t.val == 'rev':
        return t.args[0]
    if t.op == 'str.substr' and t.args[0].op == 'app' and t.args[0].val == 'rev':
        pass
    r = tm.app('rev', (t,), tm.STR)
    if r not in interp.ctx.dec_seen:
        interp.ctx.dec_seen.add(r)
        interp.ctx.axioms.append(tm.mk_eq(tm.mk_len(r), tm.mk_len(t)))
    return r


def str_reverse(interp, s):
    """s[::-1]: abstract reversal when the contract asks for it (hook str_reverse='abstract'), otherwise for strings
    whose length the path bounds (forks on the length)."""
    t = str_term(interp, s)
    if interp.hooks.get('str_reverse') == 'abstract':
        r = rev_term(interp, t)
        return r.val if r.is_const else SStr(r)
    n = tm.mk_len(t)
    bound = interp.hooks.get('str_bound', 4)
    for k in range(bound + 1):
        if interp.ctx.branch(tm.mk_eq(n, tm.const(k))):
            parts = [tm.mk_strop('str.at', (t, tm.const(j)), tm.STR) for j in range(k - 1, -1, -1)]
            return SStr(tm.mk_concat(*parts)) if parts else ''
    raise Unsupported('reverse of string longer than bound %d' % bound)


def symseq_getitem(interp, o, i):
    if isinstance(i, slice):
        raise Unsupported('slice of symbolic-length sequence')
    k = int_term(i)
    if interp.ctx.branch(tm.mk_and(tm.mk_le(tm.mk_neg(o.len), k), tm.mk_lt(k, o.len))):
        k2 = tm.mk_ite(tm.mk_lt(k, tm.const(0)), tm.mk_add(k, o.len), k)
        return o.wrap(tm.mk_select(o.arr, k2))
    interp.raise_(IndexError, 'index out of range')


def setitem(interp, o, i, v):
    if isinstance(o, dict):
        if is_sym(i):
            raise Unsupported('symbolic dict key store')
        o[i] = v
        return
    if isinstance(o, list):
        if isinstance(i, int):
            try:
                o[i] = v
            except IndexError:
                interp.raise_(IndexError, 'list assignment index out of range')
            return
        if isinstance(i, slice) and is_concrete(i):
            o[i] = interp.iterate(v)
            return
        raise Unsupported('symbolic list index store')
    if isinstance(o, SymSeq) and o.mutable:
        k = int_term(i)
        if interp.ctx.branch(tm.mk_and(tm.mk_le(tm.mk_neg(o.len), k), tm.mk_lt(k, o.len))):
            k2 = tm.mk_ite(tm.mk_lt(k, tm.const(0)), tm.mk_add(k, o.len), k)
            o.arr = tm.mk_store(o.arr, k2, o.unwrap(v))
            return
        interp.raise_(IndexError, 'list assignment index out of range')
    if isinstance(o, tuple) or is_str(o):
        interp.raise_(TypeError, 'object does not support item assignment')
    import numpy as _np
    if isinstance(o, _np.ndarray):
        # numpy item / slice assignment with concrete indices runs natively (numpy is the container; it does not
        # look at object elements): broadcasting and its ValueError included
        idx = list(i) if isinstance(i, tuple) else [i]
        if not all(is_concrete(x) for x in idx):
            raise Unsupported('array store with a symbolic index')
        if isinstance(v, (list, tuple)) and not is_concrete(v):
            raise Unsupported('array store of a python sequence with symbolic content')
        try:
            o[i] = v
        except Exception as ex:
            interp.raise_(type(ex), *ex.args)
        return
    raise Unsupported('item store on %r' % (o,))


def iterate(interp, v):
    if isinstance(v, (list, tuple)):
        return list(v)
    if isinstance(v, dict):
        return list(v)
    if isinstance(v, (set, frozenset, range, types.GeneratorType, map, zip, filter, enumerate, reversed)):
        return list(v)
    if isinstance(v, (type({}.keys()), type({}.values()), type({}.items()))):
        return list(v)
    if isinstance(v, str) and not is_sym(v):
        return list(v)
    if isinstance(v, (SStr, SDec)):
        t = str_term(interp, v)
        n = tm.mk_len(t)
        bound = interp.hooks.get('str_bound', 4)
        for k in range(bound + 1):
            if interp.ctx.branch(tm.mk_eq(n, tm.const(k))):
                return [SStr(tm.mk_strop('str.at', (t, tm.const(j)), tm.STR)) for j in range(k)]
        raise Unsupported('iteration over string longer than bound %d' % bound)
    if isinstance(v, SymSeq):
        raise Unsupported('iteration over symbolic-length sequence')
    if v is None or is_num(v):
        interp.raise_(TypeError, 'object is not iterable')
    if hasattr(v, '__iter__') and is_concrete(v):
        return list(v)
    if is_sym_array(v):
        return list(v)
    raise Unsupported('iteration over %r' % (v,))


# ----------------------------------------------------------------------------------
# methods of native / symbolic values

_DICT_NATIVE = {'get', 'copy', 'update', 'items', 'values', 'keys', 'pop', 'setdefault', 'clear', 'popitem'}
_LIST_NATIVE = {'append', 'extend', 'pop', 'copy', 'reverse', 'clear', 'insert'}


def call_method(interp, o, name, args, kwargs):
    if isinstance(o, dict):
        if name in _DICT_NATIVE:
            if name in ('get', 'pop', 'setdefault') and args and is_sym(args[0]):
                raise Unsupported('symbolic key in dict.%s' % name)
            if name == 'update' and args and not isinstance(args[0], dict):
                args = [dict(interp.iterate(args[0]))] + list(args[1:])
            try:
                return getattr(o, name)(*args, **kwargs)
            except Exception as ex:
                interp.raise_(type(ex), *ex.args)
        interp.raise_(AttributeError, name)
    if isinstance(o, list):
        if name in _LIST_NATIVE:
            if name == 'extend':
                args = [interp.iterate(args[0])]
            if name in ('pop', 'insert') and args and is_sym(args[0]):
                raise Unsupported('symbolic index in list.%s' % name)
            try:
                return getattr(o, name)(*args, **kwargs)
            except Exception as ex:
                interp.raise_(type(ex), *ex.args)
        if name == 'index':
            return seq_index(interp, o, *args)
        if name == 'count':
            raise Unsupported('list.count')
        if name == 'sort':
            raise Unsupported('list.sort')
        interp.raise_(AttributeError, name)
    if isinstance(o, tuple):
        if name == 'index':
            return seq_index(interp, o, *args)
        interp.raise_(AttributeError, name)
    if isinstance(o, (set, frozenset)):
        if is_concrete(list(args)):
            try:
                return getattr(o, name)(*args, **kwargs)
            except Exception as ex:
                interp.raise_(type(ex), *ex.args)
        raise Unsupported('set method with symbolic args')
    if isinstance(o, str) and not is_sym(o):
        if all(is_concrete(a) for a in args) and all(is_concrete(a) for a in kwargs.values()):
            try:
                return getattr(o, name)(*args, **kwargs)
            except Exception as ex:
                interp.raise_(type(ex), *ex.args)
        if name == 'format':
            return str_format(interp, o, args, kwargs)
        if name == 'join':
            items = interp.iterate(args[0])
            out = []
            for k, x in enumerate(items):
                if not is_str(x):
                    interp.raise_(TypeError, 'sequence item: expected str instance')
                if k:
                    out.append(o)
                out.append(x)
            return str_concat(interp, out)
        return str_method(interp, SStr(tm.const(str(o))), name, args, kwargs)
    if isinstance(o, (SStr, SDec, SErr)):
        return str_method(interp, o, name, args, kwargs)
    if isinstance(o, SymSeq):
        return symseq_method(interp, o, name, args, kwargs)
    if isinstance(o, range):
        return getattr(o, name)(*args)
    if isinstance(o, (SInt, SBool, SReal)):
        if name == 'is_integer' and isinstance(o, SReal):
            return SBool(tm.mk_is_int(o.t))
        raise Unsupported('numeric method %s' % name)
    raise Unsupported('method %s of %r' % (name, o))


class MatchVal(OpaqueVal):
    """A regex match object of which only its existence (truthiness) is known."""


def regex_match(interp, pat, how, s):
    """pattern.match(s) / pattern.fullmatch(s) on a symbolic string: forks on membership in the pattern's language;
    the match object is opaque (only its truth is known).  Patterns with inner anchors, look-arounds, back-references
    are outside the subset (ValueError -> Unsupported)."""
    import re as _re
    from .regex2smt import match_language, regex_to_smt
    flags = pat.flags
    if flags & (_re.MULTILINE | _re.DOTALL | _re.VERBOSE):
        raise Unsupported('regex flags %r' % flags)
    ic = bool(flags & _re.IGNORECASE)
    if not is_str(s):
        interp.raise_(TypeError, 'expected string or buffer')
    try:
        lang = match_language(pat.pattern, ic) if how == 'match' else None
        if lang is None:
            raise ValueError('fullmatch')
    except ValueError as ex:
        raise Unsupported('regex %r: %s' % (pat.pattern, ex))
    t = tm.T('str.in_re', (str_term(interp, s), tm.T('re', (), 'RegLan', lang)), tm.BOOL)
    if interp.ctx.branch(t):
        return MatchVal('match(%s)' % pat.pattern)
    return None


def seq_index(interp, o, item, *rest):
    if rest:
        raise Unsupported('index with start')
    for k, x in enumerate(o):
        if x is item:
            return k
        e = equal(interp, x, item)
        if e is True or (e is not False and interp.ctx.branch(e.t)):
            return k
    interp.raise_(ValueError, 'x not in sequence')


def _upper_term(interp, t):
    """upper() pushed through concatenations; per-character ite for single code points."""
    if t.is_const:
        return tm.const(t.val.upper())
    if t.op == 'str.++':
        return tm.mk_concat(*[_upper_term(interp, a) for a in t.args])
    if t.op == 'str.from_code_ok':
        k = t.args[0]
        if k in interp.ctx.ghost.get('upper_codes', ()):
            return t
        u = tm.mk_ite(tm.mk_and(tm.mk_le(tm.const(97), k), tm.mk_le(k, tm.const(122))),
                      tm.mk_sub(k, tm.const(32)), k)
        if k in tm.LETTER_CODES:
            tm.LETTER_CODES.add(u)
            interp.ctx.ghost.setdefault('upper_codes', set()).add(u)
        return tm.mk_from_code1(u)
    if t.op == 'ite':
        return tm.mk_ite(t.args[0], _upper_term(interp, t.args[1]), _upper_term(interp, t.args[2]))
    if t.op == 'app' and t.val == 'dec':
        return t
    if t.op == 'app' and t.val == 'upper':
        return t
    if t.op == 'app' and t.val.startswith('udigits'):
        return t
    if t.op == 'app' and t.val == 'zeros':
        return t
    if t.op == 'app' and t.val == 'ldigits16':
        return digits_term(interp, 16, t.args[0], upper=True)
    facts = interp.ctx.ghost.get('caseless', ())
    if t in facts:
        return t
    r = tm.app('upper', (t,), tm.STR)
    if r not in interp.ctx.dec_seen:
        interp.ctx.dec_seen.add(r)
        # str.upper() is a character-wise homomorphism (no context rules, unlike lower()): it is idempotent, maps only
        # the empty string to the empty string, and neither creates nor removes the ASCII punctuation below (it may
        # change the length: 'ß' -> 'SS').  Validated over every code point by C04's stage A:upper-axioms.
        interp.ctx.axioms.append(tm.mk_eq(tm.app('upper', (r,), tm.STR), r))
        interp.ctx.axioms.append(tm.mk_eq(tm.mk_eq(r, tm.const('')), tm.mk_eq(t, tm.const(''))))
        for ch in UPPER_STABLE:
            interp.ctx.axioms.append(tm.mk_eq(tm.T('str.contains', (r, tm.const(ch)), tm.BOOL),
                                              tm.T('str.contains', (t, tm.const(ch)), tm.BOOL)))
    return r


UPPER_STABLE = "[]'!:/ "


def _lower_term(interp, t):
    if t.is_const:
        return tm.const(t.val.lower())
    if t.op == 'str.++':
        return tm.mk_concat(*[_lower_term(interp, a) for a in t.args])
    if t.op == 'str.from_code_ok':
        k = t.args[0]
        return tm.mk_from_code1(tm.mk_ite(tm.mk_and(tm.mk_le(tm.const(65), k), tm.mk_le(k, tm.const(90))),
                                          tm.mk_add(k, tm.const(32)), k))
    if t.op == 'app' and t.val == 'dec':
        return t
    raise Unsupported('lower() of a general symbolic string')


def str_method(interp, s, name, args, kwargs):
    if isinstance(s, SDec) and name in ('upper', 'lower', 'strip'):
        return s
    t = str_term(interp, s)
    if name == 'upper':
        return SStr(_upper_term(interp, t))
    if name == 'lower':
        return SStr(_lower_term(interp, t))
    if name == 'startswith' and len(args) == 1 and is_str(args[0]):
        return SBool(tm.T('str.prefixof', (str_term(interp, args[0]), t), tm.BOOL))
    if name == 'endswith' and len(args) == 1 and is_str(args[0]):
        return SBool(tm.T('str.suffixof', (str_term(interp, args[0]), t), tm.BOOL))
    if name == 'replace' and len(args) == 2:
        a, b = str_term(interp, args[0]), str_term(interp, args[1])
        r = tm.T('str.replace_all', (t, a, b), tm.STR)
        if a.is_const and b.is_const and a.val and not r.is_const and r not in interp.ctx.dec_seen:
            interp.ctx.dec_seen.add(r)
            # every character of the result comes from the subject or from the replacement text (theorem, stated to
            # spare the solver the induction)
            for ch in UPPER_STABLE:
                if ch not in b.val:
                    interp.ctx.axioms.append(tm.mk_implies(tm.T('str.contains', (r, tm.const(ch)), tm.BOOL),
                                                           tm.T('str.contains', (t, tm.const(ch)), tm.BOOL)))
        return SStr(r)
    if name == 'find' and len(args) == 2 and is_intlike(args[1]):
        # s.find(sub, start): Python clamps start like a slice bound; beyond the end nothing is found (not even '')
        n = tm.mk_len(t)
        k = int_term(args[1])
        k0 = k if (k.is_const and k.val >= 0) else tm.mk_ite(tm.mk_lt(k, tm.const(0)),
                                                               tm.mk_ite(tm.mk_lt(tm.mk_add(k, n), tm.const(0)), tm.const(0), tm.mk_add(k, n)), k)
        r = tm.T('str.indexof', (t, str_term(interp, args[0]), k0), tm.INT)
        return SInt(tm.mk_ite(tm.mk_lt(n, k0), tm.const(-1), r))
    if name == 'find' and len(args) == 1:
        a = str_term(interp, args[0])
        r = tm.T('str.indexof', (t, a, tm.const(0)), tm.INT)
        if a.is_const and len(a.val) == 1 and t.op == 'str.++':
            # first occurrence of a character in a concatenation: if no part before the first literal part holding it
            # contains it, the index is the length of those parts plus the offset in the literal (theorem)
            before, free = [], []
            for part in t.args:
                if part.is_const:
                    o = part.val.find(a.val)
                    if o >= 0:
                        pos = tm.const(o)
                        for b in before:
                            pos = tm.mk_add(pos, tm.mk_len(b))
                        if all(interp.ctx._on_path(c) for c in free):
                            return SInt(pos)
                        interp.ctx.axioms.append(tm.mk_implies(tm.mk_and(*free), tm.mk_eq(r, pos)))
                        break
                else:
                    free.append(tm.mk_not(tm.T('str.contains', (part, a), tm.BOOL)))
                before.append(part)
        return SInt(r)
    if name == 'count':
        raise Unsupported('str.count on symbolic string')
    if name == 'format':
        raise Unsupported('symbolic format string')
    if name == 'zfill' and len(args) == 1:
        return str_zfill(interp, s, args[0])
    if name == 'isdigit':
        re_ = tm.T('re', (), 'RegLan', '(re.+ (re.range "0" "9"))')
        return SBool(tm.T('str.in_re', (t, re_), tm.BOOL))
    if name == 'join':
        items = interp.iterate(args[0])
        out = []
        for k, x in enumerate(items):
            if k:
                out.append(s)
            out.append(x)
        return str_concat(interp, out)
    if name == 'strip' and not args:
        return str_strip(interp, t)
    if name == 'capitalize' or name == 'strip' or name == 'split':
        raise Unsupported('str.%s on symbolic string' % name)
    raise Unsupported('str method %s' % name)


_WS_CHARS = [c for c in range(0x110000) if chr(c).isspace()]          # exactly what str.strip() removes


def _ws_class():
    return '(re.union %s)' % ' '.join('(str.to_re %s)' % tm.smt_str(chr(c)) for c in _WS_CHARS)


def str_strip(interp, t):
    """s.strip(): s = a ++ r ++ b with a, b whitespace only and r neither starting nor ending with whitespace
    (r, a, b fresh; the decomposition is unique)."""
    if t.is_const:
        return t.val.strip()
    ctx = interp.ctx
    r, a, b = ctx.fresh('strip', tm.STR), ctx.fresh('strip_l', tm.STR), ctx.fresh('strip_r', tm.STR)
    ws = _ws_class()
    wsstar = tm.T('re', (), 'RegLan', tm.register_re('(re.* %s)' % ws, r'\s*'))
    core = tm.T('re', (), 'RegLan', tm.register_re(
        '(re.union (str.to_re "") (re.diff re.allchar %s) (re.++ (re.diff re.allchar %s) re.all (re.diff re.allchar %s)))' % (ws, ws, ws),
        r'(?s:|\S|\S.*\S)'))
    ctx.assume(tm.mk_eq(t, tm.mk_concat(a, r, b)))
    ctx.assume(tm.T('str.in_re', (a, wsstar), tm.BOOL))
    ctx.assume(tm.T('str.in_re', (b, wsstar), tm.BOOL))
    ctx.assume(tm.T('str.in_re', (r, core), tm.BOOL))
    return SStr(r)


def symseq_method(interp, o, name, args, kwargs):
    if name == 'append' and o.mutable:
        o.arr = tm.mk_store(o.arr, o.len, o.unwrap(args[0]))
        o.len = tm.mk_add(o.len, tm.const(1))
        return None
    if name == 'pop' and o.mutable and not args:
        if interp.ctx.branch(tm.mk_lt(tm.const(0), o.len)):
            o.len = tm.mk_sub(o.len, tm.const(1))
            return o.wrap(tm.mk_select(o.arr, o.len))
        interp.raise_(IndexError, 'pop from empty list')
    if name == 'copy':
        return SymSeq(o.arr, o.len, o.wrap, o.esort, o.mutable, o.unwrap)
    raise Unsupported('method %s of symbolic sequence' % name)


# ----------------------------------------------------------------------------------
# builtins

BUILTINS = {}


def builtin(*fs):
    def deco(g):
        for f in fs:
            BUILTINS[f] = g
        return g
    return deco


@builtin(len)
def _len(interp, v):
    if isinstance(v, (SStr, SDec, SErr)):
        return SInt(tm.mk_len(str_term(interp, v)))
    if isinstance(v, SymSeq):
        return SInt(v.len)
    if isinstance(v, Obj):
        from .interp import interpretable, closure_of
        m = interp._class_lookup(v.cls, '__len__')
        if m is not None and interpretable(m):
            return interp.call(closure_of(m), [v], {})
        interp.raise_(TypeError, 'object has no len()')
    if is_sym(v) or v is None:
        interp.raise_(TypeError, 'object has no len()')
    try:
        return len(v)
    except Exception as ex:
        interp.raise_(type(ex), *ex.args)


@builtin(int)
def _int(interp, v=0, base=None):
    if base is not None:
        return int_with_base(interp, v, base)
    return to_int(interp, v)


@builtin(float)
def _float(interp, v=0.0):
    return to_float(interp, v)


@builtin(str)
def _str(interp, v=''):
    return py_str(interp, v)


@builtin(bool)
def _bool(interp, v=False):
    from .interp import truth_term
    if isinstance(v, (dict, list, tuple, set)):
        return len(v) > 0
    if isinstance(v, Obj):
        return interp.truth(v)
    t = truth_term(v)
    return t.val if t.is_const else SBool(t)


@builtin(abs)
def _abs(interp, v):
    if isinstance(v, (SInt, SBool)):
        return SInt(tm.mk_abs(int_term(v)))
    if isinstance(v, SReal):
        return SReal(tm.mk_abs(v.t))
    if is_sym(v):
        interp.raise_(TypeError, 'bad operand type for abs()')
    try:
        return abs(v)
    except Exception as ex:
        interp.raise_(type(ex), *ex.args)


def _minmax(interp, args, kwargs, is_max):
    key = kwargs.get('key')
    if 'default' in kwargs and len(args) == 1:
        items = interp.iterate(args[0])
        if not items:
            return kwargs['default']
    elif len(args) == 1:
        items = interp.iterate(args[0])
        if not items:
            interp.raise_(ValueError, 'arg is an empty sequence')
    else:
        items = list(args)
    best = items[0]
    bk = interp.call(key, [best], {}) if key else best
    for x in items[1:]:
        xk = interp.call(key, [x], {}) if key else x
        c = compare(interp, '>' if is_max else '<', xk, bk)
        if all(isinstance(z, (SInt, int)) and not isinstance(z, bool) for z in (x, best)) and not key:
            ct = c.t if isinstance(c, SBool) else tm.const(c)
            best = _wrap_int(tm.mk_ite(ct, int_term(x), int_term(best)))
            bk = best
        elif c is True or (c is not False and interp.truth(c)):
            best, bk = x, xk
    return best


def _wrap_int(t):
    return t.val if t.is_const else SInt(t)


@builtin(max)
def _max(interp, *args, **kwargs):
    return _minmax(interp, args, kwargs, True)


@builtin(min)
def _min(interp, *args, **kwargs):
    return _minmax(interp, args, kwargs, False)


@builtin(sum)
def _sum(interp, it, start=0):
    acc = start
    for x in interp.iterate(it):
        acc = binop(interp, 'Add', acc, x)
    return acc


@builtin(isinstance)
def _isinstance(interp, v, cls):
    classes = cls if isinstance(cls, tuple) else (cls,)
    if isinstance(v, Obj):
        return any(isinstance(c, type) and issubclass(v.cls, c) for c in classes)
    if isinstance(v, Sym):
        pt = type(v).pytype
        return any(isinstance(c, type) and issubclass(pt, c) for c in classes)
    if isinstance(v, SymSeq):
        pt = list if v.mutable else tuple
        return any(isinstance(c, type) and issubclass(pt, c) for c in classes)
    from .interp import Closure
    if isinstance(v, Closure):
        return any(c in (types.FunctionType, object) for c in classes)
    tn = type(v).__name__
    if tn == 'OpaqueVal':
        if all(c in (object,) for c in classes):
            return True
        kinds = getattr(v, 'not_instance_of', ())
        if all(any(c is k or issubclass(c, k) for k in kinds) for c in classes if isinstance(c, type)):
            return False
        raise Unsupported('isinstance of an opaque value against %r' % (cls,))
    if tn == 'ArrVal':
        import numpy as np
        return any(isinstance(c, type) and issubclass(np.ndarray, c) for c in classes)
    return isinstance(v, cls)


@builtin(issubclass)
def _issubclass(interp, a, b):
    return issubclass(a, b)


@builtin(type)
def _type(interp, v, *rest):
    if rest:
        raise Unsupported('3-arg type()')
    if isinstance(v, Obj):
        return v.cls
    if isinstance(v, Sym):
        return type(v).pytype
    return type(v)


@builtin(callable)
def _callable(interp, v):
    from .interp import Closure, BoundMethod
    return isinstance(v, (Closure, BoundMethod)) or callable(v)


@builtin(tuple)
def _tuple(interp, v=()):
    if isinstance(v, SymSeq):
        return SymSeq(v.arr, v.len, v.wrap, v.esort, False, v.unwrap)
    return tuple(interp.iterate(v))


@builtin(list)
def _list(interp, v=()):
    if isinstance(v, SymSeq):
        return SymSeq(v.arr, v.len, v.wrap, v.esort, True, v.unwrap)
    return list(interp.iterate(v))


@builtin(dict)
def _dict(interp, *args, **kwargs):
    d = {}
    if args:
        a = args[0]
        if isinstance(a, dict):
            d.update(a)
        else:
            for kv in interp.iterate(a):
                k, v = interp.iterate(kv)
                if is_sym(k):
                    raise Unsupported('symbolic dict key')
                d[k] = v
    d.update(kwargs)
    return d


@builtin(set)
def _set(interp, v=()):
    items = interp.iterate(v)
    if any(is_sym(x) for x in items):
        raise Unsupported('set of symbolic values')
    return set(items)


@builtin(frozenset)
def _frozenset(interp, v=()):
    return frozenset(_set(interp, v))


@builtin(range)
def _range(interp, *args):
    if all(isinstance(a, int) for a in args):
        return range(*args)
    hook = interp.hooks.get('range')
    if hook:
        return hook(interp, *args)
    raise Unsupported('range with symbolic bounds')


@builtin(zip)
def _zip(interp, *its):
    ls = [interp.iterate(i) for i in its]
    return [tuple(x) for x in zip(*ls)]


@builtin(itertools.zip_longest)
def _zip_longest(interp, *its, fillvalue=None):
    ls = [interp.iterate(i) for i in its]
    return [tuple(x) for x in itertools.zip_longest(*ls, fillvalue=fillvalue)]


@builtin(enumerate)
def _enumerate(interp, it, start=0):
    return [(i + start, x) for i, x in enumerate(interp.iterate(it))]


@builtin(reversed)
def _reversed(interp, it):
    return list(reversed(interp.iterate(it)))


@builtin(map)
def _map(interp, f, *its):
    ls = [interp.iterate(i) for i in its]
    return [interp.call(f, list(xs), {}) for xs in zip(*ls)]


@builtin(filter)
def _filter(interp, f, it):
    out = []
    for x in interp.iterate(it):
        v = x if f is None else interp.call(f, [x], {})
        if interp.truth(v):
            out.append(x)
    return out


@builtin(any)
def _any(interp, it):
    items = interp.iterate(it)
    if getattr(interp.ctx, 'spec_mode', None) is not None and all(isinstance(x, (bool, SBool)) for x in items):
        t = tm.mk_or(*[_bool_t(x) for x in items])
        return t.val if t.is_const else SBool(t)
    for x in items:
        if interp.truth(x):
            return True
    return False


@builtin(all)
def _all(interp, it):
    items = interp.iterate(it)
    if getattr(interp.ctx, 'spec_mode', None) is not None and all(isinstance(x, (bool, SBool)) for x in items):
        t = tm.mk_and(*[_bool_t(x) for x in items])
        return t.val if t.is_const else SBool(t)
    for x in items:
        if not interp.truth(x):
            return False
    return True


@builtin(next)
def _next(interp, it, *default):
    if isinstance(it, list):
        if it:
            return it.pop(0)
        if default:
            return default[0]
        interp.raise_(StopIteration)
    raise Unsupported('next() on %r' % (it,))


@builtin(iter)
def _iter(interp, it):
    return list(interp.iterate(it))


@builtin(sorted)
def _sorted(interp, it, key=None, reverse=False):
    items = interp.iterate(it)
    if len(items) <= 1:
        return list(items)
    keys = [interp.call(key, [x], {}) if key else x for x in items]
    if all(is_concrete(k) for k in keys):
        idx = sorted(range(len(items)), key=lambda i: keys[i], reverse=reverse)
        return [items[i] for i in idx]
    if len(items) > 4:
        raise Unsupported('sorted of >4 symbolic items')
    # insertion sort with forking comparisons (stable)
    out = []
    for x, k in zip(items, keys):
        pos = len(out)
        while pos > 0:
            c = compare(interp, '<' if not reverse else '>', k, out[pos - 1][1])
            if c is True or (c is not False and interp.truth(c)):
                pos -= 1
            else:
                break
        out.insert(pos, (x, k))
    return [x for x, _ in out]


@builtin(ord)
def _ord(interp, c):
    if isinstance(c, SStr):
        if interp.ctx.branch(tm.mk_eq(tm.mk_len(c.t), tm.const(1))):
            if c.t.op == 'str.from_code_ok':
                return SInt(c.t.args[0])
            return SInt(tm.T('str.to_code', (c.t,), tm.INT))
        interp.raise_(TypeError, 'ord() expected a character')
    try:
        return ord(c)
    except Exception as ex:
        interp.raise_(type(ex), *ex.args)


@builtin(chr)
def _chr(interp, k):
    if isinstance(k, (SInt, SBool)):
        t = int_term(k)
        if interp.ctx.branch(tm.mk_and(tm.mk_le(tm.const(0), t), tm.mk_lt(t, tm.const(0x110000)))):
            if not interp.ctx.branch(tm.mk_lt(t, tm.const(0x30000))):
                raise Unsupported('chr beyond SMT-LIB code range')
            return SStr(tm.mk_from_code1(t))
        interp.raise_(ValueError, 'chr() arg not in range(0x110000)')
    try:
        return chr(k)
    except Exception as ex:
        interp.raise_(type(ex), *ex.args)


@builtin(divmod)
def _divmod(interp, a, b):
    return (binop(interp, 'FloorDiv', a, b), binop(interp, 'Mod', a, b))


@builtin(round)
def _round(interp, v, nd=None):
    if is_concrete(v) and is_concrete(nd):
        return round(v, nd) if nd is not None else round(v)
    raise Unsupported('round on symbolic')


@builtin(slice)
def _slice(interp, *args):
    return slice(*args)


@builtin(super)
def _super(interp, cls, obj):
    from .interp import SuperProxy
    return SuperProxy(cls, obj)


@builtin(getattr)
def _getattr(interp, o, name, *default):
    from .interp import PyRaise
    if is_sym(name):
        raise Unsupported('getattr with symbolic name')
    try:
        return interp.getattr(o, name)
    except PyRaise as ex:
        if default and issubclass(ex.exc.cls, AttributeError):
            return default[0]
        raise


@builtin(hasattr)
def _hasattr(interp, o, name):
    from .interp import PyRaise
    try:
        interp.getattr(o, name)
        return True
    except PyRaise as ex:
        if issubclass(ex.exc.cls, AttributeError):
            return False
        raise


@builtin(setattr)
def _setattr(interp, o, name, v):
    interp.setattr(o, name, v)


@builtin(id)
def _id(interp, o):
    return id(o)


@builtin(math.floor)
def _floor(interp, v):
    if isinstance(v, SReal):
        return SInt(tm.mk_floor(v.t))
    if isinstance(v, (SInt, SBool)):
        return SInt(int_term(v))
    return math.floor(v)


@builtin(math.ceil)
def _ceil(interp, v):
    if isinstance(v, SReal):
        return SInt(tm.mk_neg(tm.mk_floor(tm.mk_neg(v.t))))
    if isinstance(v, (SInt, SBool)):
        return SInt(int_term(v))
    return math.ceil(v)


@builtin(math.trunc)
def _trunc(interp, v):
    if isinstance(v, SReal):
        return to_int(interp, v)
    if isinstance(v, (SInt, SBool)):
        return SInt(int_term(v))
    return math.trunc(v)


@builtin(functools.partial)
def _partial(interp, f, *args, **kwargs):
    return functools.partial(f, *args, **kwargs)


@builtin(functools.update_wrapper)
def _update_wrapper(interp, wrapper, wrapped, *a, **k):
    return wrapper


@builtin(print)
def _print(interp, *a, **k):
    return None


# ----------------------------------------------------------------------------------
# digit strings: bin / oct / hex / int(s, base) / zfill  (CPython behaviour axiomatised;
# every axiom below is sampled against the interpreter by the C20 bounded stage)

_DIGIT_CLASS = {2: '(re.range "0" "1")', 8: '(re.range "0" "7")',
                16: '(re.union (re.range "0" "9") (re.range "A" "F"))',
                10: '(re.range "0" "9")'}
_DIGIT_CLASS_ANYCASE = {2: _DIGIT_CLASS[2], 8: _DIGIT_CLASS[8], 10: _DIGIT_CLASS[10],
                        16: '(re.union (re.range "0" "9") (re.range "A" "F") (re.range "a" "f"))'}
_PREFIX = {2: ('0b', '0B'), 8: ('0o', '0O'), 16: ('0x', '0X')}
_WS = '(re.union (str.to_re " ") (str.to_re "\\u{9}") (str.to_re "\\u{a}") (str.to_re "\\u{b}") (str.to_re "\\u{c}") (str.to_re "\\u{d}"))'


_PY_DIGITS = {2: '[01]', 8: '[0-7]', 10: '[0-9]', 16: '[0-9A-F]'}
_PY_DIGITS_ANY = {2: '[01]', 8: '[0-7]', 10: '[0-9]', 16: '[0-9A-Fa-f]'}
for _b in (2, 8, 10, 16):
    tm.register_re('(re.+ %s)' % _DIGIT_CLASS[_b], _PY_DIGITS[_b] + '+')
    tm.register_re('(re.+ %s)' % _DIGIT_CLASS_ANYCASE[_b], _PY_DIGITS_ANY[_b] + '+')
tm.register_re('(re.* (str.to_re "0"))', '0*')
tm.register_re('(re.+ (re.range "0" "9"))', '[0-9]+')


def py_int_literal_re(base):
    """SMT regex of the ASCII strings CPython's int(s, base) accepts (base 2, 8, 10, 16)."""
    d = _DIGIT_CLASS_ANYCASE[base]
    body = '(re.++ (re.+ %s) (re.* (re.++ (str.to_re "_") (re.+ %s))))' % (d, d)
    if base in _PREFIX:
        p = '(re.opt (re.++ (re.union (str.to_re "%s") (str.to_re "%s")) (re.opt (str.to_re "_"))))' % _PREFIX[base]
    else:
        p = '(str.to_re "")'
    r = ('(re.++ (re.* %s) (re.opt (re.union (str.to_re "+") (str.to_re "-"))) %s %s (re.* %s))'
         % (_WS, p, body, _WS))
    d_ = _PY_DIGITS_ANY[base]
    pre = ('(0[%s%s]_?)?' % _PREFIX[base][0][1] + _PREFIX[base][1][1]) if False else (
        '(0[%s%s]_?)?' % (_PREFIX[base][0][1], _PREFIX[base][1][1]) if base in _PREFIX else '')
    tm.register_re(r, r'[ \t\n\x0b\x0c\r]*[+-]?%s%s+(_%s+)*[ \t\n\x0b\x0c\r]*' % (pre, d_, d_))
    return r


def digits_term(interp, base, n, upper=True):
    """Canonical digit string of n >= 0 in `base` (no prefix, no leading zeros)."""
    name = ('udigits%d' if upper or base <= 10 else 'ldigits%d') % base
    if n.is_const:
        s = {2: bin, 8: oct, 16: hex}[base](n.val)[2:]
        return tm.const(s.upper() if upper else s)
    t = tm.app(name, (n,), tm.STR)
    ctx = interp.ctx
    if t not in ctx.dec_seen:
        ctx.dec_seen.add(t)
        ctx.ghost.setdefault('assumptions', set()).add(
            'CPython bin/oct/hex/int(s,base): canonical digit strings, int(render_b(n), b) == n, len(render_b(n)) <= k <=> n < b**k')
        ut = tm.app('udigits%d' % base, (n,), tm.STR)
        ax = ctx.axioms
        ax.append(tm.mk_le(tm.const(1), tm.mk_len(t)))
        for k in range(1, 13):
            ax.append(tm.mk_eq(tm.mk_le(tm.mk_len(t), tm.const(k)), tm.mk_lt(n, tm.const(base ** k))))
        ax.append(tm.mk_eq(tm.app('parse%d' % base, (t,), tm.INT), n))
        ax.append(tm.T('str.in_re', (t, tm.T('re', (), 'RegLan', '(re.+ %s)' % (_DIGIT_CLASS if upper or base <= 10 else _DIGIT_CLASS_ANYCASE)[base])), tm.BOOL))
        ax.append(tm.mk_implies(tm.mk_lt(tm.const(0), n), tm.mk_not(tm.T('str.prefixof', (tm.const('0'), t), tm.BOOL))))
        ax.append(tm.mk_eq(tm.mk_eq(t, tm.const('0')), tm.mk_eq(n, tm.const(0))))
        ax.append(tm.mk_eq(tm.mk_eq(t, tm.const('1')), tm.mk_eq(n, tm.const(1))))
    return t


def _render_builtin(base):
    def f(interp, v):
        if isinstance(v, (SInt, SBool)):
            n = int_term(v)
            pre = _PREFIX[base][0]
            if interp.ctx.branch(tm.mk_le(tm.const(0), n)):
                return SStr(tm.mk_concat(tm.const(pre), digits_term(interp, base, n, upper=False)))
            return SStr(tm.mk_concat(tm.const('-' + pre), digits_term(interp, base, tm.mk_neg(n), upper=False)))
        if is_sym(v):
            interp.raise_(TypeError, 'object cannot be interpreted as an integer')
        try:
            return {2: bin, 8: oct, 16: hex}[base](v)
        except Exception as ex:
            interp.raise_(type(ex), *ex.args)
    return f


BUILTINS[bin] = _render_builtin(2)
BUILTINS[oct] = _render_builtin(8)
BUILTINS[hex] = _render_builtin(16)


def int_with_base(interp, v, base):
    if is_sym(base):
        raise Unsupported('symbolic base')
    if isinstance(v, (SStr, SDec, SErr)):
        if base not in (2, 8, 10, 16):
            raise Unsupported('int(s, %r)' % base)
        t = str_term(interp, v)
        ctx = interp.ctx
        ctx.ghost.setdefault('assumptions', set()).add(
            'CPython int(s, base) accepts exactly optional blanks/sign/prefix/underscore-separated digits (ASCII inputs)')
        valid = tm.T('str.in_re', (t, tm.T('re', (), 'RegLan', py_int_literal_re(base))), tm.BOOL)
        if ctx.branch(valid):
            r = tm.app('parse%d' % base, (t,), tm.INT)
            # value bounds on plain digit strings (no sign/prefix/underscore/blank)
            plain = tm.T('str.in_re', (t, tm.T('re', (), 'RegLan', '(re.+ %s)' % _DIGIT_CLASS_ANYCASE[base])), tm.BOOL)
            key = ('parse-bounds', r)
            if key not in ctx.dec_seen:
                ctx.dec_seen.add(key)
                ctx.axioms.append(tm.mk_implies(plain, tm.mk_le(tm.const(0), r)))
                for k in range(1, 13):
                    ctx.axioms.append(tm.mk_implies(tm.mk_and(plain, tm.mk_le(tm.mk_len(t), tm.const(k))),
                                                    tm.mk_lt(r, tm.const(base ** k))))
            return SInt(r)
        interp.raise_(ValueError, 'invalid literal for int() with base %d' % base)
    if is_sym(v):
        interp.raise_(TypeError, "int() can't convert non-string with explicit base")
    try:
        return int(v, base)
    except Exception as ex:
        interp.raise_(type(ex), *ex.args)


def str_zfill(interp, s, k):
    t = str_term(interp, s)
    kt = int_term(k)
    n = tm.mk_len(t)
    pad = tm.mk_sub(kt, n)
    z = tm.app('zeros', (pad,), tm.STR)
    ctx = interp.ctx
    if z not in ctx.dec_seen:
        ctx.dec_seen.add(z)
        ctx.axioms.append(tm.mk_implies(tm.mk_le(tm.const(0), pad), tm.mk_eq(tm.mk_len(z), pad)))
        ctx.axioms.append(tm.T('str.in_re', (z, tm.T('re', (), 'RegLan', '(re.* (str.to_re "0"))')), tm.BOOL))
        ctx.ghost.setdefault('assumptions', set()).add('str.zfill on unsigned digit strings: left padding with "0"')
    return SStr(tm.mk_ite(tm.mk_le(kt, n), t, tm.mk_concat(z, t)))


def _f(x):
    return float(x)


def _fr(v):
    return Fraction(v) if math.isfinite(v) else Fraction(0)


def _ovf(op):
    def g(x, y):
        try:
            return not math.isfinite(op(_f(x), _f(y)))
        except OverflowError:
            return True
        except ZeroDivisionError:
            return False
    return g


def _rop(op):
    def g(x, y):
        try:
            r = op(_f(x), _f(y))
        except (OverflowError, ZeroDivisionError):
            return Fraction(0)
        if isinstance(r, complex):
            return Fraction(0)
        return _fr(r)
    return g


REAL_FUNS_EXTRA = {
    'rev': lambda s: s[::-1],
    'fadd': _rop(_op.add), 'fsub': _rop(_op.sub), 'fmul': _rop(_op.mul), 'fdiv': _rop(_op.truediv),
    'fpow': _rop(_op.pow),
    'fadd_overflows': _ovf(_op.add), 'fsub_overflows': _ovf(_op.sub), 'fmul_overflows': _ovf(_op.mul),
    'fdiv_overflows': _ovf(_op.truediv), 'pow_overflows': _ovf(_op.pow),
    'float_of': lambda s: _fr(float(s)),
    'udigits2': lambda n: bin(n)[2:], 'udigits8': lambda n: oct(n)[2:], 'udigits16': lambda n: hex(n)[2:].upper(),
    'ldigits16': lambda n: hex(n)[2:], 'zeros': lambda k: '0' * max(k, 0),
    'parse2': lambda s: int(s, 2), 'parse8': lambda s: int(s, 8), 'parse16': lambda s: int(s, 16),
    'parse10': lambda s: int(s, 10),
}


# ----------------------------------------------------------------------------------
# opaque float arithmetic (C02 / C11): results are uninterpreted functions of the operands; only
# the exception / result-type behaviour of CPython floats is axiomatised:
#   x / 0.0 raises ZeroDivisionError;  0.0 ** negative raises ZeroDivisionError;
#   negative ** non-integer is a complex;  ** may raise OverflowError;  + - * / may overflow to inf

_FNAME = {'+': 'fadd', '-': 'fsub', '*': 'fmul', '/': 'fdiv', '**': 'fpow', '//': 'ffloordiv', '%': 'fmod'}


def fin_term(v):
    if isinstance(v, SReal) and v.fin is not None:
        return v.fin
    return tm.TRUE


def float_op(interp, op, a, b):
    ctx = interp.ctx
    ctx.ghost.setdefault('assumptions', set()).add(
        'float arithmetic opaque: results of + - * / ** are uninterpreted; CPython exception/result-type behaviour axiomatised')
    x, y = real_term(a), real_term(b)
    zero = tm.const(Fraction(0))
    both = tm.mk_and(fin_term(a), fin_term(b))
    if not (both.is_const and both.val) and not ctx.branch(both):
        # an operand is inf / nan: no CPython exception except division by an exact zero; the result and
        # its finiteness are left uninterpreted (e.g. 1.0 ** nan == 1.0, x / inf == 0.0)
        if op in ('/', '//', '%') and ctx.branch(tm.mk_and(fin_term(b), tm.mk_eq(y, zero))):
            interp.raise_(ZeroDivisionError, 'float division by zero')
        nm = _FNAME[op] + '_nonfinite'
        return SReal(tm.app(nm, (x, y), tm.REAL), tm.app(nm + '_isfinite', (x, y), tm.BOOL))
    if op in ('/', '//', '%'):
        if ctx.branch(tm.mk_eq(y, zero)):
            interp.raise_(ZeroDivisionError, 'float division by zero')
    if op == '**':
        if ctx.branch(tm.mk_and(tm.mk_eq(x, zero), tm.mk_lt(y, zero))):
            interp.raise_(ZeroDivisionError, '0.0 cannot be raised to a negative power')
        if ctx.branch(tm.mk_and(tm.mk_lt(x, zero), tm.mk_not(tm.mk_is_int(y)))):
            return SComplex(tm.app('cpow', (x, y), 'Cx'))
        if ctx.branch(tm.app('pow_overflows', (x, y), tm.BOOL)):
            interp.raise_(OverflowError, '(34, Numerical result out of range)')
        r = tm.app('fpow', (x, y), tm.REAL)
        key = ('fpow', r)
        if key not in ctx.dec_seen:
            ctx.dec_seen.add(key)
            ctx.axioms.append(tm.mk_implies(tm.mk_eq(y, zero), tm.mk_eq(r, tm.const(Fraction(1)))))      # x ** 0 == 1.0
            ctx.axioms.append(tm.mk_implies(tm.mk_and(tm.mk_eq(x, zero), tm.mk_lt(zero, y)), tm.mk_eq(r, zero)))
        return SReal(r, tm.mk_and(fin_term(a), fin_term(b)))
    name = _FNAME[op]
    r = tm.app(name, (x, y), tm.REAL)
    fin = tm.mk_and(fin_term(a), fin_term(b), tm.mk_not(tm.app(name + '_overflows', (x, y), tm.BOOL)))
    return SReal(r, fin)


_PLAIN_NUM = r'[ \t\n\x0b\x0c\r]*[+-]?([0-9]+\.?[0-9]*|\.[0-9]+)([eE][+-]?[0-9]+)?[ \t\n\x0b\x0c\r]*'
_PY_FLOAT = (r'[ \t\n\x0b\x0c\r]*[+-]?((([0-9]+(_[0-9]+)*)\.?([0-9]+(_[0-9]+)*)?|\.[0-9]+(_[0-9]+)*)([eE][+-]?[0-9]+(_[0-9]+)*)?'
             r'|[iI][nN][fF]([iI][nN][iI][tT][yY])?|[nN][aA][nN])[ \t\n\x0b\x0c\r]*')
_PY_FLOAT_NONFINITE = r'[ \t\n\x0b\x0c\r]*[+-]?([iI][nN][fF]([iI][nN][iI][tT][yY])?|[nN][aA][nN])[ \t\n\x0b\x0c\r]*'


def float_of_text(interp, v):
    """float(text) for ASCII text: acceptance = CPython's float literal grammar (assumption validated by
    sampling); the value is an uninterpreted function of the text."""
    from .regex2smt import regex_to_smt
    ctx = interp.ctx
    t = str_term(interp, v)
    ctx.ghost.setdefault('assumptions', set()).add(
        'CPython float(text) accepts exactly the ASCII float-literal grammar (digits with single underscores, inf/nan); value uninterpreted')
    ok = tm.T('str.in_re', (t, tm.T('re', (), 'RegLan', regex_to_smt(_PY_FLOAT))), tm.BOOL)
    if ctx.branch(ok):
        nonfin = tm.T('str.in_re', (t, tm.T('re', (), 'RegLan', regex_to_smt(_PY_FLOAT_NONFINITE))), tm.BOOL)
        return SReal(tm.app('float_of', (t,), tm.REAL), tm.mk_not(nonfin))
    interp.raise_(ValueError, 'could not convert string to float')


def _isfinite(interp, v, *a, **k):
    if isinstance(v, SReal):
        t = fin_term(v)
        return t.val if t.is_const else SBool(t)
    if isinstance(v, SBool):
        return True
    if isinstance(v, SInt):
        # numpy converts a Python int to int64 / uint64; beyond that it becomes an object array, which the ufunc rejects
        if interp.ctx.branch(tm.mk_and(tm.mk_le(tm.const(-2 ** 63), v.t), tm.mk_lt(v.t, tm.const(2 ** 64)))):
            return True
        interp.raise_(TypeError, "ufunc 'isfinite' not supported for the input types")
    if isinstance(v, SComplex):
        t = tm.app('complex_isfinite', (v.t,), tm.BOOL)
        return SBool(t)
    if isinstance(v, (SStr, SDec, SErr)) or v is None:
        interp.raise_(TypeError, "ufunc 'isfinite' not supported for the input types")
    if is_sym(v):
        raise Unsupported('isfinite of %r' % (v,))
    import numpy as np
    try:
        return bool(np.isfinite(v))
    except Exception as ex:
        interp.raise_(type(ex), *ex.args)


def _math_isfinite(interp, v, *a, **k):
    """math.isfinite: the argument is converted with float(); an int beyond the float range raises OverflowError, text and
    None raise TypeError, a complex number raises TypeError."""
    if isinstance(v, SInt):
        lim = tm.const(2 ** 1024 - 2 ** 970)      # the first magnitude that float() rounds to overflow
        if interp.ctx.branch(tm.mk_and(tm.mk_lt(tm.mk_neg(lim), v.t), tm.mk_lt(v.t, lim))):
            return True
        interp.raise_(OverflowError, 'int too large to convert to float')
    if isinstance(v, (SReal, SBool)):
        return _isfinite(interp, v)
    if isinstance(v, (SStr, SDec, SErr, SComplex)) or v is None:
        interp.raise_(TypeError, 'must be real number')
    if is_sym(v):
        raise Unsupported('math.isfinite of %r' % (v,))
    try:
        return math.isfinite(v)
    except Exception as ex:
        interp.raise_(type(ex), *ex.args)


def _register_numpy():
    import numpy as np
    from .values import ArrVal

    def _asarray(interp, v, dtype=None, *a, **k):
        if is_concrete(v):
            try:
                return np.asarray(v, dtype)
            except Exception as ex:
                interp.raise_(type(ex), *ex.args)
        if dtype is object and isinstance(v, list) and all(isinstance(r, list) for r in v):
            return ArrVal([list(r) for r in v])
        if dtype is object and (isinstance(v, (Sym, Obj)) or type(v).__name__ in ('OpaqueVal', 'MatchVal')):
            out = np.empty((), object)          # a scalar becomes a 0-d object array holding it
            out[()] = v
            return out
        if is_sym_array(v) and dtype in (None, object):
            return v
        raise Unsupported('np.asarray of %r' % (v,))
    BUILTINS[np.asarray] = _asarray

    def _structural(f):
        # numpy functions that only rearrange / measure an array (they never look at object elements): run natively on
        # arrays that hold symbolic elements, provided every other argument is concrete
        def g(interp, *a, **k):
            if not all(is_concrete(x) or is_sym_array(x) for x in list(a) + list(k.values())):
                raise Unsupported('%s with symbolic non-array arguments' % f.__name__)
            try:
                return f(*a, **k)
            except Exception as ex:
                interp.raise_(type(ex), *ex.args)
        return g
    for _f in (np.resize, np.reshape, np.ravel, np.tile, np.transpose, np.shape, np.ndim, np.size, np.broadcast_to, np.atleast_2d):
        BUILTINS[_f] = _structural(_f)

    def _rand(interp, *a):
        if a:
            raise Unsupported('np.random.rand with a shape')
        r = interp.ctx.fresh('rand', tm.REAL)
        interp.ctx.assume(tm.mk_le(tm.const(Fraction(0)), r))
        interp.ctx.assume(tm.mk_lt(r, tm.const(Fraction(1))))
        interp.ctx.ghost.setdefault('assumptions', set()).add('0 <= np.random.rand() < 1')
        return SReal(r)
    BUILTINS[np.random.rand] = _rand
    BUILTINS[np.isfinite] = _isfinite
    BUILTINS[math.isfinite] = _math_isfinite

    def _np_power(interp, x, y):
        """np.power on python floats: like ** but never raises: nan for negative ** non-integer,
        inf on overflow and for 0 ** negative."""
        if not (is_num(x) and is_num(y)):
            raise Unsupported('np.power on %r, %r' % (x, y))
        if not (is_sym(x) or is_sym(y)):
            return np.power(x, y)
        a, b = real_term(x), real_term(y)
        zero = tm.const(Fraction(0))
        r = tm.app('fpow', (a, b), tm.REAL)
        bad = tm.mk_or(tm.mk_and(tm.mk_lt(a, zero), tm.mk_not(tm.mk_is_int(b))),
                       tm.mk_and(tm.mk_eq(a, zero), tm.mk_lt(b, zero)),
                       tm.app('pow_overflows', (a, b), tm.BOOL))
        key = ('fpow', r)
        if key not in interp.ctx.dec_seen:
            interp.ctx.dec_seen.add(key)
            interp.ctx.axioms.append(tm.mk_implies(tm.mk_eq(b, zero), tm.mk_eq(r, tm.const(Fraction(1)))))
            interp.ctx.axioms.append(tm.mk_implies(tm.mk_and(tm.mk_eq(a, zero), tm.mk_lt(zero, b)), tm.mk_eq(r, zero)))
        interp.ctx.ghost.setdefault('assumptions', set()).add('np.power(float, float): nan/inf exactly where float ** raises or is complex')
        return SReal(r, tm.mk_and(fin_term(x), fin_term(y), tm.mk_not(bad)))
    BUILTINS[np.power] = _np_power

    def _np_mod(interp, x, y):
        if not (is_sym(x) or is_sym(y)):
            return np.mod(x, y)
        if interp.float_mode != 'real':
            raise Unsupported('np.mod outside real mode')
        if isinstance(x, (SInt, int)) and isinstance(y, (SInt, int)) and not isinstance(x, bool) and not isinstance(y, bool):
            return binop(interp, 'Mod', x, y)
        a, b = real_term(x), real_term(y)
        if interp.ctx.branch(tm.mk_eq(b, tm.const(Fraction(0)))):
            raise Unsupported('np.mod by zero (nan)')
        q = tm.mk_to_real(tm.mk_floor(tm.mk_rdiv(a, b)))
        return SReal(tm.mk_sub(a, tm.mk_mul(b, q)))
    BUILTINS[np.mod] = _np_mod


_register_numpy()
