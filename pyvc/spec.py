"""Specification primitives usable in sidecar contracts.  Each has a native implementation
(used when a contract is evaluated on concrete values: replay, bounded stages) and a symbolic
one (attribute __pyvc_spec__, used by the interpreter)."""
import itertools
from . import terms as tm
from .values import SInt, SBool, SpecError, Unsupported


def _sym(f):
    def deco(g):
        f.__pyvc_spec__ = g
        return f
    return deco


# ---------------------------------------------------------------------------------------
def forall_cells(pred, rects):
    """forall (c, r) in Z x Z: pred(c, r).  Natively the predicate is evaluated on the
    window spanned by the corner coordinates (+-1) of `rects`, which is exact for boolean
    combinations of rectangle-membership tests of those rectangles."""
    cs, rs = {0, 1}, {0, 1}
    for x in rects:
        if not x:
            continue
        for k in ('n1', 'n2'):
            if k in x:
                cs.update((int(x[k]) - 1, int(x[k]), int(x[k]) + 1))
        for k in ('r1', 'r2'):
            if k in x:
                rs.update((int(x[k]) - 1, int(x[k]), int(x[k]) + 1))
    return all(pred(c, r) for c in sorted(cs) for r in sorted(rs))


@_sym(forall_cells)
def _forall_cells(interp, pred, rects):
    return _quant(interp, pred, 2, ('c', 'r'))


def forall_int(pred, candidates=()):
    """forall i in Z: pred(i); natively over `candidates` (+-1)."""
    s = set()
    for k in candidates:
        s.update((k - 1, k, k + 1))
    return all(pred(i) for i in sorted(s))


@_sym(forall_int)
def _forall_int(interp, pred, candidates=()):
    return _quant(interp, pred, 1, ('i',))


def _quant(interp, pred, n, names):
    ctx = interp.ctx
    mode = getattr(ctx, 'spec_mode', None)
    if mode is None:
        raise SpecError('quantifier outside a contract clause')
    neg = getattr(ctx, 'neg_depth', 0) % 2 == 1
    vs = [ctx.fresh('q_' + nm, tm.INT) for nm in names]
    if (mode == 'goal') != neg:
        # goal position: skolem constants (free variables of the negated goal)
        ctx.witnesses.append(vs)
        v = interp.call(pred, [SInt(x) for x in vs], {})
        return v
    body = ctx.merge_eval(lambda: interp.call(pred, [SInt(x) for x in vs], {}), on_raise='error')
    t = tm.mk_forall(vs, body)
    return t.val if t.is_const else SBool(t)


# ---------------------------------------------------------------------------------------
def implies(a, b):
    return (not a) or bool(b)


@_sym(implies)
def _implies(interp, a, b):
    from .interp import truth_term
    t = tm.mk_implies(truth_term(a), truth_term(b))
    return t.val if t.is_const else SBool(t)


def iff(a, b):
    return bool(a) == bool(b)


@_sym(iff)
def _iff(interp, a, b):
    from .interp import truth_term
    t = tm.mk_eq(truth_term(a), truth_term(b))
    return t.val if t.is_const else SBool(t)


def same_object(a, b):
    return a is b


@_sym(same_object)
def _same_object(interp, a, b):
    # immutable scalars (numbers, logicals, text, error values) are compared by kind and value: clause evaluation may
    # have merged `x if c else y` into one term, and which of two equal scalars is returned is not observable
    from .values import Sym, SReal
    if a is b:
        return True
    if isinstance(a, Sym) and isinstance(b, Sym):
        if type(a) is not type(b):
            return False
        t = tm.mk_eq(a.t, b.t)
        if isinstance(a, SReal) and (a.fin is not None or b.fin is not None):
            fa = a.fin if a.fin is not None else tm.TRUE
            fb = b.fin if b.fin is not None else tm.TRUE
            t = tm.mk_and(fa, fb, t)
        return t.val if t.is_const else SBool(t)
    return False


def is_canonical_decimal(s):
    return isinstance(s, str) and s.isdigit() and str(int(s)) == s


@_sym(is_canonical_decimal)
def _is_canonical_decimal(interp, s):
    from .values import SDec, SStr
    if isinstance(s, SDec):
        t = tm.mk_le(tm.const(0), s.t)
        return t.val if t.is_const else SBool(t)
    if isinstance(s, str):
        return is_canonical_decimal(s)
    if isinstance(s, SStr):
        from .values import DEC_RE
        return SBool(tm.T('str.in_re', (s.t, tm.T('re', (), 'RegLan', DEC_RE)), tm.BOOL))
    return False


# ---------------------------------------------------------------------------------------
def in_re(s, pattern):
    """Full match of `pattern` (a small regex subset: literals, classes, * + ? | groups)."""
    import re
    return isinstance(s, str) and re.fullmatch(pattern, s) is not None


@_sym(in_re)
def _in_re(interp, s, pattern):
    from .values import SStr, SDec, SErr
    from .models import str_term, is_str
    from .regex2smt import regex_to_smt
    if isinstance(s, str) and not isinstance(s, (SStr,)):
        return in_re(s, pattern)
    if not is_str(s):
        return False
    t = tm.T('str.in_re', (str_term(interp, s), tm.T('re', (), 'RegLan', regex_to_smt(pattern))), tm.BOOL)
    return SBool(t)


# ---------------------------------------------------------------------------------------
def n_calls(f):
    """Ghost: how often the opaque callable `f` has been called."""
    return f.calls


@_sym(n_calls)
def _n_calls(interp, f):
    return len(f.calls)


def is_1x1_of(result, v):
    """result is the 1x1 object array [[v]] (identity of the element)."""
    import numpy as np
    return isinstance(result, np.ndarray) and result.shape == (1, 1) and result.dtype == object and result[0, 0] is v


@_sym(is_1x1_of)
def _is_1x1_of(interp, result, v):
    import numpy as np
    from .values import ArrVal
    from .models import identical
    if isinstance(result, np.ndarray):
        if result.shape != (1, 1) or result.dtype != object:
            return False
        return identical(interp, result[0, 0], v)
    if not isinstance(result, ArrVal) or len(result.rows) != 1 or len(result.rows[0]) != 1:
        return False
    return identical(interp, result.rows[0][0], v)


def returned_by(result, f, i=0):
    """result is the object returned by the i-th call of the opaque callable f."""
    kind, o = f.outcomes[i]
    return kind == 'return' and result is o


@_sym(returned_by)
def _returned_by(interp, result, f, i=0):
    if i >= len(f.calls):
        return False
    kind, o = f.calls[i][2]
    return kind == 'return' and result is o


def raised_by(exc, f, i=0):
    kind, o = f.outcomes[i]
    return kind == 'raise' and exc is o


@_sym(raised_by)
def _raised_by(interp, exc, f, i=0):
    if i >= len(f.calls):
        return False
    kind, o = f.calls[i][2]
    return kind == 'raise' and exc is o



def now_calls():
    """Ghost: the instants returned by datetime.now() during this call (symbolic execution only)."""
    raise NotImplementedError('ghost state: only meaningful under symbolic execution')


@_sym(now_calls)
def _now_calls(interp):
    return list(interp.ctx.ghost.get('now_calls', []))
