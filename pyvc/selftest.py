"""Self-test of the verification pipeline, run at the start of every check: each correct body must verify, each broken
body must be refuted, through exactly the code path used for the real contracts."""
from . import contract as C
from .contract import Contract, IntT, StrT, RealT, RecordT, TupleT, ConstT


def _contracts():
    import contracts.selftest_bodies as B
    out = []

    def pair(name, params, post, pre=None, raises_none=False, **kw):
        for tag, fn in (('good', getattr(B, name + '_good')), ('bad', getattr(B, name + '_bad'))):
            c = Contract((lambda f=fn: f), dict(params), 'SELFTEST', name='selftest:%s:%s' % (name, tag), use=[], **kw)
            if pre is not None:
                c.requires(pre)
            c.ensures('post', 'P')(post)
            out.append((tag, c))

    pair('clamp', dict(x=IntT(), lo=IntT(), hi=IntT()),
         lambda x, lo, hi, result: lo <= result <= hi and (result == x or x < lo or x > hi), pre=lambda x, lo, hi: lo <= hi)
    pair('label', dict(sheet=StrT(), ref=StrT()),
         lambda sheet, ref, result: result.endswith(ref) and (len(result) == len(ref)) == (sheet == ''), pre=lambda sheet, ref: not ('!' in ref))
    pair('floor_mod', dict(a=IntT(), b=IntT()),
         lambda a, b, result: (0 <= result < b) if b > 0 else (b < result <= 0), pre=lambda a, b: b != 0)
    pair('widen', dict(area=RecordT({'r1': IntT(), 'r2': IntT()}), r=IntT()),
         lambda area, r, result, old: result['r2'] >= old['area']['r2'] and result['r2'] >= r and result['r1'] == old['area']['r1'],
         frame=('area',))
    pair('count_pos', dict(xs=TupleT(IntT(), IntT(), IntT())),
         lambda xs, result: result == (1 if xs[0] > 0 else 0) + (1 if xs[1] > 0 else 0) + (1 if xs[2] > 0 else 0))
    pair('safe_div', dict(a=RealT(), b=RealT()),
         lambda a, b, result: (result is None) == (b == 0), float_mode='real')
    pair('fresh_names', dict(seen=TupleT(StrT(), StrT()), new=TupleT(StrT(), StrT())),
         lambda seen, new, result: all(n != s for n in result for s in seen)
         and len(result) == sum(1 for n in new if n != seen[0] and n != seen[1]))
    return out


def run(discharge, tier='quick'):
    """-> list of error strings (empty: the pipeline accepts the correct bodies and refutes the broken ones)."""
    errors = []
    pairs = _contracts()
    reg = [c for _, c in pairs]
    for tag, con in pairs:
        try:
            recs, obs = C.verify_contract(con, reg)
        except Exception as ex:
            errors.append('%s: engine raised %s: %s' % (con.name, type(ex).__name__, ex))
            continue
        verdicts = []
        for ob in obs:
            if ob.kind == 'canary':
                continue
            r = discharge(ob, tier, 10.0)
            verdicts.append((ob.name, r['verdict']))
        if not verdicts:
            errors.append('%s: no obligations generated' % con.name)
        elif tag == 'good' and any(v != 'unsat' for _, v in verdicts):
            errors.append('%s: a correct body is not accepted: %r' % (con.name, [x for x in verdicts if x[1] != 'unsat'][:3]))
        elif tag == 'bad' and not any(v == 'sat' for _, v in verdicts):
            errors.append('%s: a broken body is not refuted: %r' % (con.name, verdicts[:5]))
    return errors
