"""Loop specifications (inductive invariants) and sequences of abstract objects of *symbolic length*.

`Universe` — a finite set of K concrete object templates (class + fields); an object of the universe is an Int id `e`
with an uninterpreted function kind(e) in [0, K).  Taking an element out of a sequence forks over the K kinds and yields a
*frozen* Obj of that template (any mutation of it leaves the supported subset: the sequence model keeps ids, not states).
The assumption that every element is of one of the K kinds is the type invariant of the sequence, stated by the contract.

`ObjSeqT` — TypeGen of a list of symbolic length over a universe: SymSeq((Array Int Int), len >= 0).

`LoopSpec` — invariant / variant / modifies of one `while` loop, identified by the qualified name of its function and the
ordinal of the loop in it (line numbers are not used).  At the loop the interpreter
  1. obliges the invariant on entry (kind S),
  2. havocs the modified variables (`len`: only the length of a sequence — checked syntactically after the body; `seq`:
     contents and length), assumes the invariant (vacuity-checked),
  3. forks on the loop test: body -> obliges invariant preserved + variant decreased and bounded (kind S), cuts the path;
     test false / `break` -> goes on after the loop with the havocked state.
Every path that went through a havoc carries ghost['havoc']: a clause refuted on such a path is a violation only if a concrete
input replays it (the havocked state need not be reachable); otherwise it is reported as PROOF-BROKEN.

Spec primitives (native + symbolic) for clauses over such sequences: ident, ident_at, table, indices."""
import copy

from . import terms as tm
from .values import Obj, SymSeq, SInt, SBool, Unsupported, SpecError
from .spec import _sym
from .contract import TypeGen, resolve, make_instance

ARR = '(Array Int Int)'


class FrozenDict(dict):
    def _no(self, *a, **k):
        raise Unsupported('mutation of an element of a symbolic-length sequence')
    __setitem__ = __delitem__ = update = pop = popitem = clear = setdefault = _no

    def __deepcopy__(self, memo):
        return FrozenDict({k: copy.deepcopy(v, memo) for k, v in self.items()})


def _freeze(v):
    if isinstance(v, dict):
        return FrozenDict({k: _freeze(x) for k, x in v.items()})
    return v


class Universe:
    def __init__(self, name, templates):
        """templates: list of (class or 'module:Class', fields dict of concrete values)."""
        self.name, self.templates = name, list(templates)
        self._native = None
        U = self

        # ---- spec primitives, bound to this universe -------------------------------------------------
        def ident(o):
            """Identity of an object of the universe (natively: its kind; `old` snapshots are copies)."""
            return U.kind_of_native(o)

        @_sym(ident)
        def _ident(interp, o):
            return SInt(U.unwrap(o))

        def ident_at(seq, i):
            return U.kind_of_native(seq[i]) if 0 <= i < len(seq) else -1

        @_sym(ident_at)
        def _ident_at(interp, seq, i):
            from .models import int_term
            if not isinstance(seq, SymSeq):
                raise Unsupported('ident_at of %r' % (seq,))
            return SInt(tm.mk_select(seq.arr, int_term(i)))

        def indices(*seqs):
            """Native candidates for forall_int over positions of the given sequences (ignored symbolically)."""
            return range(0, max([len(s) for s in seqs] + [0]) + 2)

        @_sym(indices)
        def _indices(interp, *seqs):
            return ()
        self.ident, self.ident_at, self.indices = ident, ident_at, indices

    # -------------------------------------------------------------------------------------------------
    def cls_of(self, k):
        c = self.templates[k][0]
        return resolve(c) if isinstance(c, str) else c

    def natives(self):
        if self._native is None:
            self._native = [make_instance(self.cls_of(k), copy.deepcopy(f)) for k, (c, f) in enumerate(self.templates)]
        return self._native

    def kind_of_native(self, o):
        for k, (c, f) in enumerate(self.templates):
            if type(o) is self.cls_of(k) and all(_same(getattr(o, a, None), v) for a, v in f.items() if a in self.key_fields(k)):
                return k
        return -1

    def key_fields(self, k):
        return [a for a in self.templates[k][1]]

    def kind_term(self, e):
        return tm.app(self.name + '.kind', (e,), tm.INT)

    def wrap(self, ctx, e):
        K = len(self.templates)
        kt = self.kind_term(e)
        k = ctx.decide([[tm.mk_eq(kt, tm.const(i))] for i in range(K)])
        o = Obj(self.cls_of(k), FrozenDict({a: _freeze(copy.deepcopy(v)) for a, v in self.templates[k][1].items()}))
        o._elem = e
        return o

    def unwrap(self, v):
        e = getattr(v, '_elem', None)
        if e is None:
            raise Unsupported('object %r is not an element of universe %s' % (v, self.name))
        return e

    def table(self, fn, name=None):
        """Spec primitive x -> fn(object of identity x) for an int/bool-valued fn, tabulated over the templates."""
        vals = [fn(o) for o in self.natives()]
        U = self

        def tab(x):
            # outside the universe (an index out of range under a guard that is false anyway): a value of the right type
            return vals[x] if 0 <= x < len(vals) else (False if all(isinstance(v, bool) for v in vals) else -(10 ** 9))

        @_sym(tab)
        def _tab(interp, x):
            from .models import int_term
            if isinstance(x, int) and not isinstance(x, bool):
                return tab(x)
            kt = U.kind_term(int_term(x))
            isbool = all(isinstance(v, bool) for v in vals)
            t = tm.const(vals[-1])
            for k in range(len(vals) - 2, -1, -1):
                t = tm.mk_ite(tm.mk_eq(kt, tm.const(k)), tm.const(vals[k]), t)
            return SBool(t) if isbool else SInt(t)
        tab.__name__ = name or getattr(fn, '__name__', 'table')
        return tab


def _same(a, b):
    if isinstance(a, dict) and isinstance(b, dict):
        return all(k in a and _same(a[k], v) for k, v in b.items() if not callable(v))
    if callable(b):
        return True
    return type(a) is type(b) and a == b


class ElemT(TypeGen):
    """TypeGen: one object of the universe, of a fixed kind, *mutable* (the incoming token of a handler)."""

    def __init__(self, universe, kind):
        self.U, self.kind = universe, kind

    def make(self, ctx, name):
        e = tm.var(name + '.id', tm.INT)
        ctx.assume(tm.mk_eq(self.U.kind_term(e), tm.const(self.kind)))
        c, f = self.U.templates[self.kind]
        o = Obj(self.U.cls_of(self.kind), copy.deepcopy(f))
        o._elem = e
        return o


class ObjSeqT(TypeGen):
    """TypeGen: list of symbolic length whose elements are objects of the universe."""

    def __init__(self, universe, mutable=True):
        self.U, self.mutable = universe, mutable

    def make(self, ctx, name):
        arr = tm.var(name + '.arr', ARR)
        n = tm.var(name + '.len', tm.INT)
        ctx.assume(tm.mk_le(tm.const(0), n))
        U = self.U
        return SymSeq(arr, n, lambda e: U.wrap(ctx, e), tm.INT, self.mutable, U.unwrap)


# ---------------------------------------------------------------------------------------------------------
class LoopSpec:
    def __init__(self, label, invariant, modifies, variant=None):
        """invariant(<local names>..., entry) -> bool; modifies: {local name: 'len' | 'seq'}; variant(<locals>) -> int."""
        self.label, self.invariant, self.modifies, self.variant = label, invariant, dict(modifies), variant

    def _eval(self, interp, fn, env, entry, mode):
        import inspect
        from .interp import closure_of
        ctx = interp.ctx
        kw = {}
        for p in inspect.signature(fn).parameters:
            kw[p] = entry if p == 'entry' else env.lookup(p)
        c = closure_of(fn)
        saved = (getattr(ctx, 'spec_mode', None), getattr(ctx, 'neg_depth', 0))
        ctx.spec_mode, ctx.neg_depth = mode, 0
        try:
            return ctx.merge_eval(lambda: interp.call_closure(c, [], kw, force_body=True),
                                  on_raise='false' if mode == 'goal' else 'error')
        finally:
            ctx.spec_mode, ctx.neg_depth = saved

    def _oblige(self, ctx, what, goal, w0):
        ctx.oblige('%s/%s' % (self.label, what), goal, 'S',
                   meta={'clause': '%s/%s' % (self.label, what), 'witnesses': list(ctx.witnesses[w0:]), 'loop': True})

    def run_while(self, interp, s, env):
        from .interp import PathEnd, _Break, _Continue
        from .models import int_term
        ctx = interp.ctx
        import inspect
        names = [p for p in inspect.signature(self.invariant).parameters if p != 'entry']
        entry = {p: copy.deepcopy(env.lookup(p)) for p in names}
        # 1. the invariant holds on entry
        w0 = len(ctx.witnesses)
        self._oblige(ctx, 'invariant-holds-on-entry', self._eval(interp, self.invariant, env, entry, 'goal'), w0)
        # 2. havoc + assume
        n = ctx.ghost['nloops'] = ctx.ghost.get('nloops', 0) + 1
        heads = {}
        for var, mode in self.modifies.items():
            seq = env.lookup(var)
            if not isinstance(seq, SymSeq):
                raise Unsupported('loop specification: %s is not a symbolic-length sequence' % var)
            seq.len = ctx.fresh('%s@loop%d.len' % (var, n), tm.INT)
            ctx.assume(tm.mk_le(tm.const(0), seq.len))
            if mode == 'seq':
                seq.arr = ctx.fresh('%s@loop%d.arr' % (var, n), ARR)
            elif mode != 'len':
                raise SpecError('modifies mode %r' % (mode,))
            heads[var] = (seq.arr, seq.len)
        ctx.assume(self._eval(interp, self.invariant, env, entry, 'assume'))
        if not ctx.feasible([]):
            raise SpecError('loop invariant %s contradicts the path (vacuous)' % self.label)
        ctx.ghost['havoc'] = True
        ctx.ghost.setdefault('assumptions', set()).add(
            'loop %s: inductive invariant (entry / preservation / variant obligations discharged separately)' % self.label)
        v0 = self._variant(interp, env) if self.variant else None
        # 3. one arbitrary iteration, or the exit
        if not interp.truth(interp.eval(s.test, env)):
            interp.exec_block(s.orelse, env)
            return
        try:
            interp.exec_block(s.body, env)
        except _Break:
            return
        except _Continue:
            pass
        for var, mode in self.modifies.items():
            seq = env.lookup(var)
            if mode == 'len' and seq.arr is not heads[var][0] and seq.arr != heads[var][0]:
                raise Unsupported('loop frame: the body changes the contents of %s (declared length-only)' % var)
        w0 = len(ctx.witnesses)
        self._oblige(ctx, 'invariant-preserved', self._eval(interp, self.invariant, env, entry, 'goal'), w0)
        if self.variant:
            v1 = self._variant(interp, env)
            self._oblige(ctx, 'variant-decreases-and-is-bounded',
                         tm.mk_and(tm.mk_lt(v1, v0), tm.mk_le(tm.const(0), v0)), len(ctx.witnesses))
        raise PathEnd()

    def _variant(self, interp, env):
        import inspect
        from .interp import closure_of
        from .models import int_term
        kw = {p: env.lookup(p) for p in inspect.signature(self.variant).parameters}
        return int_term(interp.call_closure(closure_of(self.variant), [], kw, force_body=True))


def loop_ordinal(func_node, loop_node):
    """Ordinal of `loop_node` among the while loops of the function (source order)."""
    import ast
    loops = [n for n in ast.walk(func_node) if isinstance(n, ast.While)]
    loops.sort(key=lambda n: (n.lineno, n.col_offset))
    for k, n in enumerate(loops):
        if n is loop_node:
            return k
    return None
