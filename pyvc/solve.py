"""Back ends: z3 5.1 (z3-new), z3 4.8 (/usr/bin/z3), cvc5 1.0.3 through their CLIs.

A query is a list of assertion terms; `check(asserts)` answers 'unsat' | 'sat' | 'unknown'
(+ a model for the requested variables when sat).
"""
import os
import re
import subprocess
import time
import hashlib
from fractions import Fraction
from . import terms as tm

SOLVERS = {
    'z3': ['z3-new', '-in', '-smt2'],
    'z3old': ['/usr/bin/z3', '-in', '-smt2'],
    'cvc5': ['/usr/bin/cvc5', '--lang=smt2', '--strings-exp', '--produce-models'],
    'cvc5e': ['/usr/bin/cvc5', '--lang=smt2', '--strings-exp', '--enum-inst', '--produce-models'],
    'cvc5f': ['/usr/bin/cvc5', '--lang=smt2', '--strings-exp', '--strings-fmf', '--produce-models'],
}

STATS = {'queries': 0, 'seconds': 0.0, 'by_solver': {}}


def script(asserts, get_values=(), extra_sorts=(), logic='ALL', preamble=()):
    vars_, funs, seen = {}, {}, set()
    for a in asserts:
        tm.collect(a, vars_, funs, seen)
    for g in get_values:
        tm.collect(g, vars_, funs, seen)
    lines = ['(set-option :produce-models true)', '(set-logic %s)' % logic]
    sorts = set(extra_sorts)
    builtin = {'Int', 'Bool', 'String', 'Real'}
    for s in list(vars_.values()) + [x for f in funs.values() for x in f[0] + (f[1],)]:
        for w in re.findall(r'[A-Za-z_][A-Za-z0-9_!.]*', s):
            if w not in builtin and w != 'Array' and w != 'RegLan':
                sorts.add(w)
    for s in sorted(sorts):
        lines.append('(declare-sort %s 0)' % s)
    lines.extend(preamble)
    for n, s in sorted(vars_.items()):
        lines.append('(declare-fun %s () %s)' % (tm.sym_name(n), s))
    for n, (a, r) in sorted(funs.items()):
        lines.append('(declare-fun %s (%s) %s)' % (tm.sym_name(n), ' '.join(a), r))
    cache = {}
    for a in asserts:
        lines.append('(assert %s)' % tm.to_smt(a, cache))
    lines.append('(check-sat)')
    if get_values:
        lines.append('(get-value (%s))' % ' '.join(tm.to_smt(g, cache) for g in get_values))
    return '\n'.join(lines) + '\n'


def run(text, solver='z3', timeout=10.0):
    cmd = list(SOLVERS[solver])
    if solver.startswith('z3'):
        cmd.append('-T:%d' % max(1, int(timeout + 0.999)))
    else:
        cmd.append('--tlimit=%d' % int(timeout * 1000))
    t0 = time.time()
    try:
        p = subprocess.run(cmd, input=text, capture_output=True, text=True, timeout=timeout + 5)
        out = p.stdout + p.stderr
    except subprocess.TimeoutExpired:
        out = 'timeout'
    dt = time.time() - t0
    STATS['queries'] += 1
    STATS['seconds'] += dt
    STATS['by_solver'][solver] = STATS['by_solver'].get(solver, 0) + 1
    first = out.strip().split('\n', 1)[0].strip() if out.strip() else ''
    if first in ('sat', 'unsat', 'unknown'):
        verdict = first
    elif 'timeout' in out or 'interrupted' in out:
        verdict = 'timeout'
    else:
        verdict = 'error'
    return verdict, out, dt


_CACHE = {}


def check(asserts, get_values=(), solvers=('z3',), timeout=10.0, need_model=False,
          preamble=()):
    """Returns dict(verdict, solver, seconds, model (list aligned with get_values) | None,
    output, log [(solver, verdict, seconds)])."""
    text = script(asserts, get_values, preamble=preamble)
    key = (hashlib.sha1(text.encode()).hexdigest(), tuple(solvers), timeout)
    if key in _CACHE:
        return _CACHE[key]
    log, res = [], None
    for s in solvers:
        verdict, out, dt = run(text, s, timeout)
        log.append((s, verdict, round(dt, 3)))
        if verdict in ('sat', 'unsat'):
            model = None
            if verdict == 'sat' and get_values:
                try:
                    model = parse_values(out.split('\n', 1)[1], len(get_values))
                except Exception as ex:  # model not parseable: keep the verdict
                    model = None
            res = dict(verdict=verdict, solver=s, seconds=dt, model=model, output=out, log=log)
            break
    if res is None:
        res = dict(verdict=log[-1][1] if log else 'error', solver=None,
                   seconds=sum(x[2] for x in log), model=None,
                   output=out if log else '', log=log)
    _CACHE[key] = res
    return res


# ----------------------------------------------------------------------------------
# s-expression parsing of (get-value …) answers

_TOKEN = re.compile(r'''\s*(?:(\()|(\))|("(?:[^"]|"")*")|(\|[^|]*\|)|([^\s()"|]+))''')


def sexprs(s):
    stack, cur = [], []
    pos = 0
    while True:
        m = _TOKEN.match(s, pos)
        if not m:
            break
        pos = m.end()
        lp, rp, st, q, atom = m.groups()
        if lp:
            stack.append(cur)
            cur = []
        elif rp:
            done = cur
            cur = stack.pop()
            cur.append(done)
        elif st is not None:
            cur.append(('str', unescape(st[1:-1])))
        elif q is not None:
            cur.append(q[1:-1])
        else:
            cur.append(atom)
    return cur


def unescape(s):
    s = s.replace('""', '"')

    def rep(m):
        return chr(int(m.group(1) or m.group(2), 16))
    return re.sub(r'\\u\{([0-9a-fA-F]+)\}|\\u([0-9a-fA-F]{4})', rep, s)


def value_of(e):
    if isinstance(e, tuple) and e[0] == 'str':
        return e[1]
    if isinstance(e, str):
        if e == 'true':
            return True
        if e == 'false':
            return False
        if re.fullmatch(r'-?\d+', e):
            return int(e)
        if re.fullmatch(r'-?\d+\.\d*', e):
            return Fraction(e)
        return ('sym', e)
    if isinstance(e, list):
        if len(e) == 2 and e[0] == '-':
            return -value_of(e[1])
        if len(e) == 3 and e[0] == '/':
            return Fraction(value_of(e[1])) / Fraction(value_of(e[2]))
        if len(e) == 2 and isinstance(e[0], list) and e[0][:2] == ['as', 'const']:
            return {'default': value_of(e[1])}
        if len(e) == 4 and e[0] == 'store':
            a = dict(value_of(e[1]))
            a[value_of(e[2])] = value_of(e[3])
            return a
        if len(e) == 3 and e[0] == 'lambda':
            return ('lambda', e)
        if len(e) == 2 and e[0] == 'str.from_code':
            return chr(value_of(e[1]))
        if e and e[0] == 'str.++':
            return ''.join(value_of(x) for x in e[1:])
        if len(e) == 3 and e[0] == '_' and e[1] == 'char':
            return chr(int(e[2][2:], 16))
    return ('raw', e)


def parse_values(text, n):
    es = sexprs(text)
    pairs = es[0]
    assert len(pairs) == n, (len(pairs), n)
    return [value_of(p[1]) for p in pairs]


# ----------------------------------------------------------------------------------
# persistent z3 for the (many, small) feasibility queries of path exploration

class Persistent:
    def __init__(self, timeout_ms=250):
        self.timeout_ms = timeout_ms
        self.p = None
        self.n = 0

    def start(self):
        self.p = subprocess.Popen(['z3-new', '-in', '-smt2', '-t:%d' % self.timeout_ms], stdin=subprocess.PIPE,
                                  stdout=subprocess.PIPE, stderr=subprocess.STDOUT, text=True, bufsize=1)

    def check(self, asserts):
        """'sat' | 'unsat' | 'unknown'"""
        if self.p is None or self.p.poll() is not None or self.n > 4000:
            self.close()
            self.start()
            self.n = 0
        self.n += 1
        text = script(asserts)
        body = text.split('\n', 2)[2]          # drop set-option / set-logic lines
        body = body.replace('(check-sat)\n', '')
        msg = '(push)\n%s(check-sat)\n(pop)\n(echo "---done---")\n' % body
        t0 = time.time()
        try:
            self.p.stdin.write(msg)
            self.p.stdin.flush()
            out = []
            while True:
                line = self.p.stdout.readline()
                if not line:
                    raise IOError('z3 died')
                line = line.strip()
                if line == '---done---':
                    break
                out.append(line)
        except Exception:
            self.close()
            return 'unknown'
        STATS['queries'] += 1
        STATS['seconds'] += time.time() - t0
        STATS['by_solver']['z3-persistent'] = STATS['by_solver'].get('z3-persistent', 0) + 1
        for line in out:
            if line in ('sat', 'unsat', 'unknown'):
                return line
        return 'unknown'

    def close(self):
        if self.p is not None:
            try:
                self.p.kill()
            except Exception:
                pass
            self.p = None


import threading
_PERSISTENT = None
_FEAS_CACHE = {}
_LOCK = threading.Lock()


def feasible(asserts):
    global _PERSISTENT
    key = hash(tuple(asserts))
    r = _FEAS_CACHE.get(key)
    if r is not None:
        return r
    with _LOCK:
        if _PERSISTENT is None:
            _PERSISTENT = Persistent()
        v = _PERSISTENT.check(asserts)
    r = v != 'unsat'
    _FEAS_CACHE[key] = r
    return r


def check_race(asserts, get_values=(), solvers=('z3', 'cvc5'), timeout=10.0):
    """Run the back ends concurrently; the first definite answer (sat/unsat) wins."""
    text = script(asserts, get_values)
    key = (hashlib.sha1(text.encode()).hexdigest(), ('race',) + tuple(solvers), timeout)
    if key in _CACHE:
        return _CACHE[key]
    procs = []
    t0 = time.time()
    for sname in solvers:
        cmd = list(SOLVERS[sname])
        if sname.startswith('z3'):
            cmd.append('-T:%d' % max(1, int(timeout + 0.999)))
        else:
            cmd.append('--tlimit=%d' % int(timeout * 1000))
        p = subprocess.Popen(cmd, stdin=subprocess.PIPE, stdout=subprocess.PIPE, stderr=subprocess.STDOUT, text=True)
        try:
            p.stdin.write(text)
            p.stdin.close()
        except Exception:
            pass
        procs.append((sname, p))
    log, res = [], None
    pending = list(procs)
    while pending and res is None and time.time() - t0 < timeout + 5:
        for sname, p in list(pending):
            if p.poll() is None:
                continue
            pending.remove((sname, p))
            out = p.stdout.read()
            first = out.strip().split('\n', 1)[0].strip() if out.strip() else ''
            dt = time.time() - t0
            verdict = first if first in ('sat', 'unsat', 'unknown') else ('timeout' if 'timeout' in out or 'interrupted' in out else 'error')
            log.append((sname, verdict, round(dt, 3)))
            STATS['queries'] += 1
            STATS['by_solver'][sname] = STATS['by_solver'].get(sname, 0) + 1
            if verdict in ('sat', 'unsat'):
                model = None
                if verdict == 'sat' and get_values:
                    try:
                        model = parse_values(out.split('\n', 1)[1], len(get_values))
                    except Exception:
                        model = None
                res = dict(verdict=verdict, solver=sname, seconds=dt, model=model, output=out, log=log)
                break
        if res is None and pending:
            time.sleep(0.01)
    for sname, p in pending:
        try:
            p.kill()
            p.stdout.close()
        except Exception:
            pass
        if res is None:
            log.append((sname, 'timeout', round(time.time() - t0, 3)))
    for sname, p in procs:
        try:
            p.wait(timeout=1)
        except Exception:
            pass
    if res is None:
        res = dict(verdict=log[-1][1] if log else 'error', solver=None, seconds=time.time() - t0, model=None,
                   output='', log=log)
    STATS['seconds'] += time.time() - t0
    _CACHE[key] = res
    return res
