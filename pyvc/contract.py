"""Contracts, input types, path exploration, obligation generation, concolic cross-check and
counterexample replay."""
import copy
import importlib
import inspect
import json
import os
import time
import traceback
from fractions import Fraction

from . import terms as tm
from . import solve
from .values import (Sym, SInt, SBool, SStr, SReal, SDec, SErr, Obj, SymSeq, Unsupported,
                     SpecError, REAL_FUNS, is_sym)
from .models import REAL_FUNS_EXTRA
REAL_FUNS.update(REAL_FUNS_EXTRA)
from .interp import (Ctx, Interp, Closure, closure_of, PyRaise, Infeasible, PathEnd, ERRORS,
                     setup_errors, file_ast, Obligation, interpretable)


# ---------------------------------------------------------------------------------------
# input types

class TypeGen:
    def make(self, ctx, name):
        raise NotImplementedError


class IntT(TypeGen):
    def __init__(self, lo=None, hi=None):
        self.lo, self.hi = lo, hi

    def make(self, ctx, name):
        v = tm.var(name, tm.INT)
        if self.lo is not None:
            ctx.assume(tm.mk_le(tm.const(self.lo), v))
        if self.hi is not None:
            ctx.assume(tm.mk_le(v, tm.const(self.hi)))
        return SInt(v)


class DecT(TypeGen):
    """Canonical decimal text of an integer (str(n)), n >= lo."""

    def __init__(self, lo=0, hi=None):
        self.lo, self.hi = lo, hi

    def make(self, ctx, name):
        v = tm.var(name, tm.INT)
        if self.lo is not None:
            ctx.assume(tm.mk_le(tm.const(self.lo), v))
        if self.hi is not None:
            ctx.assume(tm.mk_le(v, tm.const(self.hi)))
        return SDec(v)


class StrT(TypeGen):
    """Arbitrary text.  caseless=True: str.upper() is the identity on it - the contract must confine the text (requires)
    to characters upper() leaves unchanged (digits, punctuation, capital ASCII letters); recorded as an assumption."""

    def __init__(self, caseless=False):
        self.caseless = caseless

    def make(self, ctx, name):
        v = tm.var(name, tm.STR)
        if self.caseless:
            ctx.ghost.setdefault('caseless', set()).add(v)
            ctx.ghost.setdefault('assumptions', set()).add(
                'upper() is the identity on %s (text confined by the precondition to characters without a lower-case form)' % name)
        return SStr(v)


class BoolT(TypeGen):
    def make(self, ctx, name):
        return SBool(tm.var(name, tm.BOOL))


class RealT(TypeGen):
    """A float: finite (a real number), or with nonfinite=True possibly inf / nan (finiteness flag symbolic)."""

    def __init__(self, nonfinite=False):
        self.nonfinite = nonfinite

    def make(self, ctx, name):
        if self.nonfinite:
            return SReal(tm.var(name, tm.REAL), tm.var(name + '.fin', tm.BOOL))
        return SReal(tm.var(name, tm.REAL))


class ErrT(TypeGen):
    def make(self, ctx, name):
        setup_errors()
        v = tm.var(name, tm.INT)
        ctx.assume(tm.mk_le(tm.const(0), v))
        ctx.assume(tm.mk_lt(v, tm.const(len(ERRORS))))
        return SErr(v)


class ConstT(TypeGen):
    def __init__(self, v):
        self.v = v

    def make(self, ctx, name):
        return copy.deepcopy(self.v) if isinstance(self.v, (dict, list)) else self.v


class OneOf(TypeGen):
    def __init__(self, *alts):
        self.alts = alts

    def make(self, ctx, name):
        k = ctx.choice(len(self.alts))
        return self.alts[k].make(ctx, name)


class RecordT(TypeGen):
    def __init__(self, fields, optional=None):
        self.fields, self.optional = fields, optional or {}

    def make(self, ctx, name):
        d = {}
        for k, t in self.fields.items():
            d[k] = t.make(ctx, '%s.%s' % (name, k))
        for k, t in self.optional.items():
            if ctx.choice(2) == 0:
                d[k] = t.make(ctx, '%s.%s' % (name, k))
        return d


class TupleT(TypeGen):
    def __init__(self, *items):
        self.items = items

    def make(self, ctx, name):
        return tuple(t.make(ctx, '%s.%d' % (name, i)) for i, t in enumerate(self.items))


class ListT(TupleT):
    def make(self, ctx, name):
        return list(super().make(ctx, name))


class FnT(TypeGen):
    """An arbitrary callable: returns an opaque value or raises one of the listed exception kinds.
    raises: list of (exception class, {field: TypeGen}) pairs."""

    def __init__(self, raises=(), result=None):
        self.raises, self.result = list(raises), result

    def make(self, ctx, name):
        from .values import OpaqueFn

        def factory(cls, fields):
            def f(ctx_, nm):
                c = resolve(cls) if isinstance(cls, str) else cls
                return Obj(c, dict({k: t.make(ctx_, '%s.%s' % (nm, k)) for k, t in fields.items()}, args=()))
            return f
        res = (lambda ctx_, nm: self.result.make(ctx_, nm)) if self.result is not None else None
        return OpaqueFn(name, [factory(c, f) for c, f in self.raises], res)


class OpaqueT(TypeGen):
    def __init__(self, not_instance_of=()):
        self.not_instance_of = tuple(not_instance_of)

    def make(self, ctx, name):
        from .values import OpaqueVal
        v = OpaqueVal(name)
        v.not_instance_of = tuple(resolve(c) if isinstance(c, str) else c for c in self.not_instance_of)
        return v


class NpArrT(TypeGen):
    """A real numpy object array of the given shape whose elements are made by `elem` (symbolic scalars)."""

    def __init__(self, shape, elem):
        self.shape = (shape,) if isinstance(shape, int) else tuple(shape)
        self.elem = elem

    def make(self, ctx, name):
        import numpy as np
        n = 1
        for d in self.shape:
            n *= d
        out = np.empty(n, object)
        for k in range(n):
            out[k] = self.elem.make(ctx, '%s.%d' % (name, k))
        return out.reshape(self.shape)


class ObjT(TypeGen):
    """Instance of a real class with the given symbolic fields."""

    def __init__(self, cls, fields):
        self.cls, self.fields = cls, fields

    def make(self, ctx, name):
        cls = resolve(self.cls) if isinstance(self.cls, str) else self.cls
        return Obj(cls, {k: t.make(ctx, '%s.%s' % (name, k)) for k, t in self.fields.items()})


class ColT(TypeGen):
    """Column letters: 1..3 characters, each a symbolic code point in [A-Za-z] (or A-Z only)."""

    def __init__(self, lower=True, maxlen=3):
        self.lower, self.maxlen = lower, maxlen

    def make(self, ctx, name):
        n = ctx.choice(self.maxlen) + 1
        parts = []
        for i in range(n):
            k = tm.var('%s.ch%d' % (name, i), tm.INT)
            up = tm.mk_and(tm.mk_le(tm.const(65), k), tm.mk_le(k, tm.const(90)))
            if self.lower:
                up = tm.mk_or(up, tm.mk_and(tm.mk_le(tm.const(97), k), tm.mk_le(k, tm.const(122))))
            ctx.assume(up)
            tm.LETTER_CODES.add(k)
            if not self.lower:
                ctx.ghost.setdefault('upper_codes', set()).add(k)
            parts.append(tm.mk_from_code1(k))
        return SStr(tm.mk_concat(*parts))


# ---------------------------------------------------------------------------------------

class Clause:
    def __init__(self, name, fn, kind):
        self.name, self.fn, self.kind = name, fn, kind
        self.params = list(inspect.signature(fn).parameters)


def resolve(target):
    if callable(target) and not isinstance(target, str):
        return target()
    mod, _, path = target.partition(':')
    o = importlib.import_module(mod)
    for p in path.split('.'):
        o = getattr(o, p)
    while hasattr(o, '__wrapped__') and hasattr(o, 'cache_info'):
        o = o.__wrapped__
    if isinstance(o, property):
        o = o.fget
    if isinstance(o, staticmethod):
        o = o.__func__
    return o


class Contract:
    def __init__(self, target, params, prop, returns=None, frame=(), name=None, float_mode='real',
                 hooks=None, max_unroll=64, doc='', use=None, pure_result=False, cells=None):
        self.target, self.params, self.prop = target, params, prop
        self.returns, self.frame = returns, tuple(frame)
        self.name = name or (target if isinstance(target, str) else getattr(target, '__name__', 'fn'))
        self.requires_fn = None
        self.clauses, self.canaries, self.raise_clauses = [], [], []
        self.float_mode, self.hooks, self.max_unroll = float_mode, hooks or {}, max_unroll
        self.doc = doc
        self.use = use            # None = all registered contracts; else list of names
        self.loop_specs = {}
        self.reach = []           # reachability covers: (name, fn(args...)) must be satisfiable
        self._fn = None
        self.allowed_exceptions = ()
        self.cells = cells or {}  # free variables of the target closure replaced by symbolic values
        self.regions = {}         # known-finding id -> region predicate over the inputs
        self.bounded = None

    # decorators ---------------------------------------------------------------
    def requires(self, fn):
        self.requires_fn = fn
        return fn

    def ensures(self, name, kind='P'):
        def deco(fn):
            self.clauses.append(Clause(name, fn, kind))
            return fn
        return deco

    def canary(self, name):
        def deco(fn):
            self.canaries.append(Clause(name, fn, 'canary'))
            return fn
        return deco

    def raises(self, exc_cls, name, kind='P'):
        """Clause on the exceptional outcome: fn(args..., exc) must hold when exc_cls is raised."""
        def deco(fn):
            self.raise_clauses.append((exc_cls, Clause(name, fn, kind)))
            return fn
        return deco

    def known_region(self, fid, clause):
        """Region (predicate over the inputs) in which `clause` is known to fail — a finding
        listed in known_findings.json.  Callers assume the clause only outside the region."""
        def deco(fn):
            self.regions[fid] = fn
            self.region_clause = getattr(self, 'region_clause', {})
            self.region_clause[fid] = clause
            return fn
        return deco

    def cover(self, name):
        def deco(fn):
            self.reach.append(Clause(name, fn, 'cover'))
            return fn
        return deco

    # -----------------------------------------------------------------------------
    @property
    def fn(self):
        if self._fn is None:
            self._fn = resolve(self.target)
        return self._fn

    @property
    def qualname(self):
        return closure_of(self.fn).qualname

    def source_info(self):
        f = self.fn
        c = closure_of(f)
        tree, index, sha, src = file_ast(f.__code__.co_filename)
        import ast, hashlib
        return dict(function=c.qualname, file=f.__code__.co_filename, line=c.node.lineno,
                    end_line=getattr(c.node, 'end_lineno', c.node.lineno), file_sha256=sha,
                    node_sha1=hashlib.sha1(ast.dump(c.node).encode()).hexdigest())

    # use of this contract at a call site (modular verification) -----------------------
    def apply(self, interp, closure, args, kwargs):
        ctx = interp.ctx
        loc = interp.bind(closure, args, kwargs)
        cname = self.name
        pre = self._eval_clause(interp, self.requires_fn, loc, None, None, mode='goal') if self.requires_fn else tm.TRUE
        ctx.oblige('call:%s/pre' % cname, pre, 'S', meta={'callee': cname})
        ctx.assume(pre)
        old = snapshot(loc)
        if self.returns is None:
            raise SpecError('contract %s has no `returns` type: cannot be used at call sites' % cname)
        n = ctx.ghost['ncalls'] = ctx.ghost.get('ncalls', 0) + 1
        # frame: havoc what may change, in place
        for p in self.frame:
            t = self.params[p]
            newv = t.make(ctx, '%s#%d.%s' % (cname, n, p))
            cur = loc[p]
            if isinstance(cur, dict) and isinstance(newv, dict):
                cur.clear()
                cur.update(newv)
            elif cur is None:
                pass
            else:
                raise Unsupported('frame havoc of %r' % (cur,))
        if isinstance(self.returns, TypeGen):
            result = self.returns.make(ctx, '%s#%d.ret' % (cname, n))
        else:
            result = self.returns(ctx, '%s#%d.ret' % (cname, n), loc)
        for cl in self.clauses:
            post = self._eval_clause(interp, cl.fn, loc, result, old, mode='assume')
            for fid, cname_ in getattr(self, 'region_clause', {}).items():
                if cname_ == cl.name:   # known to fail inside the region: assume it only outside
                    reg = self._eval_clause(interp, self.regions[fid], old, None, old, mode='assume')
                    post = tm.mk_or(reg, post)
            ctx.assume(post)
        # vacuity guard: an assumed contract must not contradict the path
        key = ('feasible-after', cname)
        if not ctx.feasible([]):
            raise SpecError('assumed contract %s contradicts the path at its call site (vacuous)' % cname)
        ctx.ghost.setdefault('used_contracts', set()).add(cname)
        return result

    def _eval_clause(self, interp, fn, loc, result, old, mode, exc=None):
        ctx = interp.ctx
        params = list(inspect.signature(fn).parameters)
        kw = {}
        for p in params:
            if p == 'result':
                kw[p] = result
            elif p == 'old':
                kw[p] = old
            elif p == 'exc':
                kw[p] = exc
            else:
                kw[p] = loc[p]
        c = closure_of(fn)
        saved = (getattr(ctx, 'spec_mode', None), getattr(ctx, 'neg_depth', 0))
        ctx.spec_mode, ctx.neg_depth = mode, 0
        try:
            return ctx.merge_eval(lambda: interp.call_closure(c, [], kw, force_body=True),
                                  on_raise='false' if mode == 'goal' else 'error')
        finally:
            ctx.spec_mode, ctx.neg_depth = saved


def deep_equal(interp, a, b):
    """Structural equality (objects by class and fields) as bool / SBool."""
    from .models import equal, band
    if isinstance(a, Obj) and isinstance(b, Obj):
        if a.cls is not b.cls or set(a.fields) != set(b.fields):
            return False
        return band([deep_equal(interp, a.fields[k], b.fields[k]) for k in a.fields])
    if isinstance(a, (list, tuple)) and type(a) is type(b):
        if len(a) != len(b):
            return False
        return band([deep_equal(interp, x, y) for x, y in zip(a, b)])
    if isinstance(a, dict) and isinstance(b, dict):
        if set(a) != set(b):
            return False
        return band([deep_equal(interp, a[k], b[k]) for k in a])
    if a is b:
        return True
    if _is_nd(a) and _is_nd(b):
        if a.shape != b.shape or a.dtype != b.dtype:
            return False
        if a.dtype != object:
            return bool((a == b).all())
        return band([deep_equal(interp, x, y) for x, y in zip(a.flat, b.flat)])
    return equal(interp, a, b)


def snapshot(v):
    return copy.deepcopy(v)


# ---------------------------------------------------------------------------------------
# exploration

class PathRecord:
    def __init__(self):
        self.trace = None
        self.pc = None
        self.axioms = None
        self.outcome = None       # ('return', value) | ('raise', Obj) | ('unsupported', msg) | ('cut',)
        self.args = None
        self.args_in = None
        self.obligations = []
        self.ghost = {}
        self.witnesses = []


class Explorer:
    def __init__(self, max_paths=4000):
        self.work = [[]]
        self.max_paths = max_paths
        self.paths = []

    def push(self, prefix):
        self.work.append(list(prefix))


def explore(run_path, max_paths=4000):
    """run_path(ctx) -> PathRecord content; explores all decision sequences."""
    ex = Explorer(max_paths)
    records = []
    while ex.work:
        prefix = ex.work.pop()
        if len(records) >= max_paths:
            raise Unsupported('more than %d paths' % max_paths)
        ctx = Ctx(ex, prefix)
        rec = PathRecord()
        try:
            run_path(ctx, rec)
        except Infeasible:
            continue
        except PathEnd:
            rec.outcome = ('cut',)
        rec.trace, rec.pc, rec.axioms = list(ctx.trace), list(ctx.pc), list(ctx.axioms)
        rec.obligations = ctx.obligations
        rec.ghost = ctx.ghost
        rec.witnesses = ctx.witnesses
        records.append(rec)
    return records


def verify_contract(con, registry, label=None):
    """Symbolically execute the real body of con.fn against `con`.  Returns (records,
    obligations)."""
    fn = con.fn
    closure = closure_of(fn)
    use = {c.qualname: c for c in registry if c is not con and c.returns is not None
           and (con.use is None or c.name in con.use)}
    label = label or con.name

    def run_path(ctx, rec):
        interp = Interp(ctx, contracts=use, float_mode=con.float_mode, hooks=con.hooks,
                        max_unroll=con.max_unroll, loop_specs=con.loop_specs)
        args = {}
        for p, t in con.params.items():
            args[p] = t.make(ctx, p)
        clo = closure
        if con.cells:
            import copy as _copy
            cellvals = {k: t.make(ctx, k) for k, t in con.cells.items()}
            args.update(cellvals)
            clo = _copy.copy(closure)
            clo.cells = [cellvals] + list(closure.cells)
        ctx.inputs = args
        rec.args = args
        if con.requires_fn:
            pre = con._eval_clause(interp, con.requires_fn, args, None, None, mode='assume')
            ctx.assume(pre)
        rec.args_in = snapshot(args)
        old = rec.args_in
        try:
            pos, kws = call_args(clo, args)
            result = interp.call_closure(clo, pos, kws, force_body=True)
            rec.outcome = ('return', result)
        except PyRaise as pr:
            rec.outcome = ('raise', pr.exc)
        except Unsupported as ex:
            rec.outcome = ('unsupported', str(ex))
            ctx.oblige('%s/supported-subset' % label, tm.FALSE, 'U', meta={'reason': str(ex)})
            return
        if rec.outcome[0] == 'return':
            for cl in con.clauses + con.canaries:
                try:
                    goal = con._eval_clause(interp, cl.fn, args, result, old, mode='goal')
                except Unsupported as ex:
                    ctx.oblige('%s/%s' % (label, cl.name), tm.FALSE, 'U', meta={'reason': str(ex)})
                    continue
                ctx.oblige('%s/%s' % (label, cl.name), goal, cl.kind,
                           meta={'clause': cl.name, 'witnesses': list(ctx.witnesses)})
            # frame: parameters not in the frame are unchanged
            for p in con.params:
                if p in con.frame:
                    continue
                try:
                    e = deep_equal(interp, args[p], old[p])
                except Unsupported:
                    continue
                t = tm.const(e) if isinstance(e, bool) else e.t
                if not (t.is_const and t.val):
                    ctx.oblige('%s/frame:%s' % (label, p), t, 'S', meta={'clause': 'frame:' + p})
        else:
            exc = rec.outcome[1]
            matched = False
            for cls, cl in con.raise_clauses:
                if issubclass(exc.cls, cls):
                    matched = True
                    goal = con._eval_clause(interp, cl.fn, old, None, old, mode='goal', exc=exc)
                    ctx.oblige('%s/%s' % (label, cl.name), goal, cl.kind, meta={'clause': cl.name})
            if not matched:
                ctx.oblige('%s/no-exception:%s' % (label, exc.cls.__name__), tm.FALSE, 'P',
                           meta={'clause': 'no-exception', 'exception': exc.cls.__name__})

    records = explore(run_path)
    obligations = []
    for i, rec in enumerate(records):
        for ob in rec.obligations:
            ob.name = '%s#p%d' % (ob.name, i)
            ob.meta['path'] = i
            ob.meta['contract'] = con
            ob.meta['record'] = rec
            obligations.append(ob)
    return records, obligations


# ---------------------------------------------------------------------------------------
# models -> python values

def input_vars(v, out=None):
    if out is None:
        out = {}
    if isinstance(v, Sym):
        for s in tm.subterms(v.t):
            if s.op == 'var':
                out[s.val] = s
    elif isinstance(v, dict):
        for x in v.values():
            input_vars(x, out)
    elif isinstance(v, (list, tuple)):
        for x in v:
            input_vars(x, out)
    elif isinstance(v, Obj):
        input_vars(v.fields, out)
    elif _is_nd(v) and v.dtype == object:
        for x in v.flat:
            input_vars(x, out)
    elif isinstance(v, SymSeq):
        for s in tm.subterms(v.arr):
            if s.op == 'var':
                out[s.val] = s
        for s in tm.subterms(v.len):
            if s.op == 'var':
                out[s.val] = s
    return out


def default_value(sort):
    return {'Int': 0, 'Bool': False, 'String': '', 'Real': Fraction(0)}.get(sort, None)


class _Any:
    def __repr__(self):
        return '<ANY>'


ANY = _Any()


def _has_callee_var(t):
    return any(s.op == 'var' and '#' in s.val for s in tm.subterms(t))


def _is_nd(v):
    import numpy as np
    return isinstance(v, np.ndarray)


def concretize(v, env, funs=REAL_FUNS):
    """Python value of symbolic value `v` under variable assignment env.  Values that depend
    on variables introduced by a callee's contract (havoc) become the wildcard ANY."""
    if isinstance(v, Sym) and _has_callee_var(v.t):
        return ANY
    if isinstance(v, SDec):
        return str(tm.evaluate(v.t, env, funs))
    if isinstance(v, SErr):
        return ERRORS[tm.evaluate(v.t, env, funs)]
    if isinstance(v, SReal):
        if v.fin is not None and not tm.evaluate(v.fin, env, funs):
            return float('inf')
        return float(tm.evaluate(v.t, env, funs))
    if isinstance(v, Sym):
        return tm.evaluate(v.t, env, funs)
    if isinstance(v, dict):
        return {k: concretize(x, env, funs) for k, x in v.items()}
    if isinstance(v, list):
        return [concretize(x, env, funs) for x in v]
    if isinstance(v, tuple):
        return tuple(concretize(x, env, funs) for x in v)
    if isinstance(v, slice):
        return slice(concretize(v.start, env, funs), concretize(v.stop, env, funs), concretize(v.step, env, funs))
    if isinstance(v, SymSeq):
        n = tm.evaluate(v.len, env, funs)
        return [concretize(v.wrap(tm.mk_select(v.arr, tm.const(i))), env, funs) for i in range(n)]
    if isinstance(v, Obj):
        return make_instance(v.cls, {k: concretize(x, env, funs) for k, x in v.fields.items()})
    tn = type(v).__name__
    if tn == 'OpaqueVal':
        return env.setdefault('$opaque', {}).setdefault(v.name, NativeOpaque(v.name))
    if tn == 'OpaqueFn':
        store = env.setdefault('$opaque', {})
        if v.name not in store:
            outcomes = [(k, concretize(o, env, funs)) for _, _, (k, o) in v.calls]
            store[v.name] = NativeFn(v.name, outcomes)
        return store[v.name]
    if tn == 'ArrVal':
        import numpy as np
        return np.asarray([[concretize(x, env, funs) for x in r] for r in v.rows], object)
    if _is_nd(v) and v.dtype == object:
        import numpy as np
        out = np.empty(v.size, object)
        for k, x in enumerate(v.flat):
            out[k] = concretize(x, env, funs)
        out = out.reshape(v.shape)
        return out.view(type(v)) if type(v) is not np.ndarray else out
    return v


class NativeOpaque:
    def __init__(self, name):
        self.name = name

    def __repr__(self):
        return '<opaque %s>' % self.name

    def __deepcopy__(self, memo):
        return self


class NativeFn:
    """Concrete stand-in of an opaque callable: replays the outcomes chosen on the path."""

    def __init__(self, name, outcomes):
        self.name, self.outcomes, self.calls = name, list(outcomes), 0
        self.__name__ = name

    def __deepcopy__(self, memo):
        return NativeFn(self.name, self.outcomes)

    def __call__(self, *a, **k):
        i = self.calls
        self.calls += 1
        if i >= len(self.outcomes):
            return NativeOpaque('%s.extra%d' % (self.name, i))
        kind, o = self.outcomes[i]
        if kind == 'raise':
            raise o
        return o


def make_instance(cls, fields):
    if issubclass(cls, BaseException):
        o = cls.__new__(cls)
        o.args = tuple(fields.get('args', ()))
    else:
        o = cls.__new__(cls)
    for k, x in fields.items():
        if k == 'args' and issubclass(cls, BaseException):
            continue
        try:
            object.__setattr__(o, k, x)
        except Exception:
            pass
    return o


def model_env(hyps, extra_vars=(), solvers=('z3',), timeout=2.0, extra_asserts=()):
    """A model of hyps as {var name: python value} or None."""
    vars_, funs, seen = {}, {}, set()
    for h in list(hyps) + list(extra_asserts):
        tm.collect(h, vars_, funs, seen)
    for v in extra_vars:
        vars_[v.val] = v.sort
    names = sorted(n for n, s in vars_.items() if s in ('Int', 'Bool', 'String', 'Real'))
    gv = [tm.var(n, vars_[n]) for n in names]
    r = solve.check(list(hyps) + list(extra_asserts), get_values=gv, solvers=solvers, timeout=timeout)
    if r['verdict'] == 'sat' and not gv:
        return {}, r               # nothing symbolic on this path (all inputs are constants)
    if r['verdict'] != 'sat' or r['model'] is None:
        return None, r
    env = {}
    for n, val in zip(names, r['model']):
        if isinstance(val, tuple):
            val = default_value(vars_[n])
        if vars_[n] == 'Real':
            val = Fraction(val)
        env[n] = val
    return env, r


def snap_floats(env):
    """Real-valued model entries become exactly representable floats (the concrete argument is a float)."""
    for k, v in list(env.items()):
        if isinstance(v, Fraction):
            try:
                env[k] = Fraction(float(v))
            except OverflowError:
                pass


def holds(t, env, funs=REAL_FUNS):
    """True/False, or None if not evaluable (quantifiers, uninterpreted symbols)."""
    try:
        return bool(tm.evaluate(t, env, funs))
    except tm.EvalError:
        return None


def py_equal(a, b):
    if a is ANY or b is ANY:
        return True
    try:
        import numpy as _np
        if isinstance(a, _np.generic):
            a = a.item()
        if isinstance(b, _np.generic):
            b = b.item()
    except Exception:
        pass
    if isinstance(a, float) and isinstance(b, float) and a != a and b != b:
        return True
    if isinstance(a, float) or isinstance(b, float):
        try:
            return abs(float(a) - float(b)) <= 1e-9 * max(1.0, abs(float(a)), abs(float(b)))
        except Exception:
            return False
    if isinstance(a, dict) and isinstance(b, dict):
        return set(a) == set(b) and all(py_equal(a[k], b[k]) for k in a)
    if isinstance(a, (list, tuple)) and isinstance(b, (list, tuple)):
        return type(a) is type(b) and len(a) == len(b) and all(py_equal(x, y) for x, y in zip(a, b))
    if isinstance(a, slice) and isinstance(b, slice):
        return (a.start, a.stop, a.step) == (b.start, b.stop, b.step)
    if type(a) is type(b) and hasattr(type(a), '__slots__') and not isinstance(a, (str, int, float, tuple)):
        return all(py_equal(getattr(a, k, None), getattr(b, k, None)) for k in type(a).__slots__)
    if isinstance(a, BaseException) and type(a) is type(b):
        return True
    if (type(a).__name__ in ('Closure', 'MethodClosure') and callable(b)) or (type(b).__name__ in ('Closure', 'MethodClosure') and callable(a)):
        return getattr(a, 'name', getattr(a, '__name__', None)) == getattr(b, 'name', getattr(b, '__name__', None))
    if _is_nd(a) and _is_nd(b):
        return type(a) is type(b) and a.shape == b.shape and all(py_equal(x, y) for x, y in zip(a.ravel().tolist(), b.ravel().tolist()))
    if type(a) is type(b) and hasattr(a, '__dict__') and not isinstance(a, (type, str, int, float, tuple, NativeOpaque, NativeFn)) \
            and type(a).__eq__ is object.__eq__ and (type(a).__module__ or '').split('.')[0] in ('formulas', 'contracts'):
        # instances of repository classes without their own __eq__: compared by their fields
        return set(vars(a)) == set(vars(b)) and all(py_equal(vars(a)[k], vars(b)[k]) for k in vars(a))
    if isinstance(a, NativeOpaque) or isinstance(b, NativeOpaque):
        return a is b
    if isinstance(a, NativeFn) and isinstance(b, NativeFn):
        return a.name == b.name
    try:
        import numpy as np
        if isinstance(a, np.ndarray) and isinstance(b, np.ndarray):
            return a.shape == b.shape and all(py_equal(x, y) for x, y in zip(a.ravel().tolist(), b.ravel().tolist()))
    except Exception:
        pass
    try:
        return type(a) is type(b) and bool(a == b) or (a is b)
    except Exception:
        return a is b


class _Sig:
    pass


def _closure_sig(fn):
    import ast as _ast
    c = _Sig()
    c.node = closure_of_code(fn)
    return c


def closure_of_code(fn):
    from .interp import func_ast
    return func_ast(fn)


def call_args(closure, args):
    """Split the contract's parameter dict into positional / keyword arguments following the
    signature (*args and **kwargs parameters are expanded)."""
    a = closure.node.args
    pos, kws = [], {}
    names = [x.arg for x in a.posonlyargs + a.args]
    for n in names:
        if n in args:
            kws[n] = args[n]
    if a.posonlyargs or a.vararg:
        pos = [kws.pop(n) for n in names if n in kws]
        if a.vararg and a.vararg.arg in args:
            pos.extend(args[a.vararg.arg])
    for ka in a.kwonlyargs:
        if ka.arg in args:
            kws[ka.arg] = args[ka.arg]
    if a.kwarg and a.kwarg.arg in args:
        kws.update(args[a.kwarg.arg])
    return pos, kws


def with_cells(fn, cellvals):
    """A copy of python function `fn` whose free variables named in cellvals are rebound."""
    import types as _types
    if not cellvals:
        return fn
    cells = []
    for name, cell in zip(fn.__code__.co_freevars, fn.__closure__ or ()):
        cells.append(_types.CellType(cellvals[name]) if name in cellvals else cell)
    g = _types.FunctionType(fn.__code__, fn.__globals__, fn.__name__, fn.__defaults__, tuple(cells))
    g.__kwdefaults__ = fn.__kwdefaults__
    return g


class NativeBudgetExceeded(Exception):
    """The real function executed more than NATIVE_LINE_BUDGET lines on a replayed input (it does not terminate, or not soon)."""


NATIVE_LINE_BUDGET = 3_000_000


def _budget_tracer(budget):
    left = [budget]

    def local(frame, event, arg):
        if event == 'line':
            left[0] -= 1
            if left[0] < 0:
                raise NativeBudgetExceeded('more than %d lines executed' % budget)
        return local

    def tracer(frame, event, arg):
        return local
    return tracer


def run_native(fn, args, cells=()):
    """Run the real function on concrete arguments (a copy).  The run is bounded by a line budget (a per-thread trace
    function): a changed tree may loop forever on a replayed input, and the check must still end."""
    import sys
    args = copy.deepcopy(args)
    prev = sys.gettrace()
    try:
        fn = with_cells(fn, {k: args[k] for k in cells})
        pos, kws = call_args(closure_of(fn) if not cells else _closure_sig(fn), args)
        if prev is None:
            sys.settrace(_budget_tracer(NATIVE_LINE_BUDGET))
        try:
            r = fn(*pos, **kws)
            if inspect.isgenerator(r):
                r = list(r)
        finally:
            if prev is None:
                sys.settrace(None)
        return ('return', r), args
    except NativeBudgetExceeded as ex:
        return ('raise', ex), args
    except Exception as ex:
        return ('raise', ex), args


def concolic_check(con, rec):
    """Run the real function on one model of the path and compare with the symbolic outcome.
    Returns ('ok'|'skipped'|'mismatch', detail)."""
    if rec.outcome is None or rec.outcome[0] in ('unsupported', 'cut'):
        return 'skipped', 'outcome %s' % (rec.outcome and rec.outcome[0],)
    if getattr(con, 'no_native', False):
        return 'skipped', 'ghost state (clock): no concrete replay'
    env, r = model_env(rec.pc + rec.axioms, extra_vars=list(input_vars(rec.args_in).values()))
    if env is None and r['verdict'] != 'unsat':
        # the axioms only constrain uninterpreted symbols, which are evaluated by their real interpretation below:
        # a model of the path condition alone is as good a test input (it is re-checked against the path)
        light = [t for t in rec.pc if not any(x.op == 'app' for x in tm.subterms(t))]
        env, r = model_env(light, extra_vars=list(input_vars(rec.args_in).values()), solvers=('z3', 'cvc5f', 'cvc5'))
    if env is None:
        return 'skipped', 'no model (%s)' % r['verdict']
    for v in input_vars(rec.args_in).values():
        env.setdefault(v.val, default_value(v.sort))
    snap_floats(env)
    for t in rec.pc:
        h = holds(t, env)
        if h is False:
            return 'skipped', 'model does not satisfy the path under the real interpretation of dec/undec'
        if h is None:
            return 'skipped', 'path condition not evaluable'
    try:
        cargs = concretize(rec.args_in, env)
    except tm.EvalError as ex:
        return 'skipped', 'args not evaluable: %s' % ex
    outcome, after = run_native(con.fn, cargs, tuple(con.cells))
    kind = rec.outcome[0]
    if kind == 'raise':
        if outcome[0] != 'raise' or not isinstance(outcome[1], rec.outcome[1].cls):
            return 'mismatch', 'engine: raise %s; CPython: %r on %r' % (rec.outcome[1].cls.__name__, outcome, cargs)
        return 'ok', None
    if outcome[0] == 'raise':
        return 'mismatch', 'engine: return; CPython raised %r on %r' % (outcome[1], cargs)
    try:
        expect = concretize(rec.outcome[1], env)
        expect_args = concretize(rec.args, env)
    except tm.EvalError as ex:
        return 'skipped', 'result not evaluable: %s' % ex
    if not py_equal(expect, outcome[1]):
        return 'mismatch', 'engine result %r; CPython %r on %r' % (expect, outcome[1], cargs)
    if not py_equal(expect_args, after):
        return 'mismatch', 'engine final args %r; CPython %r on %r' % (expect_args, after, cargs)
    return 'ok', None


# ---------------------------------------------------------------------------------------
# native evaluation of a contract on concrete arguments (replay, bounded stages)

def native_check(con, cargs, clause_name=None):
    """Evaluate the contract natively.  Returns dict(pre, outcome, failed=[clause names])."""
    pre = True
    if con.requires_fn:
        kw = {p: cargs[p] for p in inspect.signature(con.requires_fn).parameters}
        try:
            pre = bool(con.requires_fn(**copy.deepcopy(kw)))
        except Exception as ex:
            pre = False
    res = dict(pre=pre, failed=[], outcome=None)
    if not pre:
        return res
    old = copy.deepcopy(cargs)
    outcome, after = run_native(con.fn, cargs, tuple(con.cells))
    res['outcome'] = outcome
    res['after'] = after

    def kwargs_for(cl, exc=None):
        kw = {}
        for p in cl.params:
            if p == 'result':
                kw[p] = outcome[1]
            elif p == 'old':
                kw[p] = old
            elif p == 'exc':
                kw[p] = exc
            else:
                kw[p] = after[p] if exc is None else old[p]
        return kw
    if outcome[0] == 'return':
        for cl in con.clauses:
            if clause_name and cl.name != clause_name:
                continue
            try:
                ok = bool(cl.fn(**kwargs_for(cl)))
            except Exception as ex:
                ok = False
            if not ok:
                res['failed'].append(cl.name)
        for p in con.params:
            if p not in con.frame and not py_equal(after[p], old[p]):
                if not clause_name or clause_name == 'frame:' + p:
                    res['failed'].append('frame:' + p)
    else:
        exc = outcome[1]
        matched = False
        for cls, cl in con.raise_clauses:
            if isinstance(exc, cls):
                matched = True
                try:
                    ok = bool(cl.fn(**kwargs_for(cl, exc)))
                except Exception:
                    ok = False
                if not ok:
                    res['failed'].append(cl.name)
        if not matched:
            res['failed'].append('no-exception')
    return res
