"""Bounded stand-in stages: native execution of the real code against the same spec functions,
over an enumerated / sampled scope with a stated bound.  Labelled `bounded` everywhere; their
counts never enter obligations/discharged."""
import itertools
import multiprocessing as mp
import os
import random
import time
import traceback

from . import codec


_CURRENT = None
_CASES = None
_TIMEOUTS = mp.Value('i', 0)      # cases of the running stage that did not terminate (shared with the forked workers)


def _worker(span):
    # cases are inherited through fork (they may hold unpicklable sentinels); only indices travel
    lo, hi = span
    out = _CURRENT._run_chunk(_CASES[lo:hi])
    return [(lo + _index_of(_CASES, lo, hi, c), d) for c, d in out]


def _index_of(cases, lo, hi, c):
    for k in range(lo, hi):
        if cases[k] is c:
            return k - lo
    return 0


def _cap_memory():
    from .driver import _cap_memory as cap
    cap()


class _CaseTimeout(BaseException):
    pass


class Stage:
    """cases(tier, rng) -> iterable of cases (codec-encodable python values)
    check(case)      -> None when the property holds on the case, else a short description
    classify(case, detail) -> id of a known finding (listed in known_findings.json) or None
    nontrivial(case) -> bool
    """

    def __init__(self, name, prop, cases, check, bound, classify=None, nontrivial=None,
                 parallel=True, exhaustive=False, assumptions=(), max_report=5, weight=None,
                 exact_file=None, exact_applies=None, case_key=None, case_timeout=30.0):
        self.name, self.prop, self.cases, self.check = name, prop, cases, check
        self.bound, self.classify, self.nontrivial = bound, classify, nontrivial
        self.parallel, self.exhaustive = parallel, exhaustive
        self.assumptions = list(assumptions)
        self.max_report = max_report
        self.weight = weight
        # exhaustively enumerated cases: a failing case counts as a known finding only if it is one of the
        # inputs committed in `exact_file` ({finding id: [case keys]}; never written by a check)
        self.exact_file, self.exact_applies = exact_file, exact_applies or (lambda case: True)
        self.case_key = case_key or repr
        self._exact = None
        self.case_timeout = case_timeout      # seconds per case: a case that does not terminate is reported, the check does not hang

    def _run_chunk(self, chunk):
        import signal
        import threading
        out = []
        limit = self.case_timeout
        use_alarm = limit and threading.current_thread() is threading.main_thread() and hasattr(signal, 'setitimer')

        def on_alarm(signum, frame):
            raise _CaseTimeout()
        if use_alarm:
            old = signal.signal(signal.SIGPROF, on_alarm)   # CPU time of this worker, not wall clock: a busy machine must not flip a verdict
        timeouts = 0
        try:
            for case in chunk:
                if timeouts >= 3 or _TIMEOUTS.value >= 6:
                    break       # the code under test hangs: a few reported cases are enough, the check must end
                try:
                    if use_alarm:
                        signal.setitimer(signal.ITIMER_PROF, limit)
                    d = self.check(case)
                except _CaseTimeout:
                    d = 'did not terminate within %g s of CPU time' % limit
                    timeouts += 1
                    with _TIMEOUTS.get_lock():
                        _TIMEOUTS.value += 1
                except MemoryError:
                    d = 'ran out of memory'
                    timeouts += 1
                except Exception as ex:
                    d = 'check raised %s: %s' % (type(ex).__name__, str(ex)[:200])
                finally:
                    if use_alarm:
                        signal.setitimer(signal.ITIMER_PROF, 0)
                if d is not None:
                    out.append((case, d))
        finally:
            if use_alarm:
                signal.signal(signal.SIGPROF, old)
        return out

    def run(self, tier, seed, known):
        rng = random.Random(seed)
        _TIMEOUTS.value = 0
        cases = list(self.cases(tier, rng))
        n = len(cases)
        seen = set()
        nontriv = 0
        for c in cases:
            k = repr(c)
            if k in seen:
                continue
            seen.add(k)
            if self.nontrivial is None or self.nontrivial(c):
                nontriv += 1
        fails = []
        if self.parallel and (n > 2000 or self.weight):
            jobs = min(16, os.cpu_count() or 4)
            size = max(1, (n + jobs * 4 - 1) // (jobs * 4))
            spans = [(i, min(i + size, n)) for i in range(0, n, size)]
            global _CURRENT, _CASES
            _CURRENT, _CASES = self, cases
            with mp.get_context('fork').Pool(jobs, initializer=_cap_memory) as pool:
                for part in pool.imap_unordered(_worker, spans):
                    fails.extend((cases[i], d) for i, d in part)
        else:
            fails = self._run_chunk(cases)
        known_ids = {k['id']: k for k in known if self.name in k.get('stages', [])}
        if self.weight:
            total = sum(self.weight(c) for c in cases)
            nontriv = total if nontriv == len(seen) else nontriv
            n_eval = total
        else:
            n_eval = n
        res = dict(name=self.name, bound=self.bound, evaluations=n_eval, distinct_nontrivial=nontriv,
                   violations=[], known=[], assumptions=self.assumptions, exhaustive=self.exhaustive,
                   samples=[codec.enc(c) for c in cases[:3]])
        for case, d in fails:
            fid = self.classify(case, d) if self.classify else None
            if fid is not None and self.exact_file and self.exact_applies(case):
                if self.case_key(case) not in self.exact_set().get(fid, ()):
                    fid = None
            if fid is not None and fid in known_ids:
                if fid not in [k['id'] for k in res['known']]:
                    res['known'].append(known_ids[fid])
                continue
            if len(res['violations']) < self.max_report:
                res['violations'].append(dict(obligation='%s/%s' % (self.name, _short(case)), stage=self.name,
                                              kind='bounded', status='replayed', args=codec.enc(case),
                                              observed=d, contract=None, clause=self.name,
                                              solver_output='bounded stage (native execution)'))
        res['failures'] = len(fails)
        return res

    def exact_set(self):
        if self._exact is None:
            import json
            fn = os.path.join(os.path.dirname(__file__), '..', self.exact_file)
            self._exact = {k: set(v) for k, v in json.load(open(fn)).items()} if os.path.exists(fn) else {}
        return self._exact

    def replay(self, v):
        case = codec.dec(v['args'])
        r = self._run_chunk([case])
        d = r[0][1] if r else None
        return d is None, 'case %r -> %s' % (case, d or 'ok')

    def witness_fails(self, k):
        case = codec.dec(k['witness'])
        return bool(self._run_chunk([case]))


def _short(case):
    s = repr(case)
    return s if len(s) <= 80 else s[:77] + '...'
