"""JSON codec for concrete Python values that occur as arguments/results."""


def enc(v):
    import schedula as sh
    from formulas.tokens.operand import XlError
    if v is None or isinstance(v, (bool, int, str)) and not isinstance(v, XlError):
        if isinstance(v, str) and type(v) is not str:
            return {'$str': str(v), '$type': type(v).__name__}
        return v
    if isinstance(v, XlError):
        return {'$err': str(v)}
    if isinstance(v, float):
        if v != v:
            return {'$float': 'nan'}
        if v in (float('inf'), float('-inf')):
            return {'$float': 'inf' if v > 0 else '-inf'}
        return {'$float': repr(v)}
    if v is sh.EMPTY:
        return {'$sh': 'EMPTY'}
    if v is sh.NONE:
        return {'$sh': 'NONE'}
    if isinstance(v, tuple):
        return {'$tuple': [enc(x) for x in v]}
    if isinstance(v, list):
        return [enc(x) for x in v]
    if isinstance(v, dict):
        if all(type(k) is str and not k.startswith('$') for k in v):
            return {k: enc(x) for k, x in v.items()}
        return {'$dict': [[enc(k), enc(x)] for k, x in v.items()]}
    if isinstance(v, slice):
        return {'$slice': [enc(v.start), enc(v.stop), enc(v.step)]}
    try:
        import numpy as np
        if isinstance(v, np.ndarray):
            return {'$ndarray': enc(v.tolist())}
        if isinstance(v, np.generic):
            return enc(v.item())
    except Exception:
        pass
    cls = type(v)
    if (getattr(cls, '__module__', '') or '').startswith('formulas') and not isinstance(v, BaseException):
        names = []
        for k in cls.__mro__:
            names.extend(getattr(k, '__slots__', ()))
        names.extend(getattr(v, '__dict__', {}).keys())
        return {'$obj': '%s:%s' % (cls.__module__, cls.__qualname__),
                'fields': {n: enc(getattr(v, n)) for n in names if hasattr(v, n)}}
    return {'$repr': repr(v)[:300]}


def dec(v):
    import schedula as sh
    from formulas.tokens.operand import Error
    if isinstance(v, list):
        return [dec(x) for x in v]
    if isinstance(v, dict):
        if '$err' in v:
            return Error.errors[v['$err']]
        if '$float' in v:
            return float(v['$float'])
        if '$sh' in v:
            return getattr(sh, v['$sh'])
        if '$tuple' in v:
            return tuple(dec(x) for x in v['$tuple'])
        if '$dict' in v:
            return {dec(k): dec(x) for k, x in v['$dict']}
        if '$slice' in v:
            return slice(*[dec(x) for x in v['$slice']])
        if '$ndarray' in v:
            import numpy as np
            return np.asarray(dec(v['$ndarray']), object)
        if '$str' in v:
            return v['$str']
        if '$obj' in v:
            import importlib
            mod, _, qn = v['$obj'].partition(':')
            cls = importlib.import_module(mod)
            for part in qn.split('.'):
                cls = getattr(cls, part)
            o = cls.__new__(cls)
            for k, x in v['fields'].items():
                object.__setattr__(o, k, dec(x))
            return o
        if '$repr' in v:
            return v['$repr']
        return {k: dec(x) for k, x in v.items()}
    return v
