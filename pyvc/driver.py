"""Driver: ./check <ID> --tier quick|thorough   |   ./check --replay <file>

Exit codes (DESIGN §3): 0 no violation; 1 VIOLATION line(s); 2 undecided with nothing explored;
3 checker error (vacuity, engine/CPython mismatch, canary not refuted, solver disagreement).
"""
import argparse
import concurrent.futures as cf
import copy
import glob
import importlib
import inspect
import json
import multiprocessing as mp
import os
import re
import random
import sys
import time
import traceback

ROOT = os.path.realpath(os.path.join(os.path.dirname(__file__), '..'))
OUTDIR = os.environ.get('VERIF_OUTDIR', ROOT)       # evidence / replay files (the mutation tooling redirects them)
sys.path.insert(0, ROOT)

from . import terms as tm          # noqa: E402
from . import solve                # noqa: E402
from . import contract as C        # noqa: E402
from . import codec                # noqa: E402
from .values import Unsupported, SpecError   # noqa: E402

SOLVER_ORDER = {
    'default': ('z3', 'cvc5e', 'z3old'),
    'strings': ('cvc5', 'z3', 'z3old'),
    'strings2': ('z3', 'cvc5', 'z3old'),
    'regex': ('z3', 'z3old', 'cvc5'),
}


def load_modules():
    mods = []
    for fn in sorted(glob.glob(os.path.join(ROOT, 'contracts', 'c[0-9][0-9]_*.py'))):
        name = 'contracts.' + os.path.basename(fn)[:-3]
        mods.append(importlib.import_module(name))
    return mods


def registry(mods):
    out = []
    for m in mods:
        out.extend(getattr(m, 'CONTRACTS', []))
    return out


def load_known():
    p = os.path.join(ROOT, 'known_findings.json')
    if not os.path.exists(p):
        return {'findings': [], 'fixed': []}
    with open(p) as f:
        return json.load(f)


# ---------------------------------------------------------------------------------------
# one contract = one worker task

def obligation_script(ob, extra=()):
    return solve.script(ob.hyps + list(extra) + [tm.mk_not(ob.goal)])


def discharge(ob, tier, timeout, extra=()):
    """-> dict(verdict, solver, seconds, log)"""
    theory = ob.meta.get('theory')
    if theory is None:
        theory = 'default'
        seen = set()
        for h in ob.hyps + [ob.goal]:
            if any(x.sort == tm.STR for x in tm.subterms(h, seen)):
                theory = 'strings2'
                break
    order = SOLVER_ORDER[theory]
    if ob.goal.is_const and ob.goal.val is False and ob.kind == 'U':
        return dict(verdict='unsupported', solver=None, seconds=0.0, log=[])
    asserts = inst_hyps(ob) + list(extra) + [tm.mk_not(ob.goal)]
    if theory == 'strings2':
        # regular constraints over one string variable: decided by the automata back end (regauto)
        from . import regauto
        t0 = time.time()
        try:
            ra = regauto.decide(asserts)
        except RecursionError:
            ra = None
        if ra is not None:
            dt = time.time() - t0
            ra_res = dict(verdict=ra[0], solver='regauto', seconds=dt, log=[('regauto', ra[0], round(dt, 3))], model=ra[1])
            if not (tier == 'thorough' and ob.kind != 'canary'):
                return ra_res
    else:
        ra = None
    if tier == 'thorough' and ob.kind != 'canary':
        res = None
        logs = []
        if ra is not None:      # thorough: the SMT solvers are asked as well; a definite answer that differs is a checker error
            res, logs = ra_res, list(ra_res['log'])
        for s in order:
            r = solve.check(asserts, solvers=(s,), timeout=timeout)
            logs.extend(r['log'])
            if r['verdict'] in ('sat', 'unsat'):
                if res is None:
                    res = r
                elif res['verdict'] != r['verdict']:
                    return dict(verdict='disagreement', solver=None, seconds=0.0, log=logs)
        if res is None:
            # nobody answered within the budget (a loaded machine): one patient retry before the obligation is left undecided
            for s in order:
                r = solve.check(asserts, solvers=(s,), timeout=timeout * 6)
                logs.extend(r['log'])
                if r['verdict'] in ('sat', 'unsat'):
                    res = r
                    break
        if res is None:
            return dict(verdict=logs[-1][1] if logs else 'error', solver=None,
                        seconds=sum(x[2] for x in logs), log=logs)
        return dict(verdict=res['verdict'], solver=res['solver'], seconds=res['seconds'], log=logs)
    if theory == 'strings2':
        r = solve.check_race(asserts, solvers=('z3', 'cvc5'), timeout=timeout)
    else:
        r = solve.check(asserts, solvers=order, timeout=timeout)
    if r['verdict'] not in ('sat', 'unsat') and not getattr(discharge, '_no_retry', False):
        # no answer within the budget (a loaded machine, an unlucky solver seed): one patient retry, every solver in turn,
        # before the obligation is reported undecided - verdicts must not flip with the load
        seq = tuple(dict.fromkeys(tuple(order) + ('z3', 'cvc5', 'z3old')))
        r2 = solve.check(asserts, solvers=seq, timeout=timeout * 6)
        r2['log'] = list(r['log']) + list(r2['log'])
        if r2['verdict'] in ('sat', 'unsat'):
            r = r2
    if r['verdict'] not in ('sat', 'unsat') and os.environ.get('VERIF_DUMP'):
        os.makedirs(os.environ['VERIF_DUMP'], exist_ok=True)
        fn = os.path.join(os.environ['VERIF_DUMP'], re.sub(r'[^A-Za-z0-9_.#-]+', '_', ob.name)[:150] + '.smt2')
        open(fn, 'w').write(solve.script(asserts))
    return dict(verdict=r['verdict'], solver=r['solver'], seconds=r['seconds'], log=r['log'])


def inst_hyps(ob):
    """Hypotheses with callee-contract foralls instantiated at the goal's skolem witnesses."""
    w = ob.meta.get('witnesses') or []
    if not w:
        return list(ob.hyps)
    return [tm.instantiate_foralls(h, w) if tm.has_quantifier(h) else h for h in ob.hyps]


def counterexample_candidates(con, ob, limit=20000):
    """Contracts over symbolic-length sequences: the solver's model (arrays, uninterpreted kinds) is not turned into an input;
    instead the contract's own enumeration of small concrete inputs is replayed on the real code."""
    gen = getattr(con, 'replay_candidates', None)
    clause = ob.meta.get('clause')
    if gen is None or ob.kind == 'S':
        return 'no-failing-input-found', None, None, 'no model-to-input translation for this obligation'
    n = 0
    for cargs in gen():
        n += 1
        if n > limit:
            break
        nat = C.native_check(con, cargs, None)
        if nat['pre'] and (clause in nat['failed'] or (clause == 'no-exception' and 'no-exception' in nat['failed'])):
            return 'replayed', cargs, nat, 'replayed candidate %d of the contract\'s enumeration' % n
    return 'no-failing-input-found', None, None, '%d candidate inputs replayed, none fails the clause' % n


def counterexample(con, ob, extra=(), tries=4):
    """Try to turn a refuted obligation into concrete arguments on which the contract fails
    natively.  -> (status, cargs, native_result, solver_output)"""
    rec = ob.meta['record']
    if getattr(con, 'no_native', False):
        r = solve.check(inst_hyps(ob) + list(extra) + [tm.mk_not(ob.goal)], solvers=('z3', 'cvc5'), timeout=10.0)
        return 'no-failing-input-found', None, None, r.get('output', '')[:4000]
    ivars = list(C.input_vars(rec.args_in).values())
    block = []
    last_out = ''
    clause = ob.meta.get('clause')
    for _ in range(tries):
        env, r = C.model_env(inst_hyps(ob) + list(extra) + [tm.mk_not(ob.goal)] + block, extra_vars=ivars,
                             solvers=('z3', 'cvc5f', 'cvc5'), timeout=10.0)
        last_out = r.get('output', '')[:4000]
        if env is None:
            break
        for v in ivars:
            env.setdefault(v.val, C.default_value(v.sort))
        C.snap_floats(env)
        try:
            cargs = C.concretize(rec.args_in, env)
        except tm.EvalError:
            break
        nat = C.native_check(con, cargs, None)
        if nat['pre'] and clause in nat['failed'] or (nat['pre'] and clause == 'no-exception' and 'no-exception' in nat['failed']):
            return 'replayed', cargs, nat, last_out
        if nat['pre'] and nat['failed'] and clause is None:
            return 'replayed', cargs, nat, last_out
        # block this assignment of the inputs and try another model
        diffs = []
        for v in ivars:
            val = env[v.val]
            if v.sort in ('Int', 'Bool', 'String'):
                diffs.append(tm.mk_ne(v, tm.const(val)))
        if not diffs:
            break
        block.append(tm.mk_or(*diffs))
    return 'no-failing-input-found', None, None, last_out


def verify_task(payload):
    """Runs in a worker process.  Returns a JSON-able summary for one contract."""
    modname, cname, tier, seed, known = payload
    t0 = time.time()
    mods = load_modules()
    reg = registry(mods)
    con = next(c for c in reg if c.name == cname)
    out = dict(contract=cname, prop=con.prop, obligations=[], paths=0, concolic={}, errors=[],
               violations=[], known=[], undecided=[], canaries={}, source=None, assumptions=[],
               covers={})
    try:
        out['source'] = con.source_info()
    except Exception as ex:
        out['errors'].append('cannot locate source of %s: %r' % (cname, ex))
        out['fatal'] = 'missing'
        return out
    try:
        recs, obs = C.verify_contract(con, reg)
    except (Unsupported, SpecError) as ex:
        out['errors'].append('%s: %s: %s' % (cname, type(ex).__name__, ex))
        out['fatal'] = 'unsupported' if isinstance(ex, Unsupported) else 'spec'
        return out
    except Exception as ex:
        out['errors'].append('%s: engine crash: %s' % (cname, traceback.format_exc()[-1500:]))
        out['fatal'] = 'crash'
        return out
    out['paths'] = len(recs)
    out['explore_s'] = round(time.time() - t0, 2)
    timeout = getattr(con, 'timeout', 10.0) * (2 if tier == 'thorough' else 1)
    regions = {}
    for k in known:
        for site in k.get('sites', []):
            if site.get('contract') == cname:
                regions.setdefault(k['id'], dict(k, clause=site['clause']))
    # discharge + triage of refutations (threads: the work is in solver subprocesses)
    assumptions = set()
    for rec in recs:
        assumptions |= set(rec.ghost.get('assumptions', ()))
        for u in rec.ghost.get('used_contracts', ()):
            assumptions.add('callee by contract: %s' % u)
    out['assumptions'] = sorted(assumptions)

    def process(ob):
        """-> (entry | None, canary verdict | None, undecided | None, violation | None, known ids, errors)"""
        r = discharge(ob, tier, timeout)
        ob.result = r
        entry = dict(name=ob.name, kind=ob.kind, verdict=r['verdict'], solver=r['solver'],
                     seconds=round(r['seconds'], 3), log=r['log'])
        if ob.kind == 'canary':
            return None, r['verdict'], None, None, [], []
        if r['verdict'] == 'unsat':
            return entry, None, None, None, [], []
        if r['verdict'] == 'disagreement':
            return entry, None, None, None, [], ['solver disagreement on %s: %s' % (ob.name, r['log'])]
        if r['verdict'] == 'unsupported':
            entry['reason'] = ob.meta.get('reason')
            return entry, None, dict(name=ob.name, reason='unsupported: %s' % ob.meta.get('reason')), None, [], []
        if r['verdict'] != 'sat':
            return entry, None, dict(name=ob.name, reason='solver: %s %s' % (r['verdict'], r['log'])), None, [], []
        clause = ob.meta.get('clause')
        listed = [k for k in regions.values() if k.get('clause') == clause]
        extra = []
        if listed:
            try:
                for k in listed:
                    extra.append(tm.mk_not(region_term(con, ob, con.regions[k['id']])))
                r2 = discharge(ob, 'quick', timeout, extra)
            except Exception as ex:
                return entry, None, None, None, [], ['region evaluation failed for %s: %r' % (ob.name, ex)]
            entry['outside_known_regions'] = r2['verdict']
            if r2['verdict'] == 'unsat':
                entry['verdict'] = 'unsat-outside-known-regions'
                return entry, None, None, None, listed, []
            if r2['verdict'] != 'sat':
                return entry, None, dict(name=ob.name, reason='outside known regions: %s' % r2['verdict']), None, [], []
        havoc = bool(ob.meta.get('loop') or ob.meta['record'].ghost.get('havoc'))
        if getattr(con, 'replay_candidates', None) is not None or havoc:
            status, cargs, nat, sout = counterexample_candidates(con, ob)
        else:
            status, cargs, nat, sout = counterexample(con, ob, extra)
        if havoc and ob.kind != 'S' and status != 'replayed':
            # refuted from a havocked loop state, which need not be reachable: without a concrete input on which the real
            # code fails the clause this is a proof that no longer goes through, not a demonstrated violation
            entry['verdict'] = 'refuted-after-havoc'
            return entry, None, dict(name=ob.name, reason='PROOF-BROKEN clause refuted from a loop-invariant state and no candidate input '
                                     'replays it (invariant no longer inductive or too weak for this code)', proof_broken=True), None, [], []
        if ob.kind == 'S':
            entry['verdict'] = 'refuted-supporting'
            return entry, None, dict(name=ob.name, reason='PROOF-BROKEN supporting obligation refuted (%s)' % status,
                                     proof_broken=True, args=codec.enc(cargs) if cargs else None), None, [], []
        viol = dict(obligation=ob.name, contract=cname, clause=clause, status=status,
                    args=codec.enc(cargs) if cargs is not None else None,
                    observed=codec.enc(describe_native(nat)) if nat else None,
                    solver_output=sout, source=out['source'])
        return entry, None, None, viol, [], []

    with cf.ThreadPoolExecutor(max_workers=getattr(con, 'threads', 8)) as pool:
        futs = [(ob, pool.submit(process, ob)) for ob in obs]
        cfuts = [(rec, pool.submit(_concolic, con, rec)) for rec in recs]
        for ob, f in futs:
            base = ob.name.split('#p')[0]
            try:
                entry, canary, und, viol, kn, errs = f.result()
            except Exception as ex:
                out['errors'].append('triage crashed on %s: %s' % (ob.name, traceback.format_exc()[-800:]))
                continue
            if canary is not None:
                out['canaries'].setdefault(base, []).append(canary)
            if entry:
                out['obligations'].append(entry)
            if und:
                out['undecided'].append(und)
            if viol:
                out['violations'].append(viol)
            for k in kn:
                if k['id'] not in [x['id'] for x in out['known']]:
                    out['known'].append(k)
            out['errors'].extend(errs)
        cc = {}
        for rec, f in cfuts:
            k, d = f.result()
            cc[k] = cc.get(k, 0) + 1
            if k == 'mismatch':
                out['errors'].append('engine/CPython mismatch in %s: %s' % (cname, d))
        out['concolic'] = cc
    # contracts over symbolic-length sequences have no concolic cross-check (their paths start from havocked states); instead
    # the contract's own enumeration of small concrete inputs is run on the real code and every clause evaluated natively:
    # a clause failing there is a violation with a concrete input, whatever the proof says
    gen = getattr(con, 'replay_candidates', None)
    if gen is not None:
        n_c = 0
        for cargs in gen():
            n_c += 1
            nat = C.native_check(con, cargs, None)
            if nat['pre'] and nat['failed']:
                kinds = {cl.name: cl.kind for cl in con.clauses}
                kinds.update({cl.name: cl.kind for _, cl in con.raise_clauses})
                bad = [f for f in nat['failed'] if kinds.get(f, 'P') == 'P']
                if bad and not any(v.get('clause') == bad[0] and v.get('status') == 'replayed' for v in out['violations']):
                    out['violations'].append(dict(obligation='%s/%s' % (cname, bad[0]), contract=cname, clause=bad[0], status='replayed',
                                                  args=codec.enc(cargs), observed=codec.enc(describe_native(nat)),
                                                  solver_output='native run of candidate input %d' % n_c, source=out['source']))
                    break
        out['concolic'] = dict(out['concolic'])
        out['concolic']['native-candidates-ok'] = n_c
        out['assumptions'] = sorted(set(out['assumptions']) | {
            'paths through a loop invariant are not cross-checked concolically; %d small concrete inputs are run on the real code '
            'against the same clauses instead (bounded)' % n_c})
    # canaries must be refuted on at least one path
    # (a canary is judged only when every path stayed inside the supported subset: where a path of a changed body left it,
    # the contract is reported undecided and the path on which the canary would have failed may be the missing one)
    all_supported = not any(rec.outcome and rec.outcome[0] == 'unsupported' for rec in recs)
    for base, vs in out['canaries'].items():
        if 'sat' not in vs and all_supported:
            out['errors'].append('canary %s was not refuted (%s): the pipeline cannot fail' % (base, vs))
    # a canary without obligation is a checker error only if the contract had a return path the engine supports:
    # when every path left the supported subset the contract is undecided (reported above), not the pipeline broken
    returned = any(rec.outcome and rec.outcome[0] == 'return' for rec in recs)
    for cl in con.canaries:
        if returned and not any(b.endswith('/' + cl.name) for b in out['canaries']):
            out['errors'].append('canary %s produced no obligation' % cl.name)
    out['wall_s'] = round(time.time() - t0, 2)
    out['solver_s'] = round(sum(o['seconds'] for o in out['obligations']), 3)
    return out


def _concolic(con, rec):
    try:
        return C.concolic_check(con, rec)
    except Exception as ex:
        return 'skipped', 'concolic crashed: %r' % ex


def region_term(con, ob, fn):
    """Bool term of a known-finding region predicate over the contract's inputs on ob's path."""
    from .interp import Ctx, Interp
    from .contract import Explorer
    rec = ob.meta['record']
    ctx = Ctx(Explorer(), [])
    ctx.pc = list(rec.pc)
    ctx.axioms = list(rec.axioms)
    ctx.counter = 10 ** 6
    interp = Interp(ctx)
    t = con._eval_clause(interp, fn, rec.args_in, None, rec.args_in, mode='assume')
    ob.hyps.extend(a for a in ctx.axioms if a not in ob.hyps)
    return t


def describe_native(nat):
    if nat is None:
        return None
    o = nat.get('outcome')
    d = dict(failed=nat.get('failed'))
    if o:
        d['outcome'] = o[0]
        d['value'] = repr(o[1])[:500]
    return d


# ---------------------------------------------------------------------------------------
# bounded stages, tables

def run_bounded(mod, prop, tier, seed, known):
    out = []
    for stage in getattr(mod, 'BOUNDED', []):
        if stage.prop != prop:
            continue
        t0 = time.time()
        try:
            res = stage.run(tier, seed, known)
        except Exception as ex:
            res = dict(name=stage.name, error='bounded stage crashed: %s' % traceback.format_exc()[-1500:])
        res.setdefault('name', stage.name)
        res['wall_s'] = round(time.time() - t0, 2)
        out.append(res)
    return out


TABLE_TIMEOUT = 300.0          # seconds per table: ground facts run real code natively; a changed tree may not terminate
MEMORY_CAP = 12 << 30          # bytes of address space per child process (a runaway loop must not take the machine down)


def _cap_memory():
    try:
        import resource
        resource.setrlimit(resource.RLIMIT_AS, (MEMORY_CAP, MEMORY_CAP))
    except Exception:
        pass


def _table_child(tab, conn):
    import pickle
    _cap_memory()
    try:
        res = ('ok', tab.run())
        pickle.dumps(res)
    except MemoryError:
        res = ('error', 'table ran out of memory (cap %d GiB)' % (MEMORY_CAP >> 30))
    except Exception:
        res = ('error', traceback.format_exc()[-1500:])
    try:
        conn.send(res)
    except Exception as ex:
        conn.send(('unpicklable', repr(ex)))
    conn.close()


def run_tables(mod, prop):
    """Ground facts, each table in a child process with a time and a memory limit: a table that does not come back is
    undecided (the check itself always terminates)."""
    import multiprocessing as mp
    out = []
    for tab in getattr(mod, 'TABLES', []):
        if tab.prop != prop:
            continue
        ctx = mp.get_context('fork')
        parent, child = ctx.Pipe(duplex=False)
        proc = ctx.Process(target=_table_child, args=(tab, child))
        proc.start()
        child.close()
        res = None
        try:
            if parent.poll(TABLE_TIMEOUT):
                res = parent.recv()
        except (EOFError, OSError):
            res = ('error', 'table process died (killed or out of memory)')
        if res is None:
            res = ('error', 'table did not terminate within %g s' % TABLE_TIMEOUT)
        if proc.is_alive():
            proc.kill()
        proc.join()
        if res[0] == 'unpicklable':
            try:
                res = ('ok', tab.run())      # it terminated in the child: run it here for the (unpicklable) result
            except Exception:
                res = ('error', traceback.format_exc()[-1500:])
        if res[0] == 'ok':
            out.extend(res[1])
        else:
            out.append(dict(name=tab.name, ok=None, kind='P', error=res[1]))
    return out


# ---------------------------------------------------------------------------------------

_CLEARED = set()


def write_replay(prop, viol):
    d = os.path.join(OUTDIR, 'replays', prop)
    os.makedirs(d, exist_ok=True)
    if prop not in _CLEARED:
        _CLEARED.add(prop)
        for fn in glob.glob(os.path.join(d, '*.json')):
            os.remove(fn)
    import hashlib
    safe = ''.join(ch if ch.isalnum() or ch in '._-' else '_' for ch in viol['obligation'])[:110]
    # names that differ only in punctuation (operator[+] / operator[-]) must not share a file
    p = os.path.join(d, '%s_%s.json' % (safe, hashlib.sha1(viol['obligation'].encode()).hexdigest()[:8]))
    with open(p, 'w') as f:
        json.dump(dict(property=prop, **viol), f, indent=1, default=str)
    return os.path.relpath(p, OUTDIR)


def replay(path):
    with open(path if os.path.isabs(path) else os.path.join(ROOT, path)) as f:
        v = json.load(f)
    print('replay of %s  obligation=%s' % (v['property'], v['obligation']))
    if v.get('kind') == 'bounded' or v.get('stage'):
        mods = load_modules()
        for m in mods:
            for st in getattr(m, 'BOUNDED', []):
                if st.name == v.get('stage'):
                    ok, detail = st.replay(v)
                    print(detail)
                    print('STILL-FAILS' if not ok else 'PASSES-NOW')
                    return 1 if not ok else 0
        print('stage not found')
        return 3
    if v.get('args') is None:
        print('no failing input was found for this obligation; solver output follows')
        print(v.get('solver_output', ''))
        return 1
    mods = load_modules()
    reg = registry(mods)
    con = next(c for c in reg if c.name == v['contract'])
    cargs = codec.dec(v['args'])
    nat = C.native_check(con, cargs, None)
    print('function:', con.source_info()['function'], 'args:', cargs)
    print('precondition holds:', nat['pre'], ' outcome:', describe_native(nat))
    if nat['pre'] and nat['failed']:
        print('STILL-FAILS clauses:', nat['failed'])
        return 1
    print('PASSES-NOW')
    return 0


def main(argv=None):
    ap = argparse.ArgumentParser()
    ap.add_argument('prop', nargs='?')
    ap.add_argument('--tier', default=os.environ.get('VERIF_TIER', 'quick'), choices=['quick', 'thorough'])
    ap.add_argument('--replay')
    ap.add_argument('--only', help='comma-separated contract names (debugging)')
    ap.add_argument('--jobs', type=int, default=min(16, os.cpu_count() or 4))
    a = ap.parse_args(argv)
    if a.replay:
        return replay(a.replay)
    if not a.prop:
        ap.error('property id required')
    seed = int(os.environ.get('VERIF_SEED', '0') or 0)
    from .report import run_property
    return run_property(a.prop, a.tier, seed, a.jobs, only=a.only.split(',') if a.only else None)


if __name__ == '__main__':
    sys.exit(main())
