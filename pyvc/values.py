"""Symbolic values: concrete Python type per path, symbolic payload (DESIGN §2.3)."""
from fractions import Fraction
from . import terms as tm


class Unsupported(Exception):
    """The code left the supported subset: the obligation becomes undecided."""


class SpecError(Exception):
    """A contract is ill-formed (e.g. raises while being assumed)."""


class Sym:
    __slots__ = ('t',)
    pytype = object

    def __init__(self, t):
        self.t = t

    def __repr__(self):
        return '%s(%s)' % (type(self).__name__, tm.to_smt(self.t))

    def __bool__(self):
        raise Unsupported('python truth of symbolic value %r' % self)

    def __deepcopy__(self, memo):
        return self

    def __eq__(self, other):
        return isinstance(other, Sym) and type(other) is type(self) and other.t == self.t

    def __hash__(self):
        return hash((type(self).__name__, self.t))


class SInt(Sym):
    pytype = int


class SBool(Sym):
    pytype = bool


class SStr(Sym):
    pytype = str


class SReal(Sym):
    """A python float.  Mode *real*: treated as a mathematical real (declared assumption).  Mode
    *opaque*: `t` is the (exact, rational) value of a finite float and `fin` says whether the float
    is finite; results of arithmetic are uninterpreted (see models.float_op)."""
    __slots__ = ('t', 'fin')
    pytype = float

    def __init__(self, t, fin=None):
        self.t = t
        self.fin = fin

    def __eq__(self, other):
        return isinstance(other, SReal) and other.t == self.t and other.fin == self.fin

    def __hash__(self):
        return hash(('SReal', self.t, self.fin))


class SComplex(Sym):
    """A python complex number produced by float ** float (opaque)."""
    pytype = complex


class SDec(Sym):
    """The string str(n) for the integer term n (canonical decimal text)."""
    pytype = str


class SErr(Sym):
    """One of the XlError singletons; payload = index into ERRORS."""
    pytype = None  # set by interp once formulas is imported


class Obj:
    """Instance of a real Python class with symbolic fields."""

    def __init__(self, cls, fields=None):
        self.cls = cls
        self.fields = fields if fields is not None else {}

    def __repr__(self):
        return '<Obj %s %r>' % (self.cls.__name__, self.fields)


class SymSeq:
    """Immutable-content sequence of symbolic length: (Array Int E, len).  `wrap` maps an
    element term to a value, `mutable` says list vs tuple."""

    def __init__(self, arr, length, wrap, esort, mutable=True, unwrap=None):
        self.arr, self.len, self.wrap, self.esort, self.mutable = arr, length, wrap, esort, mutable
        self.unwrap = unwrap or (lambda v: v.t)

    def __repr__(self):
        return '<SymSeq len=%s>' % tm.to_smt(self.len)


def is_sym(v):
    return isinstance(v, Sym)


def dec_term(ctx, n):
    """String term of str(n): uninterpreted `dec` with per-occurrence axioms."""
    if n.is_const:
        return tm.const(str(n.val))
    t = tm.app('dec', (n,), tm.STR)
    if t not in ctx.dec_seen:
        ctx.dec_seen.add(t)
        ctx.axioms.append(tm.mk_eq(tm.app('undec', (t,), tm.INT), n))
        ctx.axioms.append(tm.mk_implies(
            tm.mk_le(tm.const(0), n),
            tm.T('str.in_re', (t, tm.T('re', (), 'RegLan', DEC_RE)), tm.BOOL)))
        ctx.axioms.append(tm.mk_implies(
            tm.mk_lt(n, tm.const(0)),
            tm.mk_and(tm.T('str.prefixof', (tm.const('-'), t), tm.BOOL),
                      tm.mk_le(tm.const(2), tm.mk_len(t)))))
        ctx.axioms.append(tm.mk_eq(tm.mk_eq(t, tm.const('0')), tm.mk_eq(n, tm.const(0))))
        # consequences of the digit language, stated explicitly to spare the solver a regex derivation
        for ch in ('!', ':'):
            ctx.axioms.append(tm.mk_not(tm.T('str.contains', (t, tm.const(ch)), tm.BOOL)))
        ctx.axioms.append(tm.mk_le(tm.const(1), tm.mk_len(t)))
    return t


DEC_RE = tm.register_re('(re.union (str.to_re "0") (re.++ (re.range "1" "9") (re.* (re.range "0" "9"))))', r'0|[1-9][0-9]*')

REAL_FUNS = {'dec': lambda n: str(n), 'undec': lambda s: int(s), 'upper': lambda s: s.upper()}


class OpaqueVal:
    """An arbitrary python object about which nothing is known (result of an opaque callable)."""

    def __init__(self, name):
        self.name = name

    def __repr__(self):
        return '<opaque %s>' % self.name

    def __deepcopy__(self, memo):
        return self


class OpaqueFn:
    """A callable about which only its possible outcomes are known: it returns an opaque value or raises
    one of `raises` (exception factories).  Calls are recorded (ghost) in `calls`."""

    def __init__(self, name, raises=(), result=None):
        self.name, self.raises, self.result = name, list(raises), result
        self.calls = []        # [(args, kwargs, outcome)]

    def __repr__(self):
        return '<opaque fn %s>' % self.name

    def __deepcopy__(self, memo):
        return self

    def __call__(self, *a, **k):
        raise RuntimeError('engine value')


class ArrVal:
    """np.asarray(nested list, object): a small object array with known (concrete) shape."""

    def __init__(self, rows):
        self.rows = rows

    def __repr__(self):
        return '<ArrVal %r>' % (self.rows,)


class SymSet:
    """A set literal / comprehension whose elements are symbolic: only membership is modelled (``x in s`` is the
    disjunction of the element equalities, which is what a set of hashable values answers whatever duplicates it
    merged).  Size, iteration order and truth value depend on which elements coincide and are not modelled."""
    __slots__ = ('elems',)

    def __init__(self, elems):
        self.elems = tuple(elems)

    def __len__(self):
        raise Unsupported('size of a set of symbolic values')

    def __iter__(self):
        raise Unsupported('iteration over a set of symbolic values')

    def __bool__(self):
        raise Unsupported('truth value of a set of symbolic values')

    def __repr__(self):
        return 'SymSet%r' % (self.elems,)

