"""Symbolic interpreter of Python ASTs (the real /repo sources and the sidecar contracts).

Forking is done by *replay*: a path is identified by its decision sequence; every path is
executed from scratch, so no heap is ever shared between paths (DESIGN §2.3).
"""
import ast
import builtins
import copy
import functools
import inspect
import math
import operator as _op
import os
import string
import sys
import textwrap
import types
from fractions import Fraction

from . import terms as tm
from . import solve
from .values import SymSet  # noqa: E402
from .values import (Sym, SInt, SBool, SStr, SReal, SDec, SErr, Obj, SymSeq, Unsupported,
                     SpecError, dec_term, is_sym, OpaqueFn, OpaqueVal, ArrVal)
from . import dates as _dates  # noqa: F401  (registers datetime / calendar models)


class Infeasible(Exception):
    pass


class PathEnd(Exception):
    """Path deliberately cut (e.g. after the inductive step of a loop)."""


class PyRaise(Exception):
    def __init__(self, exc):
        self.exc = exc  # Obj whose cls is an exception class


class _Return(Exception):
    def __init__(self, v):
        self.v = v


class _Break(Exception):
    pass


class _Continue(Exception):
    pass


# ----------------------------------------------------------------------------------
# source extraction

_FILE_AST = {}


def file_ast(filename):
    r = _FILE_AST.get(filename)
    if r is None:
        with open(filename, 'rb') as f:
            src = f.read()
        tree = ast.parse(src, filename)
        index = {}
        for node in ast.walk(tree):
            if isinstance(node, (ast.FunctionDef, ast.Lambda, ast.ClassDef)):
                index.setdefault((type(node).__name__, node.lineno), []).append(node)
        import hashlib
        r = _FILE_AST[filename] = (tree, index, hashlib.sha256(src).hexdigest(), src.decode())
    return r


def func_ast(f):
    """AST node of a live Python function object, re-read from its file."""
    code = f.__code__
    fn = code.co_filename
    tree, index, _, _ = file_ast(fn)
    if code.co_name == '<lambda>':
        cands = index.get(('Lambda', code.co_firstlineno), [])
        if len(cands) > 1:
            # several lambdas on one line: match by the full parameter list
            def sig(c):
                a = c.args
                return ([x.arg for x in a.posonlyargs + a.args], a.vararg and a.vararg.arg,
                        [x.arg for x in a.kwonlyargs], a.kwarg and a.kwarg.arg)
            n = code.co_argcount + code.co_kwonlyargcount
            names = list(code.co_varnames)
            want_args = names[:code.co_argcount]
            want_kwonly = names[code.co_argcount:n]
            rest = names[n:]
            want_var = rest.pop(0) if code.co_flags & 0x04 else None
            want_kw = rest.pop(0) if code.co_flags & 0x08 else None
            c2 = [c for c in cands if sig(c) == (want_args, want_var, want_kwonly, want_kw)]
            if len(c2) > 1:
                # same signature: textually identical lambdas are interchangeable; otherwise match the compiled body
                if len({ast.dump(c) for c in c2}) == 1:
                    c2 = c2[:1]
                else:
                    def same_code(c):
                        try:
                            k = compile(ast.Expression(c), fn, 'eval').co_consts[0]
                            return k.co_code == code.co_code and k.co_names == code.co_names and \
                                [x for x in k.co_consts if not hasattr(x, 'co_code')] == \
                                [x for x in code.co_consts if not hasattr(x, 'co_code')]
                        except Exception:
                            return False
                    c3 = [c for c in c2 if same_code(c)]
                    if c3 and len({ast.dump(c) for c in c3}) == 1:
                        c2 = c3[:1]
            if len(c2) != 1:
                raise Unsupported('ambiguous lambda at %s:%d' % (fn, code.co_firstlineno))
            cands = c2
        if not cands:
            # multi-line lambda: firstlineno is the line of 'lambda'
            for (k, ln), v in index.items():
                if k == 'Lambda' and ln <= code.co_firstlineno <= getattr(v[0], 'end_lineno', ln):
                    cands = v
        if len(cands) != 1:
            raise Unsupported('cannot locate lambda at %s:%d' % (fn, code.co_firstlineno))
        return cands[0]
    # decorators shift co_firstlineno to the first decorator line
    for (k, ln), v in index.items():
        if k == 'FunctionDef':
            for node in v:
                first = min([d.lineno for d in node.decorator_list] + [node.lineno])
                if first == code.co_firstlineno and node.name == code.co_name:
                    return node
    raise Unsupported('cannot locate def %s at %s:%d' % (code.co_name, fn, code.co_firstlineno))


class Closure:
    """Engine-level function value: AST + environment."""

    def __init__(self, node, globs, cells, defaults, kwdefaults, name, pyfunc=None, qualname=None):
        self.node, self.globs, self.cells = node, globs, cells
        self.defaults, self.kwdefaults = defaults, kwdefaults
        self.name, self.pyfunc = name, pyfunc
        self.qualname = qualname or name
        self.is_gen = any(isinstance(n, (ast.Yield, ast.YieldFrom)) for n in _walk_own(node))

    def __repr__(self):
        return '<Closure %s>' % self.qualname

    def __call__(self, *a, **k):  # engine value: only callable through Interp.call
        raise RuntimeError('engine closure called natively: %s' % self.qualname)


def _walk_own(node):
    """Walk a function body without descending into nested defs/lambdas."""
    body = node.body if isinstance(node.body, list) else [node.body]
    stack = list(body)
    while stack:
        n = stack.pop()
        yield n
        for c in ast.iter_child_nodes(n):
            if isinstance(c, (ast.FunctionDef, ast.Lambda, ast.ClassDef)):
                continue
            stack.append(c)


_CLOSURES = {}


def closure_of(f):
    f0 = f
    key = id(f)
    c = _CLOSURES.get(key)
    if c is not None and c.pyfunc is f:
        return c
    node = func_ast(f)
    cells = {}
    if f.__closure__:
        for n, cell in zip(f.__code__.co_freevars, f.__closure__):
            cells[n] = cell  # python cell object; read lazily
    mod = f.__module__ or ''
    c = Closure(node, f.__globals__, [PyCells(cells)], f.__defaults__ or (), f.__kwdefaults__ or {},
                f.__name__, f, '%s:%s' % (mod, f.__qualname__))
    _CLOSURES[key] = c
    return c


class PyCells(dict):
    """Mapping view over python closure cells."""

    def __init__(self, cells):
        super().__init__()
        self._cells = cells

    def __contains__(self, k):
        return k in self._cells or dict.__contains__(self, k)

    def __getitem__(self, k):
        if dict.__contains__(self, k):
            return dict.__getitem__(self, k)
        return self._cells[k].cell_contents


# (VERIF_REPO: the mutation tooling points the engine at a scratch copy of the repository; the registered checks use /repo)
REPO_ROOTS = [os.path.realpath(os.environ.get('VERIF_REPO', '/repo')), os.path.realpath(os.path.join(os.path.dirname(__file__), '..', 'contracts'))]


def interpretable_class(cls):
    try:
        fn = os.path.realpath(inspect.getsourcefile(cls) or '')
    except (TypeError, OSError):
        return False
    return any(fn.startswith(r + os.sep) for r in REPO_ROOTS)


def interpretable(f):
    if not isinstance(f, types.FunctionType):
        return False
    fn = os.path.realpath(f.__code__.co_filename)
    return any(fn.startswith(r + os.sep) for r in REPO_ROOTS)


# ----------------------------------------------------------------------------------
# context: path condition, decisions, obligations


class Obligation:
    def __init__(self, name, kind, hyps, goal, meta=None):
        self.name, self.kind, self.hyps, self.goal = name, kind, list(hyps), goal
        self.meta = meta or {}
        self.result = None

    def __repr__(self):
        return '<Obl %s %s>' % (self.kind, self.name)


_HEAVY = {}


def _heavy(h):
    """Quantified or regex-membership hypotheses are left out of feasibility queries (sound
    over-approximation of path feasibility)."""
    r = _HEAVY.get(h)
    if r is None:
        r = _HEAVY[h] = any(s.op in ('forall', 'exists', 'str.in_re') or
                            (s.op == 'app' and s.sort == tm.STR) for s in tm.subterms(h))
    return r


class Ctx:
    FEAS_TIMEOUT = 3.0

    def __init__(self, explorer, prefix):
        self.explorer = explorer
        self.prefix = list(prefix)
        self.trace = []
        self.pc = []
        self.axioms = []
        self.dec_seen = set()
        self.obligations = []
        self.counter = 0
        self.push = explorer.push
        self.inputs = {}     # name -> value (symbolic arguments), for models
        self.notes = []
        self.polarity = True  # spec evaluation: True = goal position
        self.witnesses = []
        self.ghost = {}

    # fresh symbols -----------------------------------------------------------
    def fresh(self, prefix, sort):
        self.counter += 1
        return tm.var('%s!%d' % (prefix, self.counter), sort)

    # decisions ---------------------------------------------------------------
    def feasible(self, extra):
        # quantified hypotheses are dropped here (sound over-approximation of feasibility)
        hyps = [h for h in self.pc + self.axioms if not _heavy(h)]
        return solve.feasible(hyps + list(extra))

    def decide(self, options):
        """options: list of lists of terms (each the constraint of that option)."""
        i = len(self.trace)
        if i < len(self.prefix):
            d = self.prefix[i]
        else:
            feas = [k for k, o in enumerate(options) if self.feasible(o)]
            if not feas:
                raise Infeasible()
            d = feas[0]
            for k in feas[1:]:
                self.push(self.trace + [k])
        self.trace.append(d)
        for t in options[d]:
            self.assume(t)
        return d

    def known(self, cond):
        """True / False if `cond` (or its negation) is literally on the path, else None."""
        if cond in self.pc:
            return True
        if tm.mk_not(cond) in self.pc:
            return False
        return None

    def branch(self, cond):
        if isinstance(cond, bool):
            return cond
        if cond.is_const:
            return cond.val
        k = self.known(cond)     # deterministic in the path condition: identical under replay
        if k is not None:
            return k
        return self.decide([[cond], [tm.mk_not(cond)]]) == 0

    def choice(self, n):
        return self.decide([[] for _ in range(n)])

    def assume(self, t):
        if t.is_const:
            if not t.val:
                raise Infeasible()
            return
        if t.op == 'and':
            for a in t.args:
                self.assume(a)
            return
        if t.op == '=>' and self._on_path(t.args[0]):
            # `a and (a => b)` is how spec-mode conjunctions keep definedness: with a on the path, b is a plain fact
            self.assume(t.args[1])
            return
        if t not in self.pc:
            self.pc.append(t)

    def _on_path(self, t):
        if t.is_const:
            return bool(t.val)
        if t in self.pc:
            return True
        return t.op == 'and' and all(self._on_path(a) for a in t.args)

    def oblige(self, name, goal, kind='S', meta=None):
        if isinstance(goal, bool):
            goal = tm.const(goal)
        self.obligations.append(Obligation(name, kind, self.pc + self.axioms, goal, meta))

    # pure sub-exploration merged into one term -----------------------------------
    def merge_eval(self, thunk, on_raise='false'):
        """Evaluate pure `thunk()` (returning bool/SBool) over all its sub-paths and merge:
        AND_leaves (extra_pc => value)."""
        saved = (self.prefix, self.trace, self.pc, self.push)
        base = list(self.pc)
        work, leaves = [[]], []
        try:
            while work:
                prefix = work.pop()
                self.prefix, self.trace, self.pc = prefix, [], list(base)
                self.push = work.append
                try:
                    v = thunk()
                    v = truth_term(v)
                except Infeasible:
                    continue
                except PyRaise as ex:
                    if os.environ.get('VERIF_DEBUG_SPEC'):
                        print('SPEC RAISED', ex.exc.cls.__name__, ex.exc.fields.get('args'))
                    if on_raise == 'false':
                        v = tm.FALSE
                    else:
                        raise SpecError('contract raised %r while being assumed' % (ex.exc,))
                extra = self.pc[len(base):]
                leaves.append(tm.mk_implies(tm.mk_and(*extra), v) if extra else v)
        finally:
            self.prefix, self.trace, self.pc, self.push = saved
        return tm.mk_and(*leaves) if leaves else tm.TRUE


def truth_term(v):
    """Python truthiness as a Bool term (or python bool wrapped)."""
    if isinstance(v, bool):
        return tm.const(v)
    if v is None:
        return tm.FALSE
    if isinstance(v, SBool):
        return v.t
    if isinstance(v, SInt):
        return tm.mk_ne(v.t, tm.const(0))
    if isinstance(v, SReal):
        nz = tm.mk_ne(v.t, tm.const(Fraction(0)))
        if v.fin is not None and not (v.fin.is_const and v.fin.val):
            return tm.mk_or(tm.mk_not(v.fin), nz)       # inf and nan are truthy
        return nz
    if isinstance(v, SStr):
        return tm.mk_ne(v.t, tm.const(''))
    if isinstance(v, (SDec, SErr)):
        return tm.TRUE
    if isinstance(v, SymSeq):
        return tm.mk_lt(tm.const(0), v.len)
    if isinstance(v, Obj):
        return tm.TRUE
    if isinstance(v, Sym):
        raise Unsupported('truth of %r' % v)
    if isinstance(v, (Closure, OpaqueFn)):
        return tm.TRUE
    if type(v).__name__ == 'MatchVal':
        return tm.TRUE
    if isinstance(v, OpaqueVal):
        raise Unsupported('truth of an opaque value')
    try:
        return tm.const(bool(v))
    except Exception as ex:
        raise Unsupported('truth of %r' % (v,))


# ----------------------------------------------------------------------------------


class Env:
    __slots__ = ('locals', 'cells', 'globs', 'nonlocals', 'globals_decl', 'qual', 'defclass')

    def __init__(self, locals_, cells, globs):
        self.locals, self.cells, self.globs = locals_, cells, globs
        self.nonlocals, self.globals_decl = set(), set()
        self.qual, self.defclass = '?', None

    def lookup(self, name):
        if name in self.locals:
            return self.locals[name]
        for c in self.cells:
            if name in c:
                return c[name]
        if name in self.globs:
            return self.globs[name]
        if hasattr(builtins, name):
            return getattr(builtins, name)
        raise PyRaise(Obj(NameError, {'args': (name,)}))

    def assign(self, name, v):
        if name in self.nonlocals:
            for c in self.cells:
                if name in c:
                    c[name] = v
                    return
        self.locals[name] = v


class BoundMethod:
    def __init__(self, func, self_):
        self.func, self.self_ = func, self_

    def __call__(self, *a, **k):
        raise RuntimeError('engine bound method called natively')


class NativeMethod:
    """Method of a native container / sym value, resolved at call time."""

    def __init__(self, obj, name):
        self.obj, self.name = obj, name


class SpecFn:
    """Marker: engine-implemented specification primitive."""

    def __init__(self, name, impl):
        self.name, self.impl = name, impl


ERRORS = []  # filled by setup_errors(): the XlError singletons, index = payload


def setup_errors():
    if ERRORS:
        return
    from formulas.tokens import operand as od
    ERRORS.extend([od.NULL, od.DIV, od.VALUE, od.REF, od.NUM, od.NAME, od.NA])
    SErr.pytype = od.XlError


class Interp:
    def __init__(self, ctx, contracts=None, inline=None, loop_specs=None, max_unroll=64,
                 float_mode='real', hooks=None):
        self.ctx = ctx
        self.contracts = contracts or {}   # qualname -> Contract (use instead of body)
        self.loop_specs = loop_specs or {}
        self.fn_nodes = []
        self.max_unroll = max_unroll
        self.float_mode = float_mode
        self.hooks = hooks or {}
        self.depth = 0
        setup_errors()

    # -- helpers -------------------------------------------------------------------
    def raise_(self, cls, *args):
        raise PyRaise(Obj(cls, {'args': tuple(args)}))

    def truth(self, v):
        if isinstance(v, Obj):
            return self._obj_truth(v)
        if isinstance(v, (dict, list, tuple, set, str)) and not isinstance(v, Sym):
            return len(v) > 0
        t = truth_term(v)
        return self.ctx.branch(t)

    def _obj_truth(self, v):
        for name in ('__bool__', '__len__'):
            m = self._class_lookup(v.cls, name)
            if m is not None and interpretable(m):
                r = self.call(closure_of(m), [v], {})
                if name == '__len__':
                    return self.truth(self.compare('!=', r, 0))
                return self.truth(r)
        return True

    # -- statements ----------------------------------------------------------------
    def exec_block(self, stmts, env):
        for s in stmts:
            self.exec_stmt(s, env)

    def exec_stmt(self, s, env):
        m = getattr(self, 'st_' + type(s).__name__, None)
        if m is None:
            raise Unsupported('statement %s' % type(s).__name__)
        return m(s, env)

    def st_Expr(self, s, env):
        self.eval(s.value, env)

    def st_Pass(self, s, env):
        pass

    def st_Return(self, s, env):
        raise _Return(self.eval(s.value, env) if s.value is not None else None)

    def st_Break(self, s, env):
        raise _Break()

    def st_Continue(self, s, env):
        raise _Continue()

    def st_Global(self, s, env):
        raise Unsupported('global statement')

    def st_Nonlocal(self, s, env):
        env.nonlocals.update(s.names)

    def st_Import(self, s, env):
        import importlib
        for a in s.names:
            mod = importlib.import_module(a.name)
            if a.asname:
                env.assign(a.asname, mod)
            else:
                env.assign(a.name.split('.')[0], importlib.import_module(a.name.split('.')[0]))

    def st_ImportFrom(self, s, env):
        import importlib
        pkg = env.globs.get('__package__') or env.globs.get('__name__', '').rpartition('.')[0]
        mod = importlib.import_module('.' * s.level + (s.module or ''), pkg) if s.level else importlib.import_module(s.module)
        for a in s.names:
            try:
                v = getattr(mod, a.name)
            except AttributeError:
                v = importlib.import_module(mod.__name__ + '.' + a.name)
            env.assign(a.asname or a.name, v)

    def st_Assign(self, s, env):
        v = self.eval(s.value, env)
        for t in s.targets:
            self.assign(t, v, env)

    def st_AnnAssign(self, s, env):
        if s.value is not None:
            self.assign(s.target, self.eval(s.value, env), env)

    def st_AugAssign(self, s, env):
        if isinstance(s.target, ast.Name):
            cur = env.lookup(s.target.id)
            v = self.binop(type(s.op).__name__, cur, self.eval(s.value, env), inplace=True)
            env.assign(s.target.id, v)
        elif isinstance(s.target, ast.Subscript):
            obj = self.eval(s.target.value, env)
            idx = self.eval_index(s.target.slice, env)
            cur = self.getitem(obj, idx)
            v = self.binop(type(s.op).__name__, cur, self.eval(s.value, env), inplace=True)
            self.setitem(obj, idx, v)
        elif isinstance(s.target, ast.Attribute):
            obj = self.eval(s.target.value, env)
            cur = self.getattr(obj, s.target.attr)
            v = self.binop(type(s.op).__name__, cur, self.eval(s.value, env), inplace=True)
            self.setattr(obj, s.target.attr, v)
        else:
            raise Unsupported('augassign target')

    def assign(self, target, v, env):
        if isinstance(target, ast.Name):
            env.assign(target.id, v)
        elif isinstance(target, (ast.Tuple, ast.List)):
            items = self.iterate(v)
            star = [i for i, e in enumerate(target.elts) if isinstance(e, ast.Starred)]
            if star:
                k = star[0]
                n_after = len(target.elts) - k - 1
                if len(items) < len(target.elts) - 1:
                    self.raise_(ValueError, 'not enough values to unpack')
                for e, x in zip(target.elts[:k], items[:k]):
                    self.assign(e, x, env)
                self.assign(target.elts[k].value, list(items[k:len(items) - n_after]), env)
                for e, x in zip(target.elts[k + 1:], items[len(items) - n_after:]):
                    self.assign(e, x, env)
            else:
                if len(items) != len(target.elts):
                    self.raise_(ValueError, 'unpack length mismatch')
                for e, x in zip(target.elts, items):
                    self.assign(e, x, env)
        elif isinstance(target, ast.Subscript):
            obj = self.eval(target.value, env)
            idx = self.eval_index(target.slice, env)
            self.setitem(obj, idx, v)
        elif isinstance(target, ast.Attribute):
            obj = self.eval(target.value, env)
            self.setattr(obj, target.attr, v)
        else:
            raise Unsupported('assignment target %s' % type(target).__name__)

    def st_Delete(self, s, env):
        for t in s.targets:
            if isinstance(t, ast.Subscript):
                obj = self.eval(t.value, env)
                idx = self.eval_index(t.slice, env)
                if isinstance(obj, (dict, list)) and not is_sym(idx):
                    try:
                        del obj[idx]
                    except Exception as ex:
                        self.raise_(type(ex), *ex.args)
                else:
                    raise Unsupported('del on symbolic')
            elif isinstance(t, ast.Name):
                env.locals.pop(t.id, None)
            else:
                raise Unsupported('del target')

    def st_If(self, s, env):
        if self.truth(self.eval(s.test, env)):
            self.exec_block(s.body, env)
        else:
            self.exec_block(s.orelse, env)

    def st_Assert(self, s, env):
        v = self.eval(s.test, env)
        hook = self.hooks.get('assert')
        if hook:
            return hook(self, s, v, env)
        if not self.truth(v):
            self.raise_(AssertionError)

    def st_Raise(self, s, env):
        if s.exc is None:
            cur = getattr(self, '_current_exc', None)
            if cur is None:
                self.raise_(RuntimeError, 'No active exception to reraise')
            raise PyRaise(cur)
        v = self.eval(s.exc, env)
        if isinstance(v, type) and issubclass(v, BaseException):
            v = self.instantiate(v, [], {})
        if not (isinstance(v, Obj) and issubclass(v.cls, BaseException)):
            raise Unsupported('raise of non-exception %r' % (v,))
        raise PyRaise(v)

    def st_Try(self, s, env):
        try:
            try:
                self.exec_block(s.body, env)
            except PyRaise as pr:
                exc = pr.exc
                for h in s.handlers:
                    if h.type is None:
                        match = True
                    else:
                        cls = self.eval(h.type, env)
                        classes = cls if isinstance(cls, tuple) else (cls,)
                        match = any(isinstance(c, type) and issubclass(exc.cls, c) for c in classes)
                    if match:
                        if h.name:
                            env.assign(h.name, exc)
                        saved = getattr(self, '_current_exc', None)
                        self._current_exc = exc
                        try:
                            self.exec_block(h.body, env)
                        finally:
                            self._current_exc = saved
                        break
                else:
                    raise
            else:
                self.exec_block(s.orelse, env)
        finally:
            if s.finalbody:
                # note: finalbody runs on engine-internal control flow too; fine for Return/Break
                if sys.exc_info()[0] in (None, PyRaise, _Return, _Break, _Continue):
                    self.exec_block(s.finalbody, env)

    def st_With(self, s, env):
        for item in s.items:
            v = self.eval(item.context_expr, env)
            if not isinstance(v, NoOpContext):
                raise Unsupported('with-statement over %r' % (v,))
            if item.optional_vars is not None:
                self.assign(item.optional_vars, None, env)
        self.exec_block(s.body, env)

    def st_FunctionDef(self, s, env):
        defaults = tuple(self.eval(d, env) for d in s.args.defaults)
        kwd = {a.arg: self.eval(d, env) for a, d in zip(s.args.kwonlyargs, s.args.kw_defaults) if d is not None}
        c = Closure(s, env.globs, [env.locals] + list(env.cells), defaults, kwd, s.name,
                    qualname='%s.<locals>.%s' % (getattr(env, 'qual', '?'), s.name))
        v = c
        for d in reversed(s.decorator_list):
            v = self.call(self.eval(d, env), [v], {})
        env.assign(s.name, v)

    def st_While(self, s, env):
        spec = self._loop_spec('while', s, env)
        if spec is not None:
            return spec.run_while(self, s, env)
        n = 0
        while True:
            if not self.truth(self.eval(s.test, env)):
                self.exec_block(s.orelse, env)
                return
            n += 1
            if n > self.max_unroll:
                raise Unsupported('while loop exceeds unroll bound %d (line %d)' % (self.max_unroll, s.lineno))
            try:
                self.exec_block(s.body, env)
            except _Break:
                return
            except _Continue:
                continue

    def _loop_spec(self, kind, s, env):
        """The specification registered for this loop: keyed by (kind, qualified function name, ordinal of the loop among the
        function's loops of that kind) - never by line number."""
        if not self.loop_specs:
            return None
        node = self.fn_nodes[-1] if self.fn_nodes else None
        if node is None:
            return None
        for (k, qual, ordinal), spec in self.loop_specs.items():
            if k == kind and (qual == env.qual or env.qual.endswith('.' + qual) or env.qual.endswith(':' + qual)):
                from .loops import loop_ordinal
                if loop_ordinal(node, s) == ordinal:
                    return spec
        return None

    def st_For(self, s, env):
        it = self.eval(s.iter, env)
        spec = self.loop_specs.get(('for', s.lineno))
        if spec is not None:
            return spec.run_for(self, s, env, it)
        if isinstance(it, SymSeq):
            raise Unsupported('for over symbolic-length sequence without invariant (line %d)' % s.lineno)
        items = self.iterate(it)
        for x in items:
            self.assign(s.target, x, env)
            try:
                self.exec_block(s.body, env)
            except _Break:
                return
            except _Continue:
                continue
        self.exec_block(s.orelse, env)

    # -- expressions ---------------------------------------------------------------
    def eval(self, e, env):
        m = getattr(self, 'ex_' + type(e).__name__, None)
        if m is None:
            raise Unsupported('expression %s' % type(e).__name__)
        return m(e, env)

    def ex_Constant(self, e, env):
        return e.value

    def ex_Name(self, e, env):
        return env.lookup(e.id)

    def ex_Tuple(self, e, env):
        return tuple(self._elts(e.elts, env))

    def ex_List(self, e, env):
        return list(self._elts(e.elts, env))

    def ex_Set(self, e, env):
        vs = self._elts(e.elts, env)
        if any(is_sym(v) for v in vs):
            if all(is_sym(v) or isinstance(v, (str, int)) for v in vs):
                return SymSet(vs)          # membership only (values.SymSet)
            raise Unsupported('set of symbolic values')
        return set(vs)

    def _elts(self, elts, env):
        out = []
        for x in elts:
            if isinstance(x, ast.Starred):
                out.extend(self.iterate(self.eval(x.value, env)))
            else:
                out.append(self.eval(x, env))
        return out

    def ex_Dict(self, e, env):
        d = {}
        for k, v in zip(e.keys, e.values):
            if k is None:
                m = self.eval(v, env)
                if not isinstance(m, dict):
                    raise Unsupported('** of non-dict')
                d.update(m)
            else:
                kk = self.eval(k, env)
                if is_sym(kk):
                    raise Unsupported('symbolic dict key')
                d[kk] = self.eval(v, env)
        return d

    def ex_JoinedStr(self, e, env):
        parts = []
        for v in e.values:
            if isinstance(v, ast.Constant):
                parts.append(v.value)
            else:
                if v.format_spec is not None or v.conversion != -1:
                    raise Unsupported('f-string format spec')
                parts.append(self.eval(v.value, env))
        return self.str_concat([self.to_str_value(p) for p in parts])

    def _spec_rest(self, is_and, values, env):
        """spec mode: value of `v0 op rest…` as one Bool term, without forking."""
        v = self.eval(values[0], env)
        if len(values) == 1:
            return v
        if isinstance(v, SBool):
            guard = v.t if is_and else tm.mk_not(v.t)

            def thunk():
                self.ctx.assume(guard)
                return self._spec_rest(is_and, values[1:], env)
            rest = self.ctx.merge_eval(thunk, on_raise='false' if self.ctx.spec_mode == 'goal' else 'error')
            t = tm.mk_and(v.t, rest) if is_and else tm.mk_or(v.t, rest)
            return t.val if t.is_const else SBool(t)
        t = self.truth(v)
        if is_and and not t:
            return v
        if not is_and and t:
            return v
        return self._spec_rest(is_and, values[1:], env)

    def ex_BoolOp(self, e, env):
        is_and = isinstance(e.op, ast.And)
        if getattr(self.ctx, 'spec_mode', None) is not None:
            return self._spec_rest(is_and, e.values, env)
        v = None
        for i, x in enumerate(e.values):
            v = self.eval(x, env)
            if i == len(e.values) - 1:
                return v
            t = self.truth(v)
            if is_and and not t:
                return v
            if not is_and and t:
                return v
        return v

    def ex_UnaryOp(self, e, env):
        if isinstance(e.op, ast.Not):
            self.ctx.neg_depth = getattr(self.ctx, 'neg_depth', 0) + 1
            try:
                v = self.eval(e.operand, env)
            finally:
                self.ctx.neg_depth -= 1
        else:
            v = self.eval(e.operand, env)
        if isinstance(e.op, ast.Not):
            if isinstance(v, (SBool, SInt, SStr, SReal)):
                return SBool(tm.mk_not(truth_term(v)))
            return not self.truth(v)
        if isinstance(e.op, ast.USub):
            return self.neg(v)
        if isinstance(e.op, ast.UAdd):
            if isinstance(v, SBool):
                return self.to_int(v)
            if isinstance(v, (SInt, SReal)) or (isinstance(v, (int, float)) ):
                return +v if not is_sym(v) else v
            return self.unop_other('pos', v)
        if isinstance(e.op, ast.Invert):
            if isinstance(v, int):
                return ~v
            if isinstance(v, (SInt, SBool)):
                return SInt(tm.mk_sub(tm.mk_neg(self.int_term(v)), tm.const(1)))
        raise Unsupported('unary op')

    def unop_other(self, name, v):
        if isinstance(v, (str, SStr, SDec, SErr, type(None), dict, list, tuple)):
            self.raise_(TypeError, 'bad operand type for unary %s' % name)
        raise Unsupported('unary %s on %r' % (name, v))

    def neg(self, v):
        if isinstance(v, SInt):
            return SInt(tm.mk_neg(v.t))
        if isinstance(v, SBool):
            return SInt(tm.mk_neg(self.int_term(v)))
        if isinstance(v, SReal):
            return SReal(tm.mk_neg(v.t), v.fin)
        if isinstance(v, (int, float)):
            return -v
        return self.unop_other('-', v)

    def ex_BinOp(self, e, env):
        return self.binop(type(e.op).__name__, self.eval(e.left, env), self.eval(e.right, env))

    def ex_Compare(self, e, env):
        left = self.eval(e.left, env)
        result = None
        for i, (op, r) in enumerate(zip(e.ops, e.comparators)):
            right = self.eval(r, env)
            v = self.compare(_CMP[type(op).__name__], left, right)
            if len(e.ops) == 1:
                return v
            # chained: a < b < c  ==  (a < b) and (b < c)
            if getattr(self.ctx, 'spec_mode', None) is not None and isinstance(v, (bool, SBool)):
                result = v if result is None else models_band([result, v])
                if result is False:
                    return False
                left = right
                if i == len(e.ops) - 1:
                    return result
                continue
            if result is not None:
                raise Unsupported('mixed chained comparison')
            if i == len(e.ops) - 1:
                return v
            if not self.truth(v):
                return v
            left = right
        return result

    def ex_IfExp(self, e, env):
        if getattr(self.ctx, 'spec_mode', None) is not None:
            c = self.eval(e.test, env)
            if isinstance(c, SBool) and self.ctx.known(c.t) is not None:
                c = self.ctx.known(c.t)
            if isinstance(c, SBool):
                on = 'false' if self.ctx.spec_mode == 'goal' else 'error'
                box = {}

                def side(node, guard, key):
                    def thunk():
                        self.ctx.assume(guard)
                        v = self.eval(node, env)
                        box[key] = v
                        return v if isinstance(v, (bool, SBool)) else True
                    return thunk
                a = self.ctx.merge_eval(side(e.body, c.t, 'a'), on_raise=on)
                b = self.ctx.merge_eval(side(e.orelse, tm.mk_not(c.t), 'b'), on_raise=on)
                if all(isinstance(box.get(k), (bool, SBool)) for k in ('a', 'b')):
                    t = tm.mk_and(tm.mk_implies(c.t, a), tm.mk_implies(tm.mk_not(c.t), b))
                    return t.val if t.is_const else SBool(t)
                if all(isinstance(box.get(k), (int, SInt)) and not isinstance(box.get(k), bool) for k in ('a', 'b')):
                    from .models import int_term
                    return SInt(tm.mk_ite(c.t, int_term(box['a']), int_term(box['b'])))
            if self.truth(c):
                return self.eval(e.body, env)
            return self.eval(e.orelse, env)
        if self.truth(self.eval(e.test, env)):
            return self.eval(e.body, env)
        return self.eval(e.orelse, env)

    def ex_Lambda(self, e, env):
        defaults = tuple(self.eval(d, env) for d in e.args.defaults)
        kwd = {a.arg: self.eval(d, env) for a, d in zip(e.args.kwonlyargs, e.args.kw_defaults) if d is not None}
        return Closure(e, env.globs, [env.locals] + list(env.cells), defaults, kwd, '<lambda>')

    def ex_Attribute(self, e, env):
        return self.getattr(self.eval(e.value, env), e.attr)

    def ex_Subscript(self, e, env):
        obj = self.eval(e.value, env)
        return self.getitem(obj, self.eval_index(e.slice, env))

    def eval_index(self, sl, env):
        if isinstance(sl, ast.Slice):
            ev = lambda x: None if x is None else self.eval(x, env)
            return slice(ev(sl.lower), ev(sl.upper), ev(sl.step))
        if isinstance(sl, ast.Tuple):
            return tuple(self.eval_index(x, env) for x in sl.elts)
        return self.eval(sl, env)

    def ex_Starred(self, e, env):
        raise Unsupported('starred outside call/collection')

    def ex_ListComp(self, e, env):
        return self._comp(e, env, lambda sub: self.eval(e.elt, sub))

    def ex_GeneratorExp(self, e, env):
        return self._comp(e, env, lambda sub: self.eval(e.elt, sub))

    def ex_SetComp(self, e, env):
        vs = self._comp(e, env, lambda sub: self.eval(e.elt, sub))
        if any(is_sym(v) for v in vs):
            if all(is_sym(v) or isinstance(v, (str, int)) for v in vs):
                return SymSet(vs)          # membership only (values.SymSet)
            raise Unsupported('set of symbolic values')
        return set(vs)

    def ex_DictComp(self, e, env):
        pairs = self._comp(e, env, lambda sub: (self.eval(e.key, sub), self.eval(e.value, sub)))
        d = {}
        for k, v in pairs:
            if is_sym(k):
                raise Unsupported('symbolic dict key')
            d[k] = v
        return d

    def _comp(self, e, env, emit):
        out = []
        sub = Env(dict(), [env.locals] + list(env.cells), env.globs)

        def rec(i):
            if i == len(e.generators):
                out.append(emit(sub))
                return
            g = e.generators[i]
            if g.is_async:
                raise Unsupported('async comprehension')
            it = self.eval(g.iter, sub if i else env)
            if isinstance(it, SymSeq):
                raise Unsupported('comprehension over symbolic-length sequence')
            for x in self.iterate(it):
                self.assign(g.target, x, sub)
                if all(self.truth(self.eval(c, sub)) for c in g.ifs):
                    rec(i + 1)
        rec(0)
        return out

    def ex_Call(self, e, env):
        f = self.eval(e.func, env)
        args, kwargs = [], {}
        for a in e.args:
            if isinstance(a, ast.Starred):
                args.extend(self.iterate(self.eval(a.value, env)))
            else:
                args.append(self.eval(a, env))
        for k in e.keywords:
            if k.arg is None:
                m = self.eval(k.value, env)
                if not isinstance(m, dict):
                    raise Unsupported('** of non-dict %r' % (m,))
                for kk, vv in m.items():
                    if not isinstance(kk, str):
                        self.raise_(TypeError, 'keywords must be strings')
                    kwargs[kk] = vv
            else:
                kwargs[k.arg] = self.eval(k.value, env)
        # zero-arg super()
        if f is builtins.super and not args:
            return self._super(env)
        if f is builtins.super and len(args) == 2 and isinstance(args[0], type) and not isinstance(args[1], Obj):
            return builtins.super(args[0], args[1])          # explicit super(C, obj) on a real (native) object
        return self.call(f, args, kwargs)

    def ex_Yield(self, e, env):
        v = self.eval(e.value, env) if e.value is not None else None
        env.locals['$yield'].append(v)
        return None

    def ex_YieldFrom(self, e, env):
        env.locals['$yield'].extend(self.iterate(self.eval(e.value, env)))
        return None

    def ex_NamedExpr(self, e, env):
        v = self.eval(e.value, env)
        self.assign(e.target, v, env)
        return v

    # -- calls -----------------------------------------------------------------------
    def call(self, f, args, kwargs):
        from . import models
        if isinstance(f, Closure):
            return self.call_closure(f, args, kwargs)
        if isinstance(f, BoundMethod):
            return self.call(f.func, [f.self_] + list(args), kwargs)
        if isinstance(f, NativeMethod):
            return models.call_method(self, f.obj, f.name, args, kwargs)
        if isinstance(f, SpecFn):
            return f.impl(self, *args, **kwargs)
        if isinstance(f, OpaqueFn):
            return self.call_opaque(f, args, kwargs)
        if isinstance(f, functools.partial):
            kw = dict(f.keywords)
            kw.update(kwargs)
            return self.call(f.func, list(f.args) + list(args), kw)
        if isinstance(f, types.MethodType):
            return self.call(f.__func__, [f.__self__] + list(args), kwargs)
        if isinstance(f, types.FunctionType):
            spec = getattr(f, '__pyvc_spec__', None)
            if spec is not None:
                return spec(self, *args, **kwargs)
            if hasattr(f, '__wrapped__') and not interpretable(f):
                # functools.lru_cache wrapper etc. are not FunctionType; this is update_wrapper'd python
                pass
            if interpretable(f):
                return self.call_closure(closure_of(f), args, kwargs)
        if hasattr(f, '__wrapped__') and hasattr(f, 'cache_info'):
            # functools.lru_cache: assumed transparent (recorded assumption)
            self.ctx.ghost.setdefault('assumptions', set()).add('lru_cache transparent: %s' % getattr(f, '__name__', f))
            return self.call(f.__wrapped__, args, kwargs)
        if isinstance(f, type):
            return self.instantiate(f, args, kwargs)
        m = models.BUILTINS.get(_hashable_id(f))
        if m is not None:
            return m(self, *args, **kwargs)
        if type(f).__name__ in ('builtin_function_or_method', 'builtin_method') and type(getattr(f, '__self__', None)).__name__ == 'Pattern' \
                and f.__name__ in ('match', 'fullmatch') and len(args) == 1 and not kwargs and is_sym(args[0]):
            return models.regex_match(self, f.__self__, f.__name__, args[0])
        if isinstance(f, Obj):
            c = self._class_lookup(f.cls, '__call__')
            if c is not None and interpretable(c):
                return self.call(closure_of(c), [f] + list(args), kwargs)
        # native callable on fully concrete arguments
        if callable(f) and models.NATIVE_OK(f) and all(models.is_concrete(a) for a in list(args) + list(kwargs.values())):
            try:
                return f(*args, **kwargs)
            except Exception as ex:
                self.raise_(type(ex), *ex.args)
        raise Unsupported('call of %r on %r' % (f, [type(a).__name__ for a in args]))

    def call_opaque(self, f, args, kwargs):
        n = len(f.raises)
        k = self.ctx.choice(n + 1)
        if k == 0:
            r = f.result(self.ctx, '%s.ret%d' % (f.name, len(f.calls))) if f.result else OpaqueVal('%s.ret%d' % (f.name, len(f.calls)))
            f.calls.append((tuple(args), dict(kwargs), ('return', r)))
            return r
        exc = f.raises[k - 1](self.ctx, '%s.exc%d' % (f.name, len(f.calls)))
        f.calls.append((tuple(args), dict(kwargs), ('raise', exc)))
        raise PyRaise(exc)

    def bind(self, c, args, kwargs):
        a = c.node.args
        params = [x.arg for x in a.posonlyargs + a.args]
        loc = {}
        args = list(args)
        kwargs = dict(kwargs)
        n = len(params)
        for i, p in enumerate(params):
            if i < len(args):
                if p in kwargs:
                    self.raise_(TypeError, "%s() got multiple values for argument '%s'" % (c.name, p))
                loc[p] = args[i]
            elif p in kwargs:
                loc[p] = kwargs.pop(p)
            else:
                di = i - (n - len(c.defaults))
                if di >= 0:
                    loc[p] = c.defaults[di]
                else:
                    self.raise_(TypeError, "%s() missing required positional argument: '%s'" % (c.name, p))
        extra = args[n:]
        if a.vararg:
            loc[a.vararg.arg] = tuple(extra)
        elif extra:
            self.raise_(TypeError, '%s() takes %d positional arguments but %d were given' % (c.name, n, len(args)))
        for ka in a.kwonlyargs:
            if ka.arg in kwargs:
                loc[ka.arg] = kwargs.pop(ka.arg)
            elif ka.arg in c.kwdefaults:
                loc[ka.arg] = c.kwdefaults[ka.arg]
            else:
                self.raise_(TypeError, "%s() missing keyword-only argument '%s'" % (c.name, ka.arg))
        if a.kwarg:
            loc[a.kwarg.arg] = kwargs
        elif kwargs:
            self.raise_(TypeError, "%s() got an unexpected keyword argument '%s'" % (c.name, sorted(kwargs)[0]))
        return loc

    def call_closure(self, c, args, kwargs, force_body=False):
        con = None if force_body else self.contracts.get(c.qualname)
        if con is not None:
            return con.apply(self, c, args, kwargs)
        self.depth += 1
        if self.depth > 60:
            self.depth -= 1
            raise Unsupported('recursion depth')
        pushed = False
        try:
            loc = self.bind(c, args, kwargs)
            env = Env(loc, c.cells, c.globs)
            env.qual = c.qualname
            if isinstance(c.node, ast.Lambda):
                return self.eval(c.node.body, env)
            self.fn_nodes.append(c.node)
            pushed = True
            if c.is_gen:
                loc['$yield'] = []
                try:
                    self.exec_block(c.node.body, env)
                except _Return:
                    pass
                return loc['$yield']
            try:
                self.exec_block(c.node.body, env)
            except _Return as r:
                return r.v
            return None
        finally:
            self.depth -= 1
            if pushed:
                self.fn_nodes.pop()

    # -- classes / objects -----------------------------------------------------------
    def _class_lookup(self, cls, name):
        for k in cls.__mro__:
            if name in k.__dict__:
                return k.__dict__[name]
        return None

    def instantiate(self, cls, args, kwargs):
        from . import models
        m = models.BUILTINS.get(_hashable_id(cls))
        if m is not None:
            return m(self, *args, **kwargs)
        if issubclass(cls, BaseException) or self._is_repo_class(cls):
            o = Obj(cls, {})
            init = self._class_lookup(cls, '__init__')
            if isinstance(init, types.FunctionType) and interpretable(init):
                self.call(closure_of(init), [o] + list(args), kwargs)
            elif issubclass(cls, BaseException):
                o.fields['args'] = tuple(args)
            elif init is object.__init__:
                pass
            else:
                raise Unsupported('constructor of %r' % cls)
            if issubclass(cls, BaseException):
                o.fields.setdefault('args', tuple(args))
            return o
        if all(models.is_concrete(a) for a in list(args) + list(kwargs.values())) and models.NATIVE_OK(cls):
            try:
                return cls(*args, **kwargs)
            except Exception as ex:
                self.raise_(type(ex), *ex.args)
        raise Unsupported('instantiation of %r' % (cls,))

    def _is_repo_class(self, cls):
        try:
            fn = os.path.realpath(inspect.getsourcefile(cls) or '')
        except TypeError:
            return False
        return any(fn.startswith(r + os.sep) for r in REPO_ROOTS)

    def _super(self, env):
        # zero-arg super(): needs the defining class; we find it from the closure qualname
        self_ = next(iter(env.locals.values()))
        cls = getattr(env, 'defclass', None)
        if cls is None:
            raise Unsupported('zero-arg super() outside a located method')
        return SuperProxy(cls, self_)

    def getattr(self, o, name):
        from . import models
        if isinstance(o, Obj):
            return self.obj_getattr(o, name)
        if isinstance(o, SuperProxy):
            mro = o.self_.cls.__mro__
            i = mro.index(o.cls)
            for k in mro[i + 1:]:
                if name in k.__dict__:
                    if name == '__init__' and issubclass(k, BaseException) and not interpretable_class(k):
                        obj = o.self_

                        def exc_init(interp, *a, **kw):
                            obj.fields['args'] = tuple(a)
                        return SpecFn('BaseException.__init__', exc_init)
                    if name == '__init__' and k is object:
                        return SpecFn('object.__init__', lambda interp, *a, **kw: None)
                    return self._bind_attr(k.__dict__[name], o.self_, k)
            self.raise_(AttributeError, name)
        if isinstance(o, (Sym, SymSeq, dict, list, tuple, str, set, frozenset, range)) and not isinstance(o, type):
            if isinstance(o, (str,)) and not is_sym(o) and type(o) is not str:
                # str subclass instance (e.g. XlError / sh.Token): concrete
                try:
                    return getattr(o, name)
                except AttributeError:
                    self.raise_(AttributeError, name)
            return NativeMethod(o, name)
        if isinstance(o, slice) and name in ('start', 'stop', 'step'):
            return getattr(o, name)
        if type(o).__name__ in ('DateVal', 'DeltaVal'):
            from . import dates
            return dates.date_getattr(self, o, name)
        try:
            v = getattr(o, name)
        except AttributeError:
            self.raise_(AttributeError, name)
        except Exception as ex:
            raise Unsupported('getattr %r.%s: %r' % (o, name, ex))
        return v

    def _bind_attr(self, a, o, defcls):
        if isinstance(a, types.FunctionType):
            c = closure_of(a) if interpretable(a) else a
            if isinstance(c, Closure):
                c = MethodClosure(c, defcls)
            return BoundMethod(c, o)
        if isinstance(a, property):
            if interpretable(a.fget):
                return self.call(MethodClosure(closure_of(a.fget), defcls), [o], {})
            raise Unsupported('native property')
        if isinstance(a, staticmethod):
            return a.__func__
        if isinstance(a, classmethod):
            return BoundMethod(a.__func__, o.cls)
        return a

    def obj_getattr(self, o, name):
        if name == '__class__':
            return o.cls
        ov = getattr(o, 'overrides', None)
        if ov and name in ov:
            return self.call(ov[name], [], {})
        mov = getattr(o, 'method_overrides', None)
        if mov and name in mov:
            return mov[name]          # an abstract (opaque) method: called by the code with its arguments
        # data descriptors / class attrs
        for k in o.cls.__mro__:
            if name in k.__dict__:
                a = k.__dict__[name]
                if isinstance(a, property):
                    return self._bind_attr(a, o, k)
                if name in o.fields:
                    return o.fields[name]
                if isinstance(a, types.MemberDescriptorType):  # __slots__
                    self.raise_(AttributeError, name)
                return self._bind_attr(a, o, k)
        if name in o.fields:
            return o.fields[name]
        ga = self._class_lookup(o.cls, '__getattr__')
        if ga is not None and interpretable(ga):
            for k in o.cls.__mro__:
                if '__getattr__' in k.__dict__:
                    defcls = k
                    break
            return self.call(MethodClosure(closure_of(ga), defcls), [o, name], {})
        self.raise_(AttributeError, name)

    def setattr(self, o, name, v):
        if isinstance(o, Obj):
            o.fields[name] = v
            return
        raise Unsupported('setattr on %r' % (o,))

    # -- data model: implemented in models.py -------------------------------------------
    def binop(self, op, a, b, inplace=False):
        from . import models
        return models.binop(self, op, a, b, inplace)

    def compare(self, op, a, b):
        from . import models
        return models.compare(self, op, a, b)

    def getitem(self, o, i):
        from . import models
        return models.getitem(self, o, i)

    def setitem(self, o, i, v):
        from . import models
        return models.setitem(self, o, i, v)

    def iterate(self, v):
        from . import models
        return models.iterate(self, v)

    def to_int(self, v):
        from . import models
        return models.to_int(self, v)

    def int_term(self, v):
        from . import models
        return models.int_term(v)

    def to_str_value(self, v):
        from . import models
        return models.py_str(self, v)

    def str_concat(self, vs):
        from . import models
        return models.str_concat(self, vs)


class MethodClosure(Closure):
    """Closure of a method together with its defining class (for zero-arg super())."""

    def __init__(self, c, defcls):
        self.__dict__.update(c.__dict__)
        self.defclass = defcls


class SuperProxy:
    def __init__(self, cls, self_):
        self.cls, self.self_ = cls, self_


class NoOpContext:
    pass


_orig_call_closure = Interp.call_closure


def _call_closure_with_defclass(self, c, args, kwargs, force_body=False):
    if isinstance(c, MethodClosure):
        con = None if force_body else self.contracts.get(c.qualname)
        if con is not None:
            return con.apply(self, c, args, kwargs)
        self.depth += 1
        if self.depth > 60:
            self.depth -= 1
            raise Unsupported('recursion depth')
        try:
            loc = self.bind(c, args, kwargs)
            env = Env(loc, c.cells, c.globs)
            env.qual = c.qualname
            env.defclass = c.defclass
            self.fn_nodes.append(c.node)
            try:
                if c.is_gen:
                    loc['$yield'] = []
                    try:
                        self.exec_block(c.node.body, env)
                    except _Return:
                        pass
                    return loc['$yield']
                try:
                    self.exec_block(c.node.body, env)
                except _Return as r:
                    return r.v
                return None
            finally:
                self.fn_nodes.pop()
        finally:
            self.depth -= 1
    return _orig_call_closure(self, c, args, kwargs, force_body)


Interp.call_closure = _call_closure_with_defclass


def _hashable_id(f):
    try:
        hash(f)
        return f
    except TypeError:
        return id(f)


def models_band(vs):
    from .models import band
    return band(vs)


_CMP = {'Eq': '==', 'NotEq': '!=', 'Lt': '<', 'LtE': '<=', 'Gt': '>', 'GtE': '>=',
        'Is': 'is', 'IsNot': 'is not', 'In': 'in', 'NotIn': 'not in'}
