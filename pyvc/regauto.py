"""A decision procedure for conjunctions of regular constraints over ONE string variable (own back end `regauto`).

Accepted assertions (possibly under `not`, and `and` of such):  (str.in_re x R), (str.contains x "lit"), (str.prefixof "lit" x),
(str.suffixof "lit" x), (= x "lit") / (= "lit" x), true/false.  R is SMT-LIB RegLan text built from re.union re.++ re.* re.+
re.opt re.range str.to_re re.allchar re.all re.none re.diff re.inter re.comp (_ re.loop a b) (_ re.^ n).

Each constraint becomes a DFA over a finite partition of the code points (boundaries at every character mentioned); the
conjunction is satisfiable iff the product automaton reaches a state accepting in all components.  Answers 'unsat' / 'sat'
(+ a witness string) / None (not in the fragment).  Used for regular-language inclusion goals on which z3 and cvc5 time out."""
from . import terms as tm
from .solve import sexprs

MAXCP = 0x2FFFF


# ------------------------------------------------------------------------------------ regex AST from SMT-LIB text
def _parse_re(e):
    """-> nested tuples: ('chars', [(lo, hi)]) | ('cat', [..]) | ('alt', [..]) | ('star', r) | ('and', [..]) | ('not', r) | ('eps',) | ('none',)"""
    if isinstance(e, str):
        if e == 're.allchar':
            return ('chars', [(0, MAXCP)])
        if e == 're.all':
            return ('star', ('chars', [(0, MAXCP)]))
        if e in ('re.none', 're.nostr'):
            return ('none',)
        raise ValueError('regex atom %r' % (e,))
    if isinstance(e, tuple) and e[0] == 'str':
        return _lit(e[1])
    h = e[0]
    if h == 'str.to_re':
        return _lit(_strval(e[1]))
    if h == 're.range':
        a, b = _strval(e[1]), _strval(e[2])
        if len(a) != 1 or len(b) != 1:
            return ('none',)
        return ('chars', [(ord(a), ord(b))]) if ord(a) <= ord(b) else ('none',)
    if h == 're.union':
        return ('alt', [_parse_re(x) for x in e[1:]])
    if h == 're.++':
        return ('cat', [_parse_re(x) for x in e[1:]])
    if h == 're.*':
        return ('star', _parse_re(e[1]))
    if h == 're.+':
        r = _parse_re(e[1])
        return ('cat', [r, ('star', r)])
    if h == 're.opt':
        return ('alt', [('eps',), _parse_re(e[1])])
    if h == 're.inter':
        return ('and', [_parse_re(x) for x in e[1:]])
    if h == 're.comp':
        return ('not', _parse_re(e[1]))
    if h == 're.diff':
        return ('and', [_parse_re(e[1]), ('not', _parse_re(e[2]))])
    if isinstance(h, list) and h[0] == '_' and h[1] == 're.loop':
        lo, hi = int(h[2]), int(h[3])
        r = _parse_re(e[1])
        return ('cat', [r] * lo + [('alt', [('eps',), r])] * (hi - lo))
    if isinstance(h, list) and h[0] == '_' and h[1] == 're.^':
        return ('cat', [_parse_re(e[1])] * int(h[2]))
    raise ValueError('regex operator %r' % (h,))


def _strval(e):
    if isinstance(e, tuple) and e[0] == 'str':
        return e[1]
    raise ValueError('expected a string literal, got %r' % (e,))


def _lit(s):
    if not s:
        return ('eps',)
    return ('cat', [('chars', [(ord(c), ord(c))]) for c in s])


def _boundaries(r, out):
    k = r[0]
    if k == 'chars':
        for lo, hi in r[1]:
            out.add(lo)
            out.add(hi + 1)
    elif k in ('cat', 'alt', 'and'):
        for x in r[1]:
            _boundaries(x, out)
    elif k in ('star', 'not'):
        _boundaries(r[1], out)


# ------------------------------------------------------------------------------------ Brzozowski derivatives over character classes
def _nullable(r):
    k = r[0]
    if k == 'eps' or k == 'star':
        return True
    if k in ('chars', 'none'):
        return False
    if k == 'cat':
        return all(_nullable(x) for x in r[1])
    if k == 'alt':
        return any(_nullable(x) for x in r[1])
    if k == 'and':
        return all(_nullable(x) for x in r[1])
    if k == 'not':
        return not _nullable(r[1])
    raise ValueError(k)


NONE, EPS = ('none',), ('eps',)


def _mk_cat(xs):
    out = []
    for x in xs:
        if x == NONE:
            return NONE
        if x == EPS:
            continue
        if x[0] == 'cat':
            out.extend(x[1])
        else:
            out.append(x)
    if not out:
        return EPS
    return out[0] if len(out) == 1 else ('cat', tuple(out))


def _mk_alt(xs):
    out = []
    for x in xs:
        if x == NONE:
            continue
        ys = x[1] if x[0] == 'alt' else (x,)
        for y in ys:
            if y not in out:
                out.append(y)
    if not out:
        return NONE
    if len(out) == 1:
        return out[0]
    return ('alt', tuple(sorted(out, key=repr)))


def _mk_and(xs):
    out = []
    for x in xs:
        if x == NONE:
            return NONE
        ys = x[1] if x[0] == 'and' else (x,)
        for y in ys:
            if y not in out:
                out.append(y)
    if len(out) == 1:
        return out[0]
    return ('and', tuple(sorted(out, key=repr)))


def _mk_not(x):
    if x[0] == 'not':
        return x[1]
    return ('not', x)


def _norm(r):
    k = r[0]
    if k == 'cat':
        return _mk_cat([_norm(x) for x in r[1]])
    if k == 'alt':
        return _mk_alt([_norm(x) for x in r[1]])
    if k == 'and':
        return _mk_and([_norm(x) for x in r[1]])
    if k == 'star':
        x = _norm(r[1])
        return EPS if x in (NONE, EPS) else (x if x[0] == 'star' else ('star', x))
    if k == 'not':
        return _mk_not(_norm(r[1]))
    if k == 'chars':
        return ('chars', tuple(r[1]))
    return r


def _deriv(r, c, memo):
    key = (r, c)
    v = memo.get(key)
    if v is not None:
        return v
    k = r[0]
    if k in ('eps', 'none'):
        v = NONE
    elif k == 'chars':
        v = EPS if any(lo <= c <= hi for lo, hi in r[1]) else NONE
    elif k == 'cat':
        xs = r[1]
        parts = []
        for i, x in enumerate(xs):
            parts.append(_mk_cat([_deriv(x, c, memo)] + list(xs[i + 1:])))
            if not _nullable(x):
                break
        v = _mk_alt(parts)
    elif k == 'alt':
        v = _mk_alt([_deriv(x, c, memo) for x in r[1]])
    elif k == 'and':
        v = _mk_and([_deriv(x, c, memo) for x in r[1]])
    elif k == 'star':
        v = _mk_cat([_deriv(r[1], c, memo), r])
    elif k == 'not':
        v = _mk_not(_deriv(r[1], c, memo))
    else:
        raise ValueError(k)
    memo[key] = v
    return v


def nonempty_witness(r, limit=200000):
    """A string in L(r), or None if the language is empty; raises ValueError beyond `limit` states."""
    r = _norm(r)
    bs = {0, MAXCP + 1}
    _boundaries(r, bs)
    bs = sorted(b for b in bs if 0 <= b <= MAXCP + 1)
    reps = []
    for lo, hi in zip(bs, bs[1:]):
        # a printable representative when the class has one
        rep = lo
        for cand in (lo, hi - 1):
            if 32 <= cand < 127:
                rep = cand
        reps.append(rep)
    memo = {}
    seen = {r: None}
    work = [r]
    while work:
        s = work.pop(0)
        if _nullable(s):
            out = []
            while seen[s] is not None:
                s, ch = seen[s]
                out.append(chr(ch))
            return ''.join(reversed(out))
        for c in reps:
            d = _deriv(s, c, memo)
            if d != NONE and d not in seen:
                if len(seen) > limit:
                    raise ValueError('too many states')
                seen[d] = (s, c)
                work.append(d)
    return None


# ------------------------------------------------------------------------------------ terms -> one regular constraint
class NotRegular(Exception):
    pass


def _re_of_term(t):
    if t.op == 're':
        return _parse_re(sexprs(t.val)[0])
    raise NotRegular()


def _constraint(t, var):
    """regex AST of {values of var satisfying t}."""
    ALL = ('star', ('chars', [(0, MAXCP)]))
    if t.is_const:
        return ALL if t.val else NONE
    op = t.op
    if op == 'not':
        return ('not', _constraint(t.args[0], var))
    if op == 'and':
        return ('and', [_constraint(a, var) for a in t.args])
    if op == 'or':
        return ('alt', [_constraint(a, var) for a in t.args])
    if op == '=>':
        return ('alt', [('not', _constraint(t.args[0], var)), _constraint(t.args[1], var)])
    if op == 'str.in_re' and t.args[0] == var:
        return _re_of_term(t.args[1])
    if op in ('str.contains',) and t.args[0] == var and t.args[1].is_const:
        return ('cat', [ALL, _lit(t.args[1].val), ALL])
    if op == 'str.prefixof' and t.args[1] == var and t.args[0].is_const:
        return ('cat', [_lit(t.args[0].val), ALL])
    if op == 'str.suffixof' and t.args[1] == var and t.args[0].is_const:
        return ('cat', [ALL, _lit(t.args[0].val)])
    if op == '=':
        a, b = t.args
        if a == var and b.is_const and isinstance(b.val, str):
            return _lit(b.val)
        if b == var and a.is_const and isinstance(a.val, str):
            return _lit(a.val)
    raise NotRegular()


def decide(asserts):
    """asserts: list of terms.  -> ('unsat', None) | ('sat', {var name: witness}) | None when outside the fragment."""
    vars_, funs, seen = {}, {}, set()
    for a in asserts:
        tm.collect(a, vars_, funs, seen)
    if funs or len(vars_) != 1:
        return None
    (name, sort), = vars_.items()
    if sort != 'String':
        return None
    var = tm.var(name, tm.STR)
    try:
        r = ('and', [_constraint(a, var) for a in asserts])
        w = nonempty_witness(r)
    except (NotRegular, ValueError, KeyError, IndexError):
        return None
    if w is None:
        return 'unsat', None
    return 'sat', {name: w}
