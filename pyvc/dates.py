"""datetime / calendar over symbolic values.

Assumptions (each validated exhaustively by execution in the C20 stage `library-axioms`):
  D1  datetime.date(y,m,d).toordinal() == ORD(y,m,d)  (closed form below) for valid parts
  D2  calendar.monthrange(y,m)[1] == DIM(y,m)
  D3  date.fromordinal(k) yields valid parts (y,m,d) with ORD(y,m,d) == k, 1 <= k <= 3652059
"""
import calendar
import datetime
from . import terms as tm
from .values import SInt, SBool, Sym, Unsupported
from .models import BUILTINS, int_term, is_intlike

MAXORD = datetime.date.max.toordinal()   # 3652059


def c(v):
    return tm.const(v)


def leap_t(y):
    return tm.mk_and(tm.mk_eq(tm.mk_mod(y, c(4)), c(0)),
                     tm.mk_or(tm.mk_ne(tm.mk_mod(y, c(100)), c(0)), tm.mk_eq(tm.mk_mod(y, c(400)), c(0))))


def dim_t(y, m):
    feb = tm.mk_ite(leap_t(y), c(29), c(28))
    m30 = tm.mk_or(*[tm.mk_eq(m, c(k)) for k in (4, 6, 9, 11)])
    return tm.mk_ite(tm.mk_eq(m, c(2)), feb, tm.mk_ite(m30, c(30), c(31)))


_DBM = [0, 31, 59, 90, 120, 151, 181, 212, 243, 273, 304, 334]


def ord_t(y, m, d):
    y1 = tm.mk_sub(y, c(1))
    dby = tm.mk_add(tm.mk_mul(y1, c(365)), tm.mk_div(y1, c(4)), tm.mk_neg(tm.mk_div(y1, c(100))), tm.mk_div(y1, c(400)))
    dbm = c(_DBM[11])
    for k in range(10, -1, -1):
        dbm = tm.mk_ite(tm.mk_eq(m, c(k + 1)), c(_DBM[k]), dbm)
    dbm = tm.mk_add(dbm, tm.mk_ite(tm.mk_and(tm.mk_lt(c(2), m), leap_t(y)), c(1), c(0)))
    return tm.mk_add(dby, dbm, d)


def valid_t(y, m, d):
    return tm.mk_and(tm.mk_le(c(1), y), tm.mk_le(y, c(9999)), tm.mk_le(c(1), m), tm.mk_le(m, c(12)),
                     tm.mk_le(c(1), d), tm.mk_le(d, dim_t(y, m)))


class DateVal:
    """A datetime.datetime (midnight) with symbolic date: `ord` is the proleptic ordinal."""

    def __init__(self, ord_, y, m, d):
        self.ord, self.y, self.m, self.d = ord_, y, m, d

    def __repr__(self):
        return '<DateVal %s>' % tm.to_smt(self.ord)


class DeltaVal:
    def __init__(self, days):
        self.days = days


def assume(interp, note):
    interp.ctx.ghost.setdefault('assumptions', set()).add(note)


def date_from_ord(interp, k):
    """datetime for ordinal k (1 <= k <= MAXORD): parts are the uninterpreted inverse of ORD."""
    ctx = interp.ctx
    if k.is_const:
        dt = datetime.datetime.fromordinal(k.val)
        return dt
    y, m, d = (tm.app(n, (k,), tm.INT) for n in ('civil_y', 'civil_m', 'civil_d'))
    key = ('civil', k)
    if key not in ctx.dec_seen:
        ctx.dec_seen.add(key)
        ctx.axioms.append(valid_t(y, m, d))
        ctx.axioms.append(tm.mk_eq(ord_t(y, m, d), k))
        assume(interp, 'datetime: date.fromordinal(k) has valid parts with ORD(parts) == k (D3)')
    return DateVal(k, y, m, d)


def _datetime_ctor(interp, *args, **kw):
    if kw or len(args) < 3 or len(args) > 7:
        raise Unsupported('datetime() call shape')
    if all(isinstance(a, int) and not isinstance(a, bool) for a in args):
        try:
            return datetime.datetime(*args)
        except Exception as ex:
            interp.raise_(type(ex), *ex.args)
    if len(args) != 3:
        raise Unsupported('symbolic datetime with time part')
    if not all(is_intlike(a) for a in args):
        interp.raise_(TypeError, 'an integer is required')
    y, m, d = (int_term(a) for a in args)
    if not interp.ctx.branch(valid_t(y, m, d)):
        interp.raise_(ValueError, 'date value out of range')
    assume(interp, 'datetime: toordinal() of valid parts equals the closed-form ORD (D1)')
    return DateVal(ord_t(y, m, d), y, m, d)


BUILTINS[datetime.datetime] = _datetime_ctor


def _timedelta_ctor(interp, *args, **kw):
    if args or set(kw) - {'days'}:
        if all(not isinstance(a, Sym) for a in list(args) + list(kw.values())):
            return datetime.timedelta(*args, **kw)
        raise Unsupported('timedelta() call shape')
    v = kw.get('days', 0)
    if isinstance(v, int):
        try:
            return datetime.timedelta(days=v)
        except Exception as ex:
            interp.raise_(type(ex), *ex.args)
    if not is_intlike(v):
        raise Unsupported('timedelta(days=%r)' % (v,))
    t = int_term(v)
    if not interp.ctx.branch(tm.mk_and(tm.mk_le(c(-999999999), t), tm.mk_le(t, c(999999999)))):
        interp.raise_(OverflowError, 'days out of range')
    return DeltaVal(t)


BUILTINS[datetime.timedelta] = _timedelta_ctor


def _monthrange(interp, y, m):
    if isinstance(y, int) and isinstance(m, int):
        try:
            return calendar.monthrange(y, m)
        except Exception as ex:
            interp.raise_(type(ex), *ex.args)
    yt, mt = int_term(y), int_term(m)
    if not interp.ctx.branch(tm.mk_and(tm.mk_le(c(1), mt), tm.mk_le(mt, c(12)))):
        interp.raise_(calendar.IllegalMonthError, m)
    if not interp.ctx.branch(tm.mk_and(tm.mk_le(c(1), yt), tm.mk_le(yt, c(9999)))):
        raise Unsupported('monthrange outside years 1..9999')
    assume(interp, 'calendar.monthrange(y,m)[1] equals DIM(y,m) (D2)')
    wd = interp.ctx.fresh('monthrange_wd', tm.INT)
    return (SInt(wd), SInt(dim_t(yt, mt)))


BUILTINS[calendar.monthrange] = _monthrange


def date_binop(interp, op, a, b):
    """Arithmetic on datetime values; returns NotImplemented if not a date operation."""
    def as_date(v):
        if isinstance(v, DateVal):
            return v
        if isinstance(v, datetime.datetime) and (v.hour, v.minute, v.second, v.microsecond) == (0, 0, 0, 0):
            return DateVal(c(v.toordinal()), c(v.year), c(v.month), c(v.day))
        return None

    def as_delta(v):
        if isinstance(v, DeltaVal):
            return v
        if isinstance(v, datetime.timedelta) and v.seconds == 0 and v.microseconds == 0:
            return DeltaVal(c(v.days))
        return None
    if not any(isinstance(x, (DateVal, DeltaVal)) for x in (a, b)):
        return NotImplemented
    da, db, ta, tb = as_date(a), as_date(b), as_delta(a), as_delta(b)
    if op == '+' and da and tb or op == '+' and ta and db:
        d0, t0 = (da, tb) if da and tb else (db, ta)
        k = tm.mk_add(d0.ord, t0.days)
        if not interp.ctx.branch(tm.mk_and(tm.mk_le(c(1), k), tm.mk_le(k, c(MAXORD)))):
            interp.raise_(OverflowError, 'date value out of range')
        return date_from_ord(interp, k)
    if op == '-' and da and tb:
        k = tm.mk_sub(da.ord, tb.days)
        if not interp.ctx.branch(tm.mk_and(tm.mk_le(c(1), k), tm.mk_le(k, c(MAXORD)))):
            interp.raise_(OverflowError, 'date value out of range')
        return date_from_ord(interp, k)
    if op == '-' and da and db:
        return DeltaVal(tm.mk_sub(da.ord, db.ord))
    raise Unsupported('datetime operation %s' % op)


def date_getattr(interp, o, name):
    if isinstance(o, DateVal):
        if name in ('year', 'month', 'day'):
            t = {'year': o.y, 'month': o.m, 'day': o.d}[name]
            return t.val if t.is_const else SInt(t)
        if name in ('hour', 'minute', 'second'):
            t = getattr(o, {'hour': 'h', 'minute': 'mi', 'second': 's'}[name], None)
            return 0 if t is None else SInt(t)
        if name == 'microsecond':
            return 0
    if isinstance(o, DeltaVal):
        if name == 'days':
            return o.days.val if o.days.is_const else SInt(o.days)
        if name in ('seconds', 'microseconds'):
            return 0
    raise Unsupported('attribute %s of %r' % (name, o))


def _now(interp, tz=None):
    """datetime.datetime.now(): a fresh, arbitrary instant on every call (ghost list `now_calls`)."""
    ctx = interp.ctx
    calls = ctx.ghost.setdefault('now_calls', [])
    i = len(calls)
    k = ctx.fresh('now%d.ordinal' % i, tm.INT)
    ctx.assume(tm.mk_le(c(datetime.date(1900, 3, 1).toordinal()), k))
    ctx.assume(tm.mk_le(k, c(MAXORD)))
    d = date_from_ord(interp, k)
    d.h, d.mi, d.s = (ctx.fresh('now%d.%s' % (i, n), tm.INT) for n in ('h', 'mi', 's'))
    for t, hi in ((d.h, 23), (d.mi, 59), (d.s, 59)):
        ctx.assume(tm.mk_le(c(0), t))
        ctx.assume(tm.mk_le(t, c(hi)))
    calls.append(d)
    return d


BUILTINS[datetime.datetime.now] = _now
