#!/bin/sh
# usage: tools_seed_matrix.sh <dir with seeds> [tier]  — applies each seeded change to /repo, runs the check of its property, restores /repo,
# prints one line per seed: id, exit code, and which kinds of obligations raised the alarm (proof / table / bounded)
dir=$1; tier=${2:-quick}
for d in $dir/*/; do
  n=$(basename $d); p=$(echo $n | cut -c1-3)
  [ -f $d/patch.diff ] || continue
  (cd /repo && git apply $d/patch.diff) || { echo "$n patch-does-not-apply"; continue; }
  (cd /verif && timeout 1800 ./check $p --tier $tier > /tmp/matrix_$n.log 2>/dev/null); rc=$?
  (cd /repo && git checkout -- .); (cd /verif && git checkout -- evidence 2>/dev/null)   # evidence written against a changed tree is discarded
  proof=$(grep "^VIOLATION" /tmp/matrix_$n.log | grep -v "obligation=B[0-9]:\|obligation=T:\|obligation=E:\|obligation=A:" | wc -l)
  table=$(grep "^VIOLATION" /tmp/matrix_$n.log | grep -c "obligation=T:")
  bounded=$(grep "^VIOLATION" /tmp/matrix_$n.log | grep -c "obligation=[BEA][0-9]*:")
  broken=$(grep -c "^PROOF-BROKEN" /tmp/matrix_$n.log)
  first=$(grep "^VIOLATION" /tmp/matrix_$n.log | head -1 | sed 's/.*obligation=//' | cut -c1-110)
  echo "$n rc=$rc proof=$proof table=$table bounded=$bounded proof_broken=$broken first=[$first]"
done
