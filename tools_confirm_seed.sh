#!/bin/sh
# usage: tools_confirm_seed.sh <seed dir>  — confirms a seeded change in a scratch worktree of /repo's HEAD:
#   demo passes on the clean tree, fails with the patch, and the test suite gives the same failures as the clean tree.
d=$1; n=$(basename $d); wt=/tmp/confirm_$n
git -C /repo worktree add -q --detach $wt HEAD || exit 9
cd $wt
clean_demo=$(PYTHONPATH=$wt /venv/bin/python -W ignore $d/demo.py > /tmp/confirm_$n.clean.log 2>&1; echo $?)
git apply $d/patch.diff || { echo "$n patch-does-not-apply"; cd /; git -C /repo worktree remove --force $wt; exit 8; }
patched_demo=$(PYTHONPATH=$wt /venv/bin/python -W ignore $d/demo.py > /tmp/confirm_$n.patched.log 2>&1; echo $?)
/venv/bin/python -W ignore -m pytest -q -p no:cacheprovider --timeout=900 --continue-on-collection-errors -x --deselect test/test_cell.py::TestCell::test_output_403 --deselect test/test_cell.py::TestCell::test_output_404 --deselect test/test_excel.py::TestExcelModel::test_excel_model > /tmp/confirm_$n.tests.log 2>&1
tests_rc=$?
summary=$(tail -1 /tmp/confirm_$n.tests.log)
cd /; git -C /repo worktree remove --force $wt
echo "$n clean_demo_rc=$clean_demo patched_demo_rc=$patched_demo tests_rc=$tests_rc :: $summary"
