#!/venv/bin/python
"""usage: tools_mut_checks.py <mutant dir> <workers>
For every mutant the repository's test suite did not notice (tests.txt: survived): apply it to a scratch worktree of /repo HEAD, run the
quick checks of the properties anchored in the mutated file against that worktree (VERIF_REPO / PYTHONPATH / VERIF_OUTDIR point the
engine there; the registered checks themselves always use /repo), and record which checks report a violation.  -> <dir>/checks.jsonl"""
import json
import os
import subprocess
import sys
from concurrent.futures import ThreadPoolExecutor

PROPS = {
    'formulas/tokens/operator.py': ['C01', 'C18', 'C09'], 'formulas/tokens/operand.py': ['C04', 'C18', 'C01', 'C14', 'C09'],
    'formulas/tokens/function.py': ['C01', 'C18', 'C14'], 'formulas/tokens/parenthesis.py': ['C01', 'C18'],
    'formulas/tokens/__init__.py': ['C18', 'C01'], 'formulas/parser.py': ['C18', 'C01', 'C09'], 'formulas/builder.py': ['C01', 'C13', 'C14', 'C09'],
    'formulas/ranges.py': ['C06', 'C05', 'C04'], 'formulas/cell.py': ['C10', 'C13', 'C14', 'C05', 'C09'],
    'formulas/excel/__init__.py': ['C09', 'C10', 'C13', 'C14'], 'formulas/excel/cycle.py': ['C10'],
    'formulas/functions/__init__.py': ['C05', 'C11', 'C12', 'C19', 'C02', 'C13', 'C14'], 'formulas/functions/operators.py': ['C02', 'C01', 'C06'],
    'formulas/functions/look.py': ['C19', 'C11', 'C02'], 'formulas/functions/math.py': ['C12', 'C20', 'C13', 'C11', 'C19'],
    'formulas/functions/stat.py': ['C12', 'C19', 'C11'], 'formulas/functions/text.py': ['C12', 'C02', 'C11'],
    'formulas/functions/logic.py': ['C12', 'C10', 'C11'], 'formulas/functions/info.py': ['C12', 'C11'],
    'formulas/functions/date.py': ['C20', 'C13', 'C11', 'C05'], 'formulas/functions/eng.py': ['C20', 'C11'],
}


def main():
    d, W = sys.argv[1], int(sys.argv[2])
    index = {m['id']: m for m in json.load(open(os.path.join(d, 'index.json')))}
    surv = [l.split()[0] for l in open(os.path.join(d, 'tests.txt')) if l.split()[1] == 'survived']
    done = set()
    outp = os.path.join(d, 'checks.jsonl')
    if os.path.exists(outp):
        done = {json.loads(l)['id'] for l in open(outp)}
    todo = [m for m in sorted(surv) if m not in done]
    wts = ['/tmp/mutck_%d' % w for w in range(W)]
    for wt in wts:
        subprocess.run(['git', '-C', '/repo', 'worktree', 'add', '-q', '--detach', wt, 'HEAD'])
    import queue
    free = queue.Queue()
    for wt in wts:
        free.put(wt)
    import threading
    lock = threading.Lock()

    def run(mid):
        wt = free.get()
        try:
            m = index[mid]
            subprocess.run(['git', '-C', wt, 'checkout', '-q', '--', '.'])
            if subprocess.run(['git', '-C', wt, 'apply', os.path.join(d, mid + '.diff')]).returncode:
                res = dict(id=mid, error='noapply')
            else:
                env = dict(os.environ, VERIF_REPO=wt, PYTHONPATH=wt, VERIF_OUTDIR='/tmp/mutout_%s' % os.path.basename(wt))
                res = dict(id=mid, file=m['file'], line=m['line'], function=m['function'], kind=m['kind'], before=m['before'], after=m['after'],
                           results={})
                for p in PROPS[m['file']]:
                    r = subprocess.run(['./check', p, '--tier', 'quick'], cwd='/verif', env=env, capture_output=True, text=True, timeout=3600)
                    lines = [l for l in r.stdout.splitlines() if l.startswith(('VIOLATION', 'PROOF-BROKEN', 'UNDECIDED', 'CHECKER'))]
                    res['results'][p] = dict(rc=r.returncode, first=(lines[0][:200] if lines else ''),
                                             n_violation=sum(l.startswith('VIOLATION') for l in lines),
                                             n_other=sum(not l.startswith('VIOLATION') for l in lines))
                    if r.returncode == 1:
                        break           # caught
                res['caught'] = any(v['rc'] == 1 for v in res['results'].values())
            with lock:
                with open(outp, 'a') as f:
                    f.write(json.dumps(res) + '\n')
            subprocess.run(['git', '-C', wt, 'checkout', '-q', '--', '.'])
        finally:
            free.put(wt)

    with ThreadPoolExecutor(W) as ex:
        list(ex.map(run, todo))
    for wt in wts:
        subprocess.run(['git', '-C', '/repo', 'worktree', 'remove', '--force', wt])
    rs = [json.loads(l) for l in open(outp)]
    print('%d survivors of the test suite: %d caught by a check, %d not' % (len(rs), sum(r.get('caught', False) for r in rs),
                                                                        sum(not r.get('caught', False) for r in rs)))


if __name__ == '__main__':
    main()
