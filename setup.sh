#!/bin/sh
# Offline setup: the deductive core needs only /venv/bin/python + solver CLIs.
set -e
cd "$(dirname "$0")"
for b in z3-new /usr/bin/z3 /usr/bin/cvc5; do command -v $b >/dev/null || { echo "missing solver $b"; exit 1; }; done
/venv/bin/python -c "import formulas, schedula, numpy, regex" 
mkdir -p evidence replays
echo setup ok
