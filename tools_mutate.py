#!/venv/bin/python
"""usage: tools_mutate.py <repo root> <out dir> [max per file]
Generates first-order mutants of the library files the properties are anchored in (textual replacement at AST node
positions, so the rest of the file is untouched): comparison / arithmetic / boolean operator swaps, small integer constants
+-1, True/False, `not` dropped, min/max, dropped .upper()/.lower()/.strip(), slice bounds.  One unified diff per mutant in
<out dir>/<id>.diff plus <out dir>/index.json (file, line, function, kind, before -> after)."""
import ast
import difflib
import json
import os
import random
import sys
import warnings
warnings.filterwarnings("ignore")

FILES = ['formulas/tokens/operator.py', 'formulas/tokens/operand.py', 'formulas/tokens/function.py', 'formulas/tokens/parenthesis.py',
         'formulas/tokens/__init__.py', 'formulas/parser.py', 'formulas/builder.py', 'formulas/ranges.py', 'formulas/cell.py',
         'formulas/excel/__init__.py', 'formulas/excel/cycle.py', 'formulas/functions/__init__.py', 'formulas/functions/operators.py',
         'formulas/functions/look.py', 'formulas/functions/math.py', 'formulas/functions/stat.py', 'formulas/functions/text.py',
         'formulas/functions/logic.py', 'formulas/functions/info.py', 'formulas/functions/date.py', 'formulas/functions/eng.py']

CMP = {ast.Lt: '<=', ast.LtE: '<', ast.Gt: '>=', ast.GtE: '>', ast.Eq: '!=', ast.NotEq: '==', ast.Is: 'is not', ast.IsNot: 'is',
       ast.In: 'not in', ast.NotIn: 'in'}
CMP_TXT = {ast.Lt: '<', ast.LtE: '<=', ast.Gt: '>', ast.GtE: '>=', ast.Eq: '==', ast.NotEq: '!=', ast.Is: 'is', ast.IsNot: 'is not',
           ast.In: 'in', ast.NotIn: 'not in'}
BIN = {ast.Add: ('+', '-'), ast.Sub: ('-', '+'), ast.Mult: ('*', '/'), ast.FloorDiv: ('//', '/'), ast.Mod: ('%', '//')}


def seg(lines, node):
    if node.lineno != node.end_lineno:
        return None
    return lines[node.lineno - 1][node.col_offset:node.end_col_offset]


def between(lines, a, b):
    """text between the end of node a and the start of node b (same line), with its column"""
    if a.end_lineno != b.lineno:
        return None
    return lines[b.lineno - 1][a.end_col_offset:b.col_offset], a.end_col_offset


def mutants_of(src):
    tree = ast.parse(src)
    lines = src.split('\n')
    out = []        # (lineno, col, end_col, new text, kind)
    func_of = {}
    for fn in ast.walk(tree):
        if isinstance(fn, (ast.FunctionDef, ast.Lambda)):
            for n in ast.walk(fn):
                func_of.setdefault(id(n), getattr(fn, 'name', '<lambda>'))
    # strings inside regexes / docstrings are never touched
    for node in ast.walk(tree):
        f = func_of.get(id(node), '<module>')
        if isinstance(node, ast.Compare) and len(node.ops) == 1:
            r = between(lines, node.left, node.comparators[0])
            if r:
                txt, col = r
                op = CMP_TXT[type(node.ops[0])]
                k = txt.find(op)
                if k >= 0 and txt.strip() == op:
                    out.append((node.lineno, col + k, col + k + len(op), CMP[type(node.ops[0])], 'cmp', f))
        elif isinstance(node, ast.BinOp) and type(node.op) in BIN:
            if isinstance(node.left, ast.Constant) and isinstance(node.left.value, str):
                continue        # string formatting / concatenation of literals
            r = between(lines, node.left, node.right)
            if r:
                txt, col = r
                op, new = BIN[type(node.op)]
                if txt.strip() == op:
                    k = txt.find(op)
                    out.append((node.lineno, col + k, col + k + len(op), new, 'arith', f))
        elif isinstance(node, ast.BoolOp) and len(node.values) == 2:
            r = between(lines, node.values[0], node.values[1])
            if r:
                txt, col = r
                op = 'and' if isinstance(node.op, ast.And) else 'or'
                if txt.strip() == op:
                    k = txt.find(op)
                    out.append((node.lineno, col + k, col + k + len(op), 'or' if op == 'and' else 'and', 'bool', f))
        elif isinstance(node, ast.UnaryOp) and isinstance(node.op, ast.Not):
            s = seg(lines, node)
            o = seg(lines, node.operand)
            if s and o and s.startswith('not '):
                out.append((node.lineno, node.col_offset, node.end_col_offset, o, 'not-dropped', f))
        elif isinstance(node, ast.Constant) and type(node.value) is int and 0 <= node.value <= 12:
            s = seg(lines, node)
            if s == str(node.value):
                out.append((node.lineno, node.col_offset, node.end_col_offset, str(node.value + 1), 'const+1', f))
                if node.value > 0:
                    out.append((node.lineno, node.col_offset, node.end_col_offset, str(node.value - 1), 'const-1', f))
        elif isinstance(node, ast.Constant) and type(node.value) is bool:
            s = seg(lines, node)
            if s in ('True', 'False'):
                out.append((node.lineno, node.col_offset, node.end_col_offset, 'False' if node.value else 'True', 'bool-const', f))
        elif isinstance(node, ast.Call) and isinstance(node.func, ast.Name) and node.func.id in ('min', 'max'):
            out.append((node.lineno, node.func.col_offset, node.func.end_col_offset, 'max' if node.func.id == 'min' else 'min', 'minmax', f))
        elif isinstance(node, ast.Call) and isinstance(node.func, ast.Attribute) and node.func.attr in ('upper', 'lower', 'strip') \
                and not node.args and not node.keywords:
            s = seg(lines, node)
            o = seg(lines, node.func.value)
            if s and o:
                out.append((node.lineno, node.col_offset, node.end_col_offset, o, 'drop-' + node.func.attr, f))
        elif isinstance(node, ast.IfExp):
            b, o = seg(lines, node.body), seg(lines, node.orelse)
            s = seg(lines, node)
            if s and b and o and len(s) < 100:
                t = seg(lines, node.test)
                if t:
                    out.append((node.lineno, node.col_offset, node.end_col_offset, '%s if %s else %s' % (o, t, b), 'ifexp-swapped', f))
    # statements left out / conditions decided: a forgotten line, a branch that is always (never) taken
    if os.environ.get('MUT_STMTS'):
        out = []
        for fn in ast.walk(tree):
            if not isinstance(fn, ast.FunctionDef):
                continue
            for node in ast.walk(fn):
                f = func_of.get(id(node), fn.name)
                if isinstance(node, (ast.Assign, ast.AugAssign, ast.Expr)) and node.lineno == node.end_lineno:
                    if isinstance(node, ast.Expr) and isinstance(node.value, ast.Constant):
                        continue            # docstring
                    out.append((node.lineno, node.col_offset, node.end_col_offset, 'pass', 'stmt-deleted', f))
                elif isinstance(node, (ast.If, ast.While)) and node.test.lineno == node.test.end_lineno:
                    t = node.test
                    out.append((t.lineno, t.col_offset, t.end_col_offset, 'True', 'cond-true', f))
                    out.append((t.lineno, t.col_offset, t.end_col_offset, 'False', 'cond-false', f))
                elif isinstance(node, ast.Return) and node.value is not None and node.lineno == node.end_lineno \
                        and isinstance(node.value, (ast.BinOp, ast.Call)) and isinstance(getattr(node.value, 'left', None), ast.Name):
                    v = node.value
                    out.append((v.lineno, v.col_offset, v.end_col_offset, v.left.id, 'return-left-operand', f))
    res = []
    for ln, c0, c1, new, kind, f in out:
        old_line = lines[ln - 1]
        new_line = old_line[:c0] + new + old_line[c1:]
        if new_line == old_line:
            continue
        new_lines = list(lines)
        new_lines[ln - 1] = new_line
        new_src = '\n'.join(new_lines)
        try:
            compile(new_src, 'm', 'exec')
        except SyntaxError:
            continue
        res.append((ln, kind, f, old_line.strip(), new_line.strip(), new_src))
    return res


def main():
    root, outdir = sys.argv[1], sys.argv[2]
    cap = int(sys.argv[3]) if len(sys.argv) > 3 else 60
    os.makedirs(outdir, exist_ok=True)
    rng = random.Random(int(os.environ.get('MUT_SEED', '20260928')))
    skip = set()
    if os.environ.get('MUT_SKIP'):
        skip = {(m['file'], m['line'], m['after']) for m in json.load(open(os.environ['MUT_SKIP']))}
    only = os.environ.get('MUT_FILES')
    index = []
    for rel in FILES:
        if only and rel not in only.split(','):
            continue
        src = open(os.path.join(root, rel)).read()
        ms = [m for m in mutants_of(src) if (rel, m[0], m[4]) not in skip]
        rng.shuffle(ms)
        # spread over functions: at most 4 mutants per function, `cap` per file
        per = {}
        chosen = []
        for m in ms:
            if per.get(m[2], 0) >= int(os.environ.get('MUT_PER_FUNCTION', '4')):
                continue
            per[m[2]] = per.get(m[2], 0) + 1
            chosen.append(m)
            if len(chosen) >= cap:
                break
        for ln, kind, f, old, new, new_src in chosen:
            mid = 'M%04d' % len(index)
            diff = ''.join(difflib.unified_diff(src.splitlines(True), new_src.splitlines(True), 'a/' + rel, 'b/' + rel, n=3))
            open(os.path.join(outdir, mid + '.diff'), 'w').write(diff)
            index.append(dict(id=mid, file=rel, line=ln, function=f, kind=kind, before=old, after=new))
    json.dump(index, open(os.path.join(outdir, 'index.json'), 'w'), indent=1)
    print(len(index), 'mutants')


if __name__ == '__main__':
    main()
