"""C11 — worksheet functions are total and never lose an error value (DESIGN §4 C11, A.7)."""
import math
import schedula as sh
from pyvc.bounded import Stage

CONTRACTS = []

# functions for which an error argument need not give an error (documented error-handling / inspection
# functions, lazily evaluated branches, constructors, counting functions that skip errors by definition)
ERROR_TOLERANT = {
    'FILTER',      # the third argument (if_empty) is only used when nothing is selected
    'IFERROR', 'IFNA', 'ISERR', 'ISERROR', 'ISNA', 'ISBLANK', 'ISLOGICAL', 'ISNONTEXT', 'ISNUMBER', 'ISTEXT',
    'IF', 'IFS', 'SWITCH', 'COUNT', 'COUNTA', 'COUNTBLANK', 'COUNTIF', 'ROW', 'COLUMN', 'NA', 'TRUE', 'FALSE', 'PI',
    'NOW', 'TODAY', 'RAND', 'ARRAY', 'ARRAYROW', 'DUMMYFUNCTION', 'ADDRESS',
}


# functions that *select* among the elements of an array/range argument: an error in an element that is not
# selected is not consumed; only errors given as scalar arguments are checked for them
SELECTING = {'INDEX', 'FILTER', 'VLOOKUP', 'HLOOKUP', 'LOOKUP', 'MATCH', 'T', 'SINGLE', 'LARGE', 'SMALL'}
# criteria functions skip the cells (errors included) that do not satisfy the criterion
CRITERIA = {'SUMIF', 'AVERAGEIF', 'COUNTIF'}
# Excel arities where the python signature is wider
EXCEL_ARITY = {'HLOOKUP': (3, 4), 'VLOOKUP': (3, 4), 'BIN2DEC': (1, 1), 'OCT2DEC': (1, 1), 'HEX2DEC': (1, 1), 'PI': (0, 0), 'TRUE': (0, 0), 'FALSE': (0, 0), 'NA': (0, 0),
               'ISBLANK': (1, 1), 'ISERR': (1, 1), 'ISERROR': (1, 1), 'ISEVEN': (1, 1), 'ISODD': (1, 1), 'ISLOGICAL': (1, 1),
               'ISNA': (1, 1), 'ISNONTEXT': (1, 1), 'ISNUMBER': (1, 1), 'ISTEXT': (1, 1), 'NOW': (0, 0), 'TODAY': (0, 0), 'RAND': (0, 0)}


def _innermost(f, depth=0):
    if isinstance(f, dict):
        f = f['function']
    for _ in range(12):
        cells = dict(zip(getattr(getattr(f, '__code__', None), 'co_freevars', ()), (c.cell_contents for c in (getattr(f, '__closure__', None) or ()))))
        g = cells.get('func')
        if g is None or g is f:
            break
        f = g
    import functools
    while isinstance(f, functools.partial):
        f = f.func
    return f


_ARITY = {}


def arity_range(name):
    """(min, max) number of arguments the worksheet function admits; max None = unbounded / unknown."""
    import inspect
    import numpy as np
    import formulas
    if name in _ARITY:
        return _ARITY[name]
    base = _strip(name)
    if base in EXCEL_ARITY:
        r = EXCEL_ARITY[base]
    else:
        f = _innermost(formulas.get_functions()[name])
        r = (0, None)
        try:
            if isinstance(f, np.ufunc):
                r = (f.nin, f.nin)
            else:
                ps = list(inspect.signature(f).parameters.values())
                lo = sum(1 for p in ps if p.kind in (p.POSITIONAL_ONLY, p.POSITIONAL_OR_KEYWORD) and p.default is p.empty)
                hi = None if any(p.kind == p.VAR_POSITIONAL for p in ps) else sum(
                    1 for p in ps if p.kind in (p.POSITIONAL_ONLY, p.POSITIONAL_OR_KEYWORD))
                r = (lo, hi)
        except (TypeError, ValueError):
            pass
    _ARITY[name] = r
    return r


def _strip(name):
    for p in ('_XLFN._XLWS.', '_XLFN.', '__XLUDF.'):
        if name.startswith(p):
            return name[len(p):]
    return name


def _pool():
    import numpy as np
    from formulas.tokens.operand import Error
    from formulas.functions import Array
    from formulas.ranges import Ranges
    E = Error.errors
    scal = [0, 1, -1, 2.5, 12, 'a', '1', '', True, False, sh.EMPTY, E['#N/A'], E['#DIV/0!'], E['#VALUE!']]

    def arr(rows):
        return np.asarray(rows, object).view(Array)

    def rng(ref, rows):
        return Ranges().push(ref, np.asarray(rows, object))
    # shapes 2x2, 1x2, 2x1, 1x1 only: they all stretch to 2x2 (mismatched non-stretchable shapes are not demanded)
    # (the constant and the all-zero arrays are the degenerate inputs of the statistical kernels: zero variance, zero sums)
    arrays = [arr([[1, 2], [3, 4]]), arr([[1, 'a'], [True, 0.5]]), arr([[1], [E['#N/A']]]), arr([[sh.EMPTY, 2.0]]),
              arr([[1, 1], [1, 1]]), arr([[0, 0]])]
    ranges = [('A1:B2', [[1, 2], [3, 4]]), ('A1:A2', [[1], ['x']]), ('A1:B1', [[E['#REF!'], 5]]), ('C3', [[7]]), ('D1:D2', [[sh.EMPTY], [3]]),
              ('F1:G2', [[3, 3], [3, 3]])]
    return scal, arrays, ranges, rng


def _materialise(spec):
    scal, arrays, ranges, rng = _pool()
    kind, i = spec
    if kind == 's':
        return scal[i]
    if kind == 'a':
        return arrays[i]
    return rng(*ranges[i])


def _has_error(v):
    from formulas.tokens.operand import XlError
    return any(isinstance(x, XlError) for x in _flat(v))


def _flat(v):
    import numpy as np
    from formulas.ranges import Ranges
    if isinstance(v, Ranges):
        v = v.value
    if isinstance(v, np.ndarray):
        out = []
        for x in v.ravel().tolist():
            out.extend(_flat(x) if isinstance(x, (list, tuple, np.ndarray)) else [x])
        return out
    if isinstance(v, (list, tuple)):
        out = []
        for x in v:
            out.extend(_flat(x))
        return out
    return [v]


def _xl_ok_elem(x):
    import numpy as np
    from formulas.tokens.operand import XlError
    if isinstance(x, XlError) or x is sh.EMPTY:
        return True
    if isinstance(x, (bool, np.bool_)):
        return True
    if isinstance(x, str):
        return x is not sh.NONE and not isinstance(x, sh.Token)
    if isinstance(x, (int, float, np.integer, np.floating)):
        return math.isfinite(float(x))
    return False


def _cases(tier, rng):
    import formulas
    names = sorted(formulas.get_functions())
    scal, arrays, ranges, _ = _pool()
    specs = [('s', i) for i in range(len(scal))] + [('a', i) for i in range(len(arrays))] + [('r', i) for i in range(len(ranges))]
    per = 25 if tier == 'quick' else 2000
    out = []
    for name in names:
        if _strip(name) in ('NOW', 'TODAY', 'RAND', 'RANDBETWEEN'):
            pass
        out.append((name, ()))
        if _strip(name) in ('ARRAY', 'ARRAYROW'):
            continue      # array-literal constructors, only ever called by the parser
        for s in specs:
            out.append((name, (s,)))
        for n in (2, 3, 4, 5):
            for _ in range(per):
                out.append((name, tuple(rng.choice(specs) for _ in range(n))))
        # two-vector kernels (correlation, regression, lookups): every ordered pair of array / range operands
        multi = [s for s in specs if s[0] != 's']
        for a in multi:
            for b in multi:
                out.append((name, (a, b)))
    return out


def _call(name, args):
    import formulas
    F = formulas.get_functions()
    f = F[name]
    if isinstance(f, dict):
        fn = f['function']
        extra = [False] * len(f.get('extra_inputs', {}))
        return fn(*extra, *args)
    return f(*args)


def _check(case):
    name, specs = case
    args = [_materialise(s) for s in specs]
    lo, hi = arity_range(name)
    admissible = lo <= len(args) and (hi is None or len(args) <= hi)
    import signal

    class _Timeout(BaseException):
        pass

    def _alarm(*a):
        raise _Timeout()
    old = signal.signal(signal.SIGALRM, _alarm)
    signal.setitimer(signal.ITIMER_REAL, 5.0)
    try:
        res = _call(name, args)
    except _Timeout:
        return '%s(%s) did not return within 5 s' % (name, ', '.join(map(_show, args)))
    except Exception as ex:
        if not admissible:
            return None       # not an admissible number of arguments: nothing is demanded
        return '%s(%s) raised %s: %s' % (name, ', '.join(map(_show, args)), type(ex).__name__, str(ex)[:80])
    finally:
        signal.setitimer(signal.ITIMER_REAL, 0)
        signal.signal(signal.SIGALRM, old)
    if res is sh.NONE:
        return '%s(%s) returned the "no value" marker' % (name, ', '.join(map(_show, args)))
    bad = [x for x in _flat(res) if not _xl_ok_elem(x)]
    if bad:
        return '%s(%s) returned a foreign value %r (%s)' % (name, ', '.join(map(_show, args)), bad[0], type(bad[0]).__name__)
    base = _strip(name)
    if admissible and base not in ERROR_TOLERANT and base not in CRITERIA:
        from formulas.tokens.operand import XlError
        consumed = [a for a in args if isinstance(a, XlError)] if base in SELECTING else [a for a in args if _has_error(a)]
        if consumed and not _has_error(res):
            return '%s(%s) lost the error: result %s' % (name, ', '.join(map(_show, args)), _show(res))
    return None


def _show(v):
    import numpy as np
    from formulas.ranges import Ranges
    if isinstance(v, Ranges):
        return 'Ranges(%s=%s)' % (v.ranges[0]['name'], v.value.tolist())
    if isinstance(v, np.ndarray):
        return '{%s}' % v.tolist()
    return repr(v)


def _classify_inject(case, detail):
    name, n, b, pos, how = case
    if _strip(name) in ('VLOOKUP', 'HLOOKUP') and n == 4 and pos == 3 and how == 'scalar':
        return 'KF-C11-2'           # an error given as range_lookup is ignored
    return None


def _classify(case, detail):
    name = _strip(case[0])
    if name == 'NPV' and 'foreign value' in detail and ('nan' in detail or 'inf' in detail):
        args = [_materialise(s) for s in case[1]]
        if args and not isinstance(args[0], bool) and isinstance(args[0], (int, float)) and args[0] == -1:
            return 'KF-C11-1'
    if name in ('VLOOKUP', 'HLOOKUP') and 'lost the error' in detail and len(case[1]) == 4:
        from formulas.tokens.operand import XlError
        args = [_materialise(s) for s in case[1]]
        if isinstance(args[3], XlError) and not any(isinstance(a, XlError) for a in args[:3]):
            return 'KF-C11-2'
    return None


# ---- single error injection: an error in ONE argument of an otherwise successful call must surface -----------------------------
_BENIGN = [(1,), (2,), (0.5,), (3, 2), (1, 2, 3)]


def _inject_cases(tier, rng):
    import formulas
    out = []
    for name in sorted(formulas.get_functions()):
        base = _strip(name)
        if base in ERROR_TOLERANT or base in CRITERIA or base in ('ARRAY', 'ARRAYROW'):
            continue
        lo, hi = arity_range(name)
        for n in range(max(lo, 1), min(5, hi if hi is not None else 5) + 1):
            for b in range(len(_BENIGN)):
                for pos in range(n):
                    for how in ('scalar', 'array'):
                        out.append((name, n, b, pos, how))
    return out


def _inject_args(n, b, pos=None, how=None):
    import numpy as np
    from formulas.tokens.operand import Error
    from formulas.functions import Array
    vals = _BENIGN[b]
    args = [vals[i % len(vals)] for i in range(n)]
    if pos is not None:
        na = Error.errors['#N/A']
        args[pos] = na if how == 'scalar' else np.asarray([[args[pos], na]], object).view(Array)
    return args


def _check_inject(case):
    name, n, b, pos, how = case
    import signal

    class _Timeout(BaseException):
        pass

    def _alarm(*a):
        raise _Timeout()
    old = signal.signal(signal.SIGALRM, _alarm)
    signal.setitimer(signal.ITIMER_REAL, 5.0)
    try:
        try:
            ref = _call(name, _inject_args(n, b))
        except Exception:
            return None                 # the call without the error does not succeed: nothing to compare (B1 reports raises)
        if ref is sh.NONE or _has_error(ref):
            return None                 # already an error without the injected one: the case shows nothing
        args = _inject_args(n, b, pos, how)
        try:
            res = _call(name, args)
        except Exception as ex:
            return '%s(%s) raised %s' % (name, ', '.join(map(_show, args)), type(ex).__name__)
    except _Timeout:
        return '%s: did not return within 5 s' % name
    finally:
        signal.setitimer(signal.ITIMER_REAL, 0)
        signal.signal(signal.SIGALRM, old)
    if _strip(name) in SELECTING and how == 'array':
        return None                     # selecting functions may not consume the array element that holds the error
    if not _has_error(res):
        return '%s(%s) lost the error in argument %d: result %s (without the error: %s)' % (
            name, ', '.join(map(_show, args)), pos + 1, _show(res), _show(ref))
    return None


def _inject_nontrivial(case):
    return True


BOUNDED = [
    Stage('B2:an-error-in-one-argument-of-a-successful-call-surfaces', 'C11', _inject_cases, _check_inject,
          'every function (except the documented error-handling / inspection / criteria functions) x admissible arities 1..5 x 5 benign numeric '
          'argument patterns x every argument position x {error scalar, array holding an error}: when the call without the error succeeds, '
          'the call with it yields an error', classify=lambda case, detail: _classify_inject(case, detail), max_report=60),
    Stage('B1:totality-and-error-preservation', 'C11', _cases, _check,
          'all 247 names x arities 0..5 x pool of 14 scalars (incl. blank, 3 errors), 4 array literals, 4 ranges: every '
          '1-argument call, 25 (quick) / 2000 (thorough) random tuples per higher arity', classify=_classify, max_report=400),
]

PROPERTIES = {
    'C11': dict(
        level='other',
        explanation=(
            'Proved: exception flow of the wrappers every registration goes through (wrap_func, wrap_ranges_func, safe_eval with an '
            'arbitrary kernel that may return anything or raise any of 14 exception kinds, get_error) on the real bodies; table '
            'obligations: all 247 live registrations are wrapped by wrap_func (or are the listed constants / inspection functions). '
            'Bounded: totality, result kinds and error preservation of every function over value pools (scalars of all kinds, blank, '
            'array literals, ranges).'),
        assumptions=['opaque kernels: a wrapped function is modelled by its possible outcomes (return anything / raise)',
                     'numpy applies safe_eval once per element; np.asarray([[x]], object) builds a 1x1 object array'],
        not_proved=['totality and error preservation of the individual kernels: bounded stage only'],
        bounded_rule='(name, arity, argument tuple) cases; distinct = distinct cases',
    ),
}


# ====================================================================================
# proved part: exception flow of the wrappers every registration goes through (A.7)
from pyvc.contract import Contract, FnT, OpaqueT, ErrT, OneOf, ConstT, TupleT, ObjT, StrT
from pyvc.spec import n_calls, is_1x1_of, returned_by, raised_by
from formulas.tokens.operand import VALUE
from formulas import errors as _E

# what an arbitrary wrapped function may do: return anything, or raise any of these
ANY_OUTCOME = [
    (_E.FoundError, {'err': ErrT()}), (_E.InvalidRangeError, {}), (_E.RangeValueError, {}), (_E.BroadcastError, {}),
    (_E.FormulaError, {}), (ValueError, {}), (TypeError, {}), (ZeroDivisionError, {}), (OverflowError, {}),
    (KeyError, {}), (IndexError, {}), (AttributeError, {}), (AssertionError, {}), (RecursionError, {}),
]


def lemma_wrap_func(func, a, b):
    from formulas.functions import wrap_func
    return wrap_func(func, ranges=True)(a, b)


c_wf = Contract(lambda: lemma_wrap_func, dict(func=FnT(ANY_OUTCOME), a=OpaqueT(), b=OpaqueT()), 'C11',
                name='wrap_func.wrapper', use=[])
CONTRACTS.append(c_wf)


@c_wf.ensures('returns-what-the-function-returns-or-an-error-array', 'P')
def _(func, a, b, result):
    return n_calls(func) == 1 and (returned_by(result, func) or is_1x1_of(result, VALUE)
                                   or any(is_1x1_of(result, e) for e in ERRORS7))


@c_wf.raises(_E.BaseError, 'only-formulas-own-control-exceptions-escape', 'P')
def _(func, a, b, exc):
    # RangeValueError (range without value), BroadcastError and FormulaError are signals for the caller
    return raised_by(exc, func) and not isinstance(exc, (_E.FoundError, _E.InvalidRangeError))


@c_wf.canary('canary:never-an-error-array')
def _(func, a, b, result):
    return returned_by(result, func)


from formulas.tokens.operand import NULL, DIV, REF, NUM, NAME, NA
ERRORS7 = (NULL, DIV, VALUE, REF, NUM, NAME, NA)


def lemma_wrap_func_found(func, a):
    from formulas.functions import wrap_func
    return wrap_func(func, ranges=True)(a)


c_wf2 = Contract(lambda: lemma_wrap_func_found, dict(func=FnT([(_E.FoundError, {'err': ErrT()})]), a=OpaqueT()), 'C11',
                 name='wrap_func.wrapper[FoundError]', use=[])
CONTRACTS.append(c_wf2)


@c_wf2.ensures('a-found-error-becomes-exactly-that-error-value', 'P')
def _(func, a, result):
    k, o = (func.outcomes if hasattr(func, 'outcomes') else [c[2] for c in func.calls])[0]
    return returned_by(result, func) if k == 'return' else is_1x1_of(result, o.err)


@c_wf2.canary('canary:always-VALUE')
def _(func, a, result):
    return returned_by(result, func) or is_1x1_of(result, VALUE)


# ------------------------------------------------------------------------------------ wrap_ranges_func
from formulas.ranges import Ranges as _Ranges


class RangesWithValueT(ObjT):
    """A Ranges-like argument whose `.value` either yields something or raises RangeValueError."""

    def __init__(self):
        super().__init__('formulas.ranges:Ranges', {})

    def make(self, ctx, name):
        o = super().make(ctx, name)
        o.overrides = {'value': FnT([(_E.RangeValueError, {})]).make(ctx, name + '.value')}
        return o


def lemma_wrap_ranges(func, a, b):
    from formulas.functions import wrap_ranges_func
    return wrap_ranges_func(func)(a, b)


c_wr = Contract(lambda: lemma_wrap_ranges,
                dict(func=FnT([(_E.RangeValueError, {}), (ValueError, {})]), a=OneOf(OpaqueT([_Ranges]), RangesWithValueT()),
                     b=OneOf(OpaqueT([_Ranges]), RangesWithValueT())), 'C11', name='wrap_ranges_func.wrapper', use=[])
CONTRACTS.append(c_wr)


def _value_outcome(x):
    """('plain', x) for a non-reference argument, else the outcome of reading the reference's value."""
    if not isinstance(x, _Ranges):
        return ('plain', x)
    f = x.overrides['value'] if hasattr(x, 'overrides') else x.__dict__['value_fn']
    return f.calls[0][2] if hasattr(f, 'calls') and not isinstance(f.calls, int) else f.outcomes[0]


@c_wr.ensures('a-range-without-value-gives-the-no-value-marker-else-the-function-result', 'P')
def _(func, a, b, result):
    return result is sh.NONE or returned_by(result, func)


@c_wr.ensures('the-function-is-called-at-most-once', 'P')
def _(func, a, b, result):
    return n_calls(func) <= 1 and (n_calls(func) == 1 or result is sh.NONE)


@c_wr.raises(ValueError, 'other-exceptions-propagate-unchanged', 'P')
def _(func, a, b, exc):
    return raised_by(exc, func)


@c_wr.canary('canary:always-calls-the-function')
def _(func, a, b, result):
    return n_calls(func) == 1


# ------------------------------------------------------------------------------------ safe_eval (generic)
def _some_safe_eval():
    from contracts.c02_operators import element_eval
    return element_eval('+')[1]


import numpy as _np
from collections.abc import Iterable as _Iterable
Scalar = OneOf(OpaqueT([str, _np.ndarray, _Iterable]), ErrT())     # any non-text scalar, or an error value
c_se = Contract(_some_safe_eval, dict(vals=TupleT(Scalar, Scalar)), 'C11', name='wrap_ufunc.safe_eval[generic func]', use=[],
                cells=dict(func=FnT(ANY_OUTCOME, result=OneOf(ErrT(), StrT())), input_parser=ConstT(lambda *a: a),
                           check_nan=ConstT(False)))
CONTRACTS.append(c_se)


@c_se.ensures('leftmost-error-argument-is-returned-and-the-function-not-called', 'P')
def _(vals, func, result):
    from formulas.tokens.operand import XlError
    errs = [v for v in vals if isinstance(v, XlError)]
    return (not errs) or (result is errs[0] and n_calls(func) == 0)


@c_se.ensures('found-value-type-errors-become-error-values', 'P')
def _(vals, func, result):
    from formulas.tokens.operand import XlError
    if any(isinstance(v, XlError) for v in vals):
        return True
    k, o = (func.outcomes if hasattr(func, 'outcomes') else [c[2] for c in func.calls])[0]
    if k == 'return':
        return result is o
    return (result is o.err) if isinstance(o, _E.FoundError) else (result is VALUE)


@c_se.raises(Exception, 'only-other-exception-kinds-escape-to-wrap_func', 'P')
def _(vals, func, exc):
    return raised_by(exc, func) and not isinstance(exc, (_E.FoundError, ValueError, TypeError))


@c_se.canary('canary:errors-ignored')
def _(vals, func, result):
    return n_calls(func) == 1


# ------------------------------------------------------------------------------------ safe_eval with the NaN check on
def _is_excel_scalar(v):
    """What a cell can hold: an error value, text, a logical, or a finite number (a Python int only while it is a number
    to numpy and to float)."""
    import math
    from formulas.tokens.operand import XlError
    if isinstance(v, (XlError, str, bool)):
        return True
    if isinstance(v, int):
        return -2 ** 63 <= v < 2 ** 64
    return isinstance(v, float) and math.isfinite(v)


from pyvc.contract import RealT as _RealT, IntT as _IntT, BoolT as _BoolT
Kernel = FnT(ANY_OUTCOME, result=OneOf(ErrT(), StrT(), _RealT(nonfinite=True), _IntT(), _BoolT(), ConstT(None)))
c_sen = Contract(_some_safe_eval, dict(vals=TupleT(Scalar, Scalar)), 'C11', name='wrap_ufunc.safe_eval[check_nan]', use=[],
                 cells=dict(func=Kernel, input_parser=ConstT(lambda *a: a), check_nan=ConstT(True)), float_mode='opaque')
CONTRACTS.append(c_sen)


@c_sen.ensures('whatever-the-kernel-returns-the-element-is-an-excel-value', 'P')
def _(vals, func, result):
    # NaN, infinities, None and integers beyond the machine range never reach a cell
    return _is_excel_scalar(result)


@c_sen.ensures('finite-numbers-text-and-errors-pass-unchanged', 'P')
def _(vals, func, result):
    from formulas.tokens.operand import XlError
    if any(isinstance(v, XlError) for v in vals):
        return True
    k, o = (func.outcomes if hasattr(func, 'outcomes') else [c[2] for c in func.calls])[0]
    return k != 'return' or not _is_excel_scalar(o) or result is o or result == o


@c_sen.raises(Exception, 'only-other-exception-kinds-escape-to-wrap_func', 'S')
def _(vals, func, exc):
    return raised_by(exc, func) and not isinstance(exc, (_E.FoundError, ValueError, TypeError))


@c_sen.canary('canary:kernel-result-always-returned')
def _(vals, func, result):
    k, o = (func.outcomes if hasattr(func, 'outcomes') else [c[2] for c in func.calls])[0]
    return k == 'return' and result is o


# ------------------------------------------------------------------------------------ get_error / convert_nan
from pyvc.contract import RealT, IntT, BoolT
Value = OneOf(RealT(), IntT(), BoolT(), StrT(), ErrT(), ConstT(sh.EMPTY))
c_ge = Contract('formulas.functions:get_error', dict(vals=TupleT(Value, Value, Value)), 'C11', name='get_error', use=[])
CONTRACTS.append(c_ge)


@c_ge.ensures('first-error-in-argument-order-or-None', 'P')
def _(vals, result):
    from formulas.tokens.operand import XlError
    errs = [v for v in vals if isinstance(v, XlError)]
    return (result is errs[0]) if errs else (result is None)


@c_ge.canary('canary:last-error')
def _(vals, result):
    from formulas.tokens.operand import XlError
    errs = [v for v in vals if isinstance(v, XlError)]
    return (result is errs[-1]) if errs else (result is None)


# ====================================================================================
# table obligations: structure of every FUNCTIONS[...] registration (read from the AST, cross-checked live)
import ast as _ast
import glob as _glob
import os as _os

TOTAL_WRAPPERS = {'wrap_ufunc', 'wrap_func'}
# entries that are total by construction although not wrapped: constants / constructors
PLAIN_OK = {'PI', 'ARRAY', 'ARRAYROW'}
# inspection functions registered with wrap_ranges_func only: total because their kernels catch everything
INSPECTION = {'ISERR', 'ISERROR', 'ISNUMBER', 'ISBLANK', 'ISTEXT', 'ISNONTEXT', 'ISLOGICAL', 'ISNA'}


class _Table:
    def __init__(self, name, prop, fn):
        self.name, self.prop, self.fn = name, prop, fn

    def run(self):
        return self.fn()


def _head(expr):
    """Name of the outermost call of a registration value ('wrap_func', 'wrap_ufunc', …)."""
    if isinstance(expr, _ast.Call):
        f = expr.func
        return f.id if isinstance(f, _ast.Name) else (f.attr if isinstance(f, _ast.Attribute) else None)
    return None


def registrations():
    """name -> (file, line, head, dict-keys) for every FUNCTIONS['NAME'] = value in formulas/functions/*.py"""
    import formulas.functions as ff
    out = {}
    for fn in sorted(_glob.glob(_os.path.join(_os.path.dirname(ff.__file__), '*.py'))):
        tree = _ast.parse(open(fn).read(), fn)
        for node in _ast.walk(tree):
            if not isinstance(node, _ast.Assign):
                continue
            for t in node.targets:
                if (isinstance(t, _ast.Subscript) and isinstance(t.value, _ast.Name) and t.value.id == 'FUNCTIONS'
                        and isinstance(t.slice, _ast.Constant)):
                    v = node.value
                    info = dict(file=_os.path.basename(fn), line=node.lineno, head=_head(v), keys=None, alias=None, inner=None)
                    if isinstance(v, _ast.Dict):
                        info['keys'] = [k.value for k in v.keys if isinstance(k, _ast.Constant)]
                        for k, x in zip(v.keys, v.values):
                            if isinstance(k, _ast.Constant) and k.value == 'function':
                                info['head'] = _head(x)
                                if info['head'] == 'wrap_impure_func' and x.args:
                                    info['inner'] = _head(x.args[0])
                    if isinstance(v, _ast.Subscript) and isinstance(v.value, _ast.Name) and v.value.id == 'FUNCTIONS':
                        info['alias'] = v.slice.value if isinstance(v.slice, _ast.Constant) else None
                    out.setdefault(t.slice.value, []).append(info)
    return out


def wrapper_chain(f):
    """Code-object qualnames of the wrappers around a live registration (outermost first)."""
    import functools
    if isinstance(f, dict):
        f = f['function']
    chain, seen = [], set()
    while f is not None and id(f) not in seen and len(chain) < 12:
        seen.add(id(f))
        if isinstance(f, functools.partial):
            f = f.func
            continue
        code = getattr(f, '__code__', None)
        if code is None:
            chain.append(getattr(f, '__name__', type(f).__name__))
            break
        chain.append(code.co_qualname)
        cells = dict(zip(code.co_freevars, (c.cell_contents for c in (f.__closure__ or ()))))
        f = cells.get('func')
    return chain


def _registration_table():
    import formulas
    regs = registrations()
    live = formulas.get_functions()
    out = []
    for name in sorted(live):
        base = _strip(name)
        chain = wrapper_chain(live[name])
        total = 'wrap_func.<locals>.wrapper' in chain
        ok = total or base in PLAIN_OK or (base in INSPECTION and 'wrap_ranges_func.<locals>.wrapper' in chain)
        info = (regs.get(name) or [dict(file='?', line=0)])[-1]
        out.append(dict(name='T:registration/%s' % name, ok=ok, kind='P',
                        detail='%s:%s: wrappers %s do not turn exceptions of the kernel into error values'
                               % (info['file'], info['line'], chain[:4]),
                        witness='%s("abc")' % name))
    # volatile functions: registered with the compiling flag and the impure wrapper (C13 uses the same facts)
    return out


TABLES = [_Table('T:registration-structure', 'C11', _registration_table)]
