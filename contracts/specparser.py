"""Specification of Excel's operator grammar (property C01 / C18): trees, a precedence-climbing parser over
token lists, the fully parenthesised rendering, spelling generators.  Independent of formulas' parser."""
import random

RANK = {'=': 1, '<>': 1, '<': 1, '>': 1, '<=': 1, '>=': 1, '&': 2, '+': 3, '-': 3, '*': 4, '/': 4, '^': 5}
PCT_RANK, SIGN_RANK, REF_RANK = 6, 7, 8
BINOPS = ['+', '-', '*', '/', '^', '&', '=', '<>', '<', '>', '<=', '>=']


# trees: ('num', text) ('str', text) ('ref', text) ('bin', op, l, r) ('un', sign, x) ('pct', x)
#        ('fn', NAME, [args|('empty',)]) ('arr', [[elem]]) ('range', l, r) ('isect', l, r) ('union', [areas])


def render(t):
    """The exported text: fully parenthesised rendering of the tree (what get_expr must produce)."""
    k = t[0]
    if k == 'num':
        return t[1]
    if k == 'str':
        return '"%s"' % t[1]
    if k == 'ref':
        return t[1].upper().replace('$', '')
    if k == 'err':
        return t[1]
    if k == 'empty':
        return ''
    if k == 'bin':
        return '(%s %s %s)' % (render(t[2]), t[1], render(t[3]))
    if k == 'un':
        return '%s%s' % (t[1], render(t[2]))
    if k == 'pct':
        return '%s%%' % render(t[1])
    if k == 'fn':
        return '%s(%s)' % (t[1].upper(), ', '.join(render(a) for a in t[2]))
    if k == 'arr':
        return 'ARRAY(%s)' % ', '.join('ARRAY(%s)' % ', '.join(render(e) for e in row) for row in t[1])
    if k == 'range':
        return '(%s:%s)' % (render(t[1]), render(t[2]))
    if k == 'isect':
        return '(%s %s)' % (render(t[1]), render(t[2]))
    if k == 'union':
        # the union operator is binary; a list a, b, c is rendered as nested pairs (a, (b, c)) — same areas, same order
        areas = [render(a) for a in t[1]]
        out = areas[-1]
        for a in reversed(areas[:-1]):
            out = '(%s, %s)' % (a, out)
        return out
    raise ValueError(t)


def rank(t):
    k = t[0]
    if k == 'bin':
        return RANK[t[1]]
    if k == 'un':
        return SIGN_RANK
    if k == 'pct':
        return PCT_RANK
    if k in ('range', 'isect'):
        return REF_RANK
    return 99


def spell(t, rng=None, redundant=0.0, spaces=0.0, lower=0.0):
    """A concrete spelling of the tree with the parentheses the grammar needs (plus redundant ones with the
    given probability), optional whitespace around tokens and lower-cased names."""
    rng = rng or random.Random(0)

    def sp():
        return ' ' * rng.randrange(1, 3) if rng.random() < spaces else ''

    def wrap(s):
        return '(%s%s%s)' % (sp(), s, sp())

    def maybe(s):
        return wrap(s) if rng.random() < redundant else s

    def case(s):
        return s.lower() if rng.random() < lower else s

    def go(t, min_rank, right_of_same=False):
        k = t[0]
        if k in ('num', 'err'):
            s = t[1]
        elif k == 'str':
            s = '"%s"' % t[1]
        elif k == 'ref':
            s = case(t[1])
        elif k == 'empty':
            return ''
        elif k == 'bin':
            r = RANK[t[1]]
            s = '%s%s%s%s%s' % (go(t[2], r), sp(), t[1], sp(), go(t[3], r + 1))
            if r < min_rank:
                return wrap(s)
        elif k == 'un':
            inner = go(t[2], SIGN_RANK)
            s = t[1] + inner
            if SIGN_RANK < min_rank:
                return wrap(s)
        elif k == 'pct':
            s = go(t[1], PCT_RANK) + '%'
            if PCT_RANK < min_rank:
                return wrap(s)
        elif k == 'fn':
            s = '%s(%s%s)' % (case(t[1]), sp(), (',' + sp()).join(go(a, 0) for a in t[2]))
        elif k == 'arr':
            s = '{%s}' % ';'.join(','.join(go(e, 0) for e in row) for row in t[1])
        elif k == 'range':
            s = '%s:%s' % (go(t[1], REF_RANK + 1), go(t[2], REF_RANK + 1))
            if REF_RANK < min_rank:
                return wrap(s)
        elif k == 'isect':
            s = '%s %s' % (go(t[1], REF_RANK + 1), go(t[2], REF_RANK + 1))
            if REF_RANK < min_rank:
                return wrap(s)
        elif k == 'union':
            return '(%s)' % ','.join(go(a, 0) for a in t[1])
        else:
            raise ValueError(t)
        return maybe(s)
    # blanks before the first and after the last token are as insignificant as those between tokens
    return '=' + sp() + go(t, 0) + sp()


# ------------------------------------------------------------------------------------ token-level recogniser
class Reject(Exception):
    pass


class TokenParser:
    """Recogniser / parser of the grammar over a token list [(kind, text)]:
    kinds: num str ref err op(+ - * / ^ & = <> < > <= >=) pct lpar rpar comma fn(NAME, opens a paren) lbrace rbrace semi"""

    def __init__(self, tokens):
        self.t, self.i = list(tokens), 0

    def peek(self):
        return self.t[self.i] if self.i < len(self.t) else (None, None)

    def take(self, kind=None):
        k = self.peek()
        if k[0] is None or (kind is not None and k[0] != kind):
            raise Reject('expected %s at %d' % (kind, self.i))
        self.i += 1
        return k

    def parse(self):
        e = self.expr(1)
        if self.i != len(self.t):
            raise Reject('trailing tokens')
        return e

    def expr(self, min_rank):
        left = self.operand()
        while True:
            k, tx = self.peek()
            if k == 'op' and RANK[tx] >= min_rank:
                self.take()
                right = self.expr(RANK[tx] + 1)
                left = ('bin', tx, left, right)
            else:
                return left

    def operand(self):
        k, tx = self.peek()
        if k == 'op' and tx in '+-':
            self.take()
            return self.postfix(('un', tx, self.signed()))
        return self.postfix(self.primary())

    def signed(self):
        k, tx = self.peek()
        if k == 'op' and tx in '+-':
            self.take()
            return ('un', tx, self.signed())
        return self.primary()

    def postfix(self, e):
        while self.peek()[0] == 'pct':
            self.take()
            e = ('pct', e)
        return e

    def primary(self):
        k, tx = self.peek()
        if k in ('num', 'str', 'ref', 'err'):
            self.take()
            return (k, tx)
        if k == 'lpar':
            self.take()
            e = self.expr(1)
            if self.peek()[0] == 'comma':          # union of references: (a, b, …)
                areas = [e]
                while self.peek()[0] == 'comma':
                    self.take()
                    areas.append(self.expr(1))
                self.take('rpar')
                return ('union', areas)
            self.take('rpar')
            return e
        if k == 'fn':
            self.take()
            args = []
            if self.peek()[0] == 'rpar':
                self.take()
                return ('fn', tx, args)
            while True:
                if self.peek()[0] in ('comma', 'rpar'):
                    args.append(('empty',))
                else:
                    args.append(self.expr(1))
                if self.peek()[0] == 'comma':
                    self.take()
                    continue
                self.take('rpar')
                return ('fn', tx, args)
        if k == 'lbrace':
            self.take()
            rows = [[]]
            while True:
                rows[-1].append(self.expr(1))
                k2 = self.peek()[0]
                if k2 == 'comma':
                    self.take()
                elif k2 == 'semi':
                    self.take()
                    rows.append([])
                elif k2 == 'rbrace':
                    self.take()
                    break
                else:
                    raise Reject('bad array')
            if len({len(r) for r in rows}) != 1:
                raise Reject('ragged array')
            return ('arr', rows)
        raise Reject('unexpected %r at %d' % (k, self.i))


def accepts(tokens):
    try:
        return TokenParser(tokens).parse()
    except Reject:
        return None


def text_of(tokens):
    out = []
    for k, tx in tokens:
        if k == 'str':
            out.append('"%s"' % tx)
        elif k == 'fn':
            out.append(tx + '(')
        elif k == 'pct':
            out.append('%')
        else:
            out.append({'lpar': '(', 'rpar': ')', 'comma': ',', 'lbrace': '{', 'rbrace': '}', 'semi': ';'}.get(k, tx))
    return '=' + ''.join(out)


# ------------------------------------------------------------------------------------ tree generators
LEAVES = [('num', '1'), ('num', '2'), ('num', '3.5'), ('num', '10'), ('ref', 'A1'), ('ref', 'B2'), ('str', 'x'), ('num', '0.5')]


def random_tree(rng, depth, leaves=LEAVES, fns=True):
    if depth <= 0 or rng.random() < 0.2:
        return rng.choice(leaves)
    r = rng.random()
    if r < 0.55:
        return ('bin', rng.choice(BINOPS), random_tree(rng, depth - 1, leaves, fns), random_tree(rng, depth - 1, leaves, fns))
    if r < 0.68:
        return ('un', rng.choice('+-'), random_tree(rng, depth - 1, leaves, fns))
    if r < 0.76:
        return ('pct', random_tree(rng, depth - 1, leaves, fns))
    if r < 0.92 and fns:
        n = rng.randrange(0, 4)
        args = [random_tree(rng, depth - 1, leaves, fns) if rng.random() < 0.85 else ('empty',) for _ in range(n)]
        return ('fn', rng.choice(['SUM', 'MAX', 'IF', 'CONCATENATE']), args)
    if fns:
        nr, nc = rng.randrange(1, 3), rng.randrange(1, 3)
        return ('arr', [[rng.choice([('num', '1'), ('num', '2'), ('str', 'q'), ('num', '7')]) for _ in range(nc)] for _ in range(nr)])
    return rng.choice(leaves)


def has_sign_run(text):
    """The spelling contains adjacent signs (a binary + / - followed by a sign, or two prefix signs)."""
    s = text.replace(' ', '')
    for i in range(len(s) - 1):
        if s[i] in '+-' and s[i + 1] in '+-':
            return True
    return False
