"""C10 — circular references: termination, isolation and exact marking (partial): DESIGN §4 C10."""
import itertools
import schedula as sh
from pyvc.contract import Contract, BoolT, TupleT
from pyvc.bounded import Stage

CONTRACTS = []

# ------------------------------------------------------------------------------------ proved: lazy-branch predicates
# solve_cycle(*on_cycle): on_cycle[i] says whether input i of the function lies on the cycle; the cycle can be cut at
# this function iff the input that decides the branch (the condition / tested value) is not on it.
c_sc = Contract('formulas.functions.logic:solve_cycle', dict(args=TupleT(BoolT(), BoolT(), BoolT())), 'C10', name='solve_cycle[IF]', use=[])
CONTRACTS.append(c_sc)


@c_sc.ensures('cuttable-iff-the-condition-is-not-on-the-cycle', 'P')
def _(args, result):
    return result == (not args[0])


@c_sc.canary('canary:always-cuttable')
def _(args, result):
    return result is True


def _ifs_predicate():
    import formulas
    return formulas.get_functions()['IFS']['solve_cycle']


c_ifs = Contract(_ifs_predicate, dict(a=TupleT(BoolT(), BoolT(), BoolT(), BoolT())), 'C10', name='solve_cycle[IFS]', use=[])
CONTRACTS.append(c_ifs)


@c_ifs.ensures('cuttable-iff-no-condition-is-on-the-cycle', 'P')
def _(a, result):
    return result == (not (a[0] or a[2]))


@c_ifs.canary('canary:values-matter')
def _(a, result):
    return result == (not (a[1] or a[3]))


class _Table:
    def __init__(self, name, prop, fn):
        self.name, self.prop, self.fn = name, prop, fn

    def run(self):
        return self.fn()


def _lazy_table():
    """Exactly IF, IFS, IFERROR, IFNA (and their _XLFN. aliases) declare a solve_cycle predicate."""
    import formulas
    F = formulas.get_functions()
    have = sorted(k for k, v in F.items() if isinstance(v, dict) and 'solve_cycle' in v)
    want = sorted(['IF', 'IFS', '_XLFN.IFS', 'IFERROR', 'IFNA', '_XLFN.IFNA'])
    return [dict(name='T:lazy-branches/exactly-IF-IFS-IFERROR-IFNA', ok=have == want, kind='P',
                 detail='functions with a solve_cycle predicate: %s, expected %s' % (have, want), witness=None)]


TABLES = [_Table('T:lazy-branches', 'C10', _lazy_table)]


# ------------------------------------------------------------------------------------ bounded: cycle enumeration
def _brute_cycles(graph):
    """All elementary cycles of a digraph, each as the tuple starting at its smallest node."""
    nodes = sorted(graph)
    out = set()

    def dfs(start, node, path, seen):
        for nb in graph[node]:
            if nb == start:
                out.add(tuple(path))
            elif nb > start and nb not in seen:
                dfs(start, nb, path + [nb], seen | {nb})
    for s in nodes:
        dfs(s, s, [s], {s})
    return out


def _canon(c):
    i = c.index(min(c))
    return tuple(c[i:] + c[:i])


def _check_graph(case):
    from formulas.excel.cycle import simple_cycles
    n, bits, skip = case
    graph = {i: [j for j in range(n) if bits >> (i * n + j) & 1] for i in range(n)}
    try:
        got = [list(c) for c in simple_cycles({k: list(v) for k, v in graph.items()}, True, skip)]
    except Exception as ex:
        return 'simple_cycles(%r, skip=%r) raised %s' % (graph, skip, type(ex).__name__)
    sub = {k: [x for x in v if x not in skip] for k, v in graph.items() if k not in skip}
    want = _brute_cycles(sub)
    canon = [_canon(c) for c in got]
    if len(canon) != len(set(canon)):
        return 'simple_cycles(%r, skip=%r) reports a cycle twice: %r' % (graph, skip, got)
    if set(canon) != want:
        return 'simple_cycles(%r, skip=%r) = %r, the elementary cycles are %r' % (graph, skip, sorted(canon), sorted(want))
    return None


def _graph_cases(tier, rng):
    out = []
    for n in (1, 2, 3, 4):
        for bits in range(1 << (n * n)):
            out.append((n, bits, ()))
            if n == 4 and bits % 7 == 0:
                out.append((n, bits, (bits % 4,)))
    if tier == 'thorough':
        # every digraph on 5 nodes without self-loops (2^20 graphs)
        n = 5
        pos = [i * n + j for i in range(n) for j in range(n) if i != j]
        for code in range(1 << len(pos)):
            bits = 0
            for b, pp in enumerate(pos):
                if code >> b & 1:
                    bits |= 1 << pp
            out.append((n, bits, ()))
    k = 300 if tier == 'quick' else 60000
    for _ in range(k):
        n = rng.randrange(5, 10)
        bits = 0
        p = rng.choice([0.15, 0.25, 0.4])
        for i in range(n * n):
            if rng.random() < p:
                bits |= 1 << i
        out.append((n, bits, tuple(rng.sample(range(n), rng.randrange(0, 2)))))
    return out


# ------------------------------------------------------------------------------------ bounded: small cyclic workbooks
CIRC = 'CIRC'
ERR = 'ERR'
S = "'[b.xlsx]S'!"


def _wb(cells):
    # cell keys get the sheet prefix, defined names (no digits) stay global
    return {(S + k if any(ch.isdigit() for ch in k) else k): (v.replace('@', S) if isinstance(v, str) else v) for k, v in cells.items()}


def _workbooks():
    out = []
    for g in (False, True, 0, 1, 2.5):
        t = bool(g)
        out.append(('guarded-back-edge', {'A1': g, 'B1': '=IF(@A1,@C1,0)', 'C1': '=@B1+1', 'D1': '=@C1*2'},
                    {'B1': CIRC, 'C1': CIRC, 'D1': ERR} if t else {'B1': 0, 'C1': 1, 'D1': 2}))
        out.append(('guarded-and-unguarded-route', {'A1': g, 'B1': '=IF(@A1,@C1,0)+COUNT(@C1)', 'C1': '=@B1+1', 'D1': '=@B1*2'},
                    {'B1': CIRC, 'C1': CIRC, 'D1': ERR}))
        out.append(('else-branch-guard', {'A1': g, 'B1': '=IF(@A1,5,@C1)', 'C1': '=@B1+1'},
                    {'B1': 5, 'C1': 6} if t else {'B1': CIRC, 'C1': CIRC}))
        out.append(('ifs-guard', {'A1': g, 'B1': '=IFS(@A1,7,TRUE,@C1)', 'C1': '=@B1+1'},
                    {'B1': 7, 'C1': 8} if t else {'B1': CIRC, 'C1': CIRC}))
    out.append(('plain-cycle-is-isolated', {'B1': '=@C1+1', 'C1': '=@B1+1', 'D1': 5, 'E1': '=@D1+1', 'F1': '=@B1+@E1'},
                {'B1': CIRC, 'C1': CIRC, 'D1': 5, 'E1': 6, 'F1': ERR}))
    out.append(('self-reference', {'B1': '=@B1+1', 'C1': '=@B1+1', 'D1': 3}, {'B1': CIRC, 'C1': ERR, 'D1': 3}))
    out.append(('three-cycle', {'A1': '=@C1+1', 'B1': '=@A1+1', 'C1': '=@B1+1', 'D1': '=ISERROR(@A1)'},
                {'A1': CIRC, 'B1': CIRC, 'C1': CIRC, 'D1': True}))
    out.append(('cycle-through-a-range', {'B1': '=SUM(@C1:C2)', 'C1': '=@B1', 'C2': 1}, {'B1': CIRC, 'C1': CIRC, 'C2': 1}))
    out.append(('iferror-guard-unselected', {'A1': 4, 'B1': '=IFERROR(@A1,@C1)', 'C1': '=@B1+1'}, {'B1': 4, 'C1': 5}))
    for g1 in (False, True):
        for g2 in (False, True):
            # two guarded back edges into ONE formula, through different inputs
            cells = {'A1': g1, 'A2': g2, 'B1': '=IF(@A1,@C1,IF(@A2,@D1,7))', 'C1': '=@B1', 'D1': '=@B1*2', 'E1': '=@B1+1'}
            if not g1 and not g2:
                want = {'B1': 7, 'C1': 7, 'D1': 14, 'E1': 8}
            elif g1:
                want = {'B1': CIRC, 'C1': CIRC, 'D1': ERR, 'E1': ERR}
            else:
                want = {'B1': CIRC, 'D1': CIRC, 'C1': ERR, 'E1': ERR}
            out.append(('two-guarded-back-edges-into-one-formula', cells, want))
            cells = {'A1': g1, 'A2': g2, 'B1': '=IFERROR(@A1,@C1)+IFNA(@A2,@D1)', 'C1': '=@B1', 'D1': '=@B1*2', 'E1': '=@B1+1'}
            out.append(('two-error-guards-in-one-formula', cells, {'B1': int(g1) + int(g2), 'C1': int(g1) + int(g2), 'D1': 2 * (int(g1) + int(g2)),
                                                                  'E1': int(g1) + int(g2) + 1}))
    out.append(('defined-name-on-a-cycle', {'A1': '=@B1+1', 'B1': '=MYNAME', 'MYNAME': '=@A1', 'D1': 5, 'E1': '=@D1+1', 'F1': '=ISERROR(@A1)'},
                {'A1': CIRC, 'B1': CIRC, 'D1': 5, 'E1': 6, 'F1': True}))
    out.append(('range-inside-an-unselected-branch', {'A1': False, 'B1': '=IF(@A1,SUM(@C1:C2),1)', 'C1': '=@B1', 'C2': '=@C1'},
                {'B1': 1, 'C1': 1, 'C2': 1}))
    # the deciding argument of a guard is an EXPRESSION of the cell on the cycle (not the bare reference): the cycle cannot be avoided
    out.append(('guard-decided-by-an-expression-of-the-cycle/iferror', {'A1': '=IFERROR(@B1+1,0)', 'B1': '=@A1', 'D1': '=@B1+1'},
                {'A1': CIRC, 'B1': CIRC, 'D1': ERR}))
    out.append(('guard-decided-by-an-expression-of-the-cycle/iferror-sign', {'A1': '=IFERROR(-@B1,"none")', 'B1': '=@A1', 'D1': '=@B1+1'},
                {'A1': CIRC, 'B1': CIRC, 'D1': ERR}))
    out.append(('guard-decided-by-an-expression-of-the-cycle/if-iserror', {'A1': '=IF(ISERROR(@B1),1,@B1)', 'B1': '=@A1', 'D1': '=@B1+1'},
                {'A1': CIRC, 'B1': CIRC, 'D1': ERR}))
    out.append(('guard-decided-by-an-expression-of-the-cycle/if-isnumber', {'A1': '=IF(ISNUMBER(@B1),@B1,7)', 'B1': '=@A1*2', 'D1': '=@B1+1'},
                {'A1': CIRC, 'B1': CIRC, 'D1': ERR}))
    # a self reference inside an error guard of the SELECTED branch: the cycle cannot be avoided (KF-C10-2: the tree cuts it)
    out.append(('self-cycle-inside-an-error-guard-of-the-selected-branch', {'B1': False, 'A1': '=IF(@B1,1,IFERROR(@A1+1,5))', 'C1': '=@A1+1'},
                {'A1': CIRC, 'B1': False, 'C1': ERR}))
    out.append(('two-independent-cycles', {'A1': '=@B1', 'B1': '=@A1', 'C1': '=@D1', 'D1': '=@C1', 'E1': 1, 'F1': '=@E1+1'},
                {'A1': CIRC, 'B1': CIRC, 'C1': CIRC, 'D1': CIRC, 'E1': 1, 'F1': 2}))
    return out


def _wb_cases(tier, rng):
    cases = []
    for name, cells, want in _workbooks():
        keys = list(cells)
        orders = [keys, keys[::-1]]
        if tier == 'thorough':
            orders += [rng.sample(keys, len(keys)) for _ in range(6)]
        for o in orders:
            cases.append((name, tuple((k, cells[k]) for k in o), tuple(sorted(want.items()))))
    return cases


def _check_wb(case):
    import logging
    import signal
    import numpy as np
    import formulas
    from formulas.excel import ERR_CIRCULAR
    from formulas.tokens.operand import XlError
    name, cells, want = case

    class _Timeout(BaseException):
        pass

    def _alarm(*a):
        raise _Timeout()
    logging.disable(logging.CRITICAL)
    old = signal.signal(signal.SIGALRM, _alarm)
    signal.setitimer(signal.ITIMER_REAL, 20.0)
    try:
        m = formulas.ExcelModel().from_dict(_wb(dict(cells)))
        m.solve_circular()
        sol = m.calculate()
    except _Timeout:
        return '%s %r: loading / calculation did not terminate within 20 s' % (name, dict(cells))
    except Exception as ex:
        return '%s %r raised %s: %s' % (name, dict(cells), type(ex).__name__, str(ex)[:80])
    finally:
        signal.setitimer(signal.ITIMER_REAL, 0)
        signal.signal(signal.SIGALRM, old)
        logging.disable(logging.NOTSET)
    for k, w in want:
        v = sol.get(S + k)
        if v is None:
            return '%s %r: %s has no value' % (name, dict(cells), k)
        v = np.asarray(v.value, object).ravel()[0]
        if w == CIRC:
            ok = v is ERR_CIRCULAR
        elif w == ERR:
            ok = isinstance(v, XlError)
        else:
            ok = not isinstance(v, XlError) and v == w and isinstance(v, bool) == isinstance(w, bool)
        if not ok:
            return '%s %r: %s = %r, expected %s' % (name, dict(cells), k, v, {CIRC: 'the circular-reference error', ERR: 'an error'}.get(w, repr(w)))
    return None


# ------------------------------------------------------------------------------------ bounded: independence of the hash seed
def _seed_books():
    out = [(n, c) for n, c, w in _workbooks()]
    for g1, g2 in ((True, False), (False, True), (True, True), (False, False)):
        out.append(('two-guards-on-one-cycle', {'A1': g1, 'A2': g2, 'B1': '=IF(@A1,@C1,1)', 'C1': '=IF(@A2,@B1,2)', 'E1': '=@B1+@C1'}))
    out.append(('three-guards-on-one-cycle', {'A1': True, 'A2': False, 'A3': True, 'B1': '=IF(@A1,@C1,1)', 'C1': '=IF(@A2,@D1,2)',
                                              'D1': '=IF(@A3,@B1,3)', 'E1': '=@B1+@C1+@D1'}))
    out.append(('if-and-iferror-guards-on-one-cycle', {'A1': True, 'A2': 4, 'B1': '=IF(@A1,@C1,1)', 'C1': '=IFERROR(@A2,@B1)', 'E1': '=@B1+@C1'}))
    out.append(('overlapping-cycles-with-an-error-guard', {'X1': '=@Y1+@Z1', 'Y1': '=@X1', 'N1': '=IFERROR(@X1,5)', 'Z1': '=@N1'}))
    return out


def _seed_outcomes():
    """{book index: value map as JSON text} of this interpreter (run in child processes with PYTHONHASHSEED set)."""
    import json
    import logging
    import numpy as np
    import formulas
    logging.disable(logging.CRITICAL)
    res = {}
    for i, (name, cells) in enumerate(_seed_books()):
        try:
            m = formulas.ExcelModel().from_dict(_wb(dict(cells)))
            m.solve_circular()
            sol = m.calculate()
            vals = {}
            for k in cells:
                v = sol.get(S + k)
                vals[k] = None if v is None else repr(np.asarray(v.value, object).ravel()[0])
            res[i] = json.dumps(vals, sort_keys=True)
        except Exception as ex:
            res[i] = 'raised %s' % type(ex).__name__
    return res


_SEED_CACHE = {}


def _all_seed_outcomes(tier):
    if tier in _SEED_CACHE:
        return _SEED_CACHE[tier]
    import json
    import os
    import subprocess
    import sys
    import concurrent.futures as cf
    seeds = list(range(8 if tier == 'quick' else 32))
    root = os.path.dirname(os.path.dirname(os.path.abspath(__file__)))
    code = ('import sys, json; sys.path.insert(0, %r); import contracts.c10_cycles as m; '
            'print("OUT" + json.dumps(m._seed_outcomes()))' % root)

    def run(seed):
        env = dict(os.environ, PYTHONHASHSEED=str(seed), PYTHONWARNINGS='ignore', PYTHONDONTWRITEBYTECODE='1')
        p = subprocess.run([sys.executable, '-W', 'ignore', '-c', code], capture_output=True, text=True, timeout=600, env=env)
        line = [l for l in p.stdout.splitlines() if l.startswith('OUT')]
        if not line:
            return seed, {'error': (p.stderr or p.stdout)[-300:]}
        return seed, json.loads(line[-1][3:])
    with cf.ThreadPoolExecutor(8) as ex:
        out = dict(ex.map(run, seeds))
    _SEED_CACHE[tier] = out
    return out


def _seed_cases(tier, rng):
    return [('hash-seed', tier, i) for i in range(len(_seed_books()))]


def _check_seed(case):
    _, tier, i = case
    out = _all_seed_outcomes(tier)
    name, cells = _seed_books()[i]
    seen = {}
    for seed, res in sorted(out.items()):
        if 'error' in res:
            return 'child interpreter with PYTHONHASHSEED=%d failed: %s' % (seed, res['error'])
        seen.setdefault(res[str(i)], []).append(seed)
    if len(seen) != 1:
        return '%s %r: the outcome depends on the hash seed: %s' % (name, cells, '; '.join('%s for seeds %s' % (k, v) for k, v in seen.items()))
    return None


def _classify_seed(case, detail):
    name = _seed_books()[case[2]][0]
    return None


BOUNDED = [
    Stage('B3:outcome-does-not-depend-on-the-hash-seed', 'C10', _seed_cases, _check_seed,
          'every workbook of B2 plus cycles with two and three guards of different values, an IF and an IFERROR guard on one cycle and overlapping '
          'cycles with an error guard, each evaluated in child interpreters with PYTHONHASHSEED 0..7 (quick) / 0..31 (thorough): one outcome per workbook',
          parallel=False, classify=_classify_seed, case_timeout=900.0),
    Stage('B1:cycle-enumeration-vs-brute-force', 'C10', _graph_cases, _check_graph,
          'every digraph on 1..4 nodes (2 + 16 + 512 + 65 536, exhaustive, self-loops included; every 7th 4-node graph also with a skipped node), '
          'thorough: also every digraph on 5 nodes without self-loops (1 048 576); random digraphs on 5..9 nodes (300 quick / 60000 thorough): simple_cycles reports each elementary cycle exactly once',
          exhaustive=True),
    Stage('B2:small-cyclic-workbooks', 'C10', _wb_cases, _check_wb,
          '36 small workbooks (guarded / unguarded back edges through IF, IFS, IFERROR, IFNA, ranges, self references, independent cycles, two guarded back edges into one formula; 5 guard values) '
          'in 2 (quick) / 8 (thorough) cell orders: termination within 20 s, unavoidable cycles are marked, dependents see an error, everything else '
          'keeps its ordinary value', parallel=True, classify=lambda case, detail: (
              'KF-C10-1' if case[0] == 'range-inside-an-unselected-branch' and 'circular-reference error' not in detail.split('expected')[-1] else (
                  'KF-C10-2' if case[0] == 'self-cycle-inside-an-error-guard-of-the-selected-branch' else None))),
]

PROPERTIES = {
    'C10': dict(
        level='other',
        explanation=('Partial. Proved: the lazy-branch predicates (a cycle can be cut at IF / IFERROR / IFNA iff the deciding input is not on it; at IFS iff '
                     'no condition is) and the table of functions that declare one. Bounded: Johnson cycle enumeration equals brute force on every digraph with '
                     '<= 4 nodes (thorough: 5 nodes without self-loops) and random ones to 9 nodes; small cyclic workbooks in several cell orders and under 8 / 32 hash seeds.'),
        assumptions=[],
        not_proved=['termination of loading / calculation in general, isolation and exact marking on arbitrary workbooks, independence of the hash seed beyond the 41 workbooks x 8 / 32 seeds of stage B3: not decided (schedula)'],
        bounded_rule='graphs / workbooks; distinct = distinct cases',
    ),
}
