"""C02 — scalar operator semantics: contracts on wrap_ufunc.<locals>.safe_eval as instantiated for each
operator (closure environment recovered from the live OPERATORS table) — DESIGN §4 C02, A.5."""
import math
import schedula as sh
from pyvc.contract import Contract, IntT, RealT, BoolT, StrT, ErrT, OneOf, ConstT
from pyvc.spec import in_re
from formulas.tokens.operand import XlError, VALUE, DIV, NUM

CONTRACTS = []
ARITH = ('+', '-', '*', '/', '^')
UNARY = ('U-', 'U+', '%')
LOGIC = ('=', '<>', '<', '>', '<=', '>=')

PLAIN_NUMERAL = r'[ \t\n\x0b\x0c\r]*[+-]?([0-9]+\.?[0-9]*|\.[0-9]+)([eE][+-]?[0-9]+)?[ \t\n\x0b\x0c\r]*'
# what CPython's float() accepts (ASCII): additionally single underscores between digits, inf / infinity / nan
PY_FLOAT = (r'[ \t\n\x0b\x0c\r]*[+-]?((([0-9]+(_[0-9]+)*)\.?([0-9]+(_[0-9]+)*)?|\.[0-9]+(_[0-9]+)*)([eE][+-]?[0-9]+(_[0-9]+)*)?'
            r'|[iI][nN][fF]([iI][nN][iI][tT][yY])?|[nN][aA][nN])[ \t\n\x0b\x0c\r]*')


def float_only(v):
    """Text that float() converts although it is no plain numeral (region of KF-C02-1)."""
    return is_text(v) and in_re(v, PY_FLOAT) and not in_re(v, PLAIN_NUMERAL)
ASCII = r'[ -~\t\n\x0b\x0c\r]*'


def find_closure(f, name, seen=None):
    """The function called `name` reachable from f through closure cells / __wrapped__ (live objects)."""
    seen = seen if seen is not None else set()
    if id(f) in seen or not callable(f):
        return None
    seen.add(id(f))
    if getattr(f, '__name__', None) == name and hasattr(f, '__code__'):
        return f
    for cell in (getattr(f, '__closure__', None) or ()):
        try:
            v = cell.cell_contents
        except ValueError:
            continue
        r = find_closure(v, name, seen)
        if r is not None:
            return r
    w = getattr(f, '__wrapped__', None)
    if w is not None:
        return find_closure(w, name, seen)
    return None


def closure_vars(f):
    return dict(zip(f.__code__.co_freevars, (c.cell_contents for c in f.__closure__ or ())))


def element_eval(key):
    """What wrap_ufunc's wrapper does for one element: args_parser, then safe_eval (np.vectorize applies
    safe_eval once per broadcast element — assumption)."""
    from formulas.functions.operators import OPERATORS
    wrapper = find_closure(OPERATORS[key], 'wrapper')          # outermost wrapper
    inner = None
    # walk down to the wrap_ufunc wrapper (the one that closes over safe_eval)
    f = OPERATORS[key]
    seen = set()
    stack = [f]
    while stack:
        g = stack.pop()
        if id(g) in seen or not callable(g):
            continue
        seen.add(id(g))
        if hasattr(g, '__code__') and 'args_parser' in g.__code__.co_freevars and 'otype' in g.__code__.co_freevars:
            inner = g          # the wrapper made by wrap_ufunc (recognised by the factory's parameter names it closes over)
            break
        for cell in (getattr(g, '__closure__', None) or ()):
            try:
                stack.append(cell.cell_contents)
            except ValueError:
                pass
        if getattr(g, '__wrapped__', None) is not None:
            stack.append(g.__wrapped__)
    cv = closure_vars(inner)
    return cv['args_parser'], element_evaluator(inner)


def element_evaluator(ufunc_wrapper):
    """The per-element evaluator nested in wrap_ufunc (`safe_eval`, whatever it is called): the one function among the
    wrapper's closure cells that was defined inside the factory."""
    cv = closure_vars(ufunc_wrapper)
    if 'safe_eval' in cv:
        return cv['safe_eval']
    # __qualname__ of the wrapper is overwritten by functools.update_wrapper: use the code objects' own qualified names
    prefix = ufunc_wrapper.__code__.co_qualname.rsplit('.', 1)[0] + '.'
    cands = [v for v in cv.values() if hasattr(v, '__code__') and v.__code__.co_qualname.startswith(prefix)]
    return cands[0] if len(cands) == 1 else None


def ufunc_wrapper_of(f):
    """The wrap_ufunc wrapper reachable from a registered function object."""
    seen, stack = set(), [f]
    while stack:
        g = stack.pop()
        if id(g) in seen or not callable(g):
            continue
        seen.add(id(g))
        if hasattr(g, '__code__') and 'args_parser' in g.__code__.co_freevars and 'otype' in g.__code__.co_freevars:
            return g
        for cell in (getattr(g, '__closure__', None) or ()):
            try:
                stack.append(cell.cell_contents)
            except ValueError:
                pass
        if getattr(g, '__wrapped__', None) is not None:
            stack.append(g.__wrapped__)
    return None


def find_nested(outer_wrapper, name):
    """The nested function `name` of the factory that made `outer_wrapper`; if it was renamed, the only other function
    nested in the same factory (the contracts do not depend on the spelling of inner helper names)."""
    f = find_closure(outer_wrapper, name)
    if f is not None:
        return f
    seen, stack, cands = set(), [outer_wrapper], []
    while stack:
        g = stack.pop()
        if id(g) in seen or not callable(g):
            continue
        seen.add(id(g))
        for cell in (getattr(g, '__closure__', None) or ()):
            try:
                v = cell.cell_contents
            except ValueError:
                continue
            if hasattr(v, '__code__') and '<locals>' in getattr(v, '__qualname__', ''):
                cands.append(v)
            stack.append(v)
        if getattr(g, '__wrapped__', None) is not None:
            stack.append(g.__wrapped__)
    return cands[0] if len({id(c) for c in cands}) == 1 else None


def make_binary(key):
    args_parser, safe_eval = element_eval(key)

    def scalar_op(a, b):
        args = tuple(args_parser(a, b))
        return safe_eval(*args)
    scalar_op.__name__ = 'scalar_op[%s]' % key
    return scalar_op


def make_unary(key):
    args_parser, safe_eval = element_eval(key)

    def scalar_op(a):
        args = tuple(args_parser(a))
        return safe_eval(*args)
    scalar_op.__name__ = 'scalar_op[%s]' % key
    return scalar_op


# operand kinds of the statement: numbers (float / int), logicals, text, the 7 errors, blank reference
Operand = OneOf(RealT(), IntT(), BoolT(), StrT(), ErrT(), ConstT(sh.EMPTY))


def is_err(v):
    return isinstance(v, XlError)


def first_err(a, b):
    return a if is_err(a) else (b if is_err(b) else None)


def is_text(v):
    return isinstance(v, str) and not is_err(v) and v is not sh.EMPTY      # sh.EMPTY is a str subclass (sh.Token)


def num_ok(v):
    """Arithmetic coercion succeeds: numbers, logicals, blank, and text that is a plain numeral."""
    return (not is_text(v)) or in_re(v, PLAIN_NUMERAL)


def num(v):
    if v is sh.EMPTY:
        return 0
    return float(v)


def ascii_text(*vs):
    return all((not is_text(v)) or in_re(v, ASCII) for v in vs)


def xl_ok(r):
    """One well-formed Excel value: finite number, logical, text or one of the error values."""
    return (is_err(r) or isinstance(r, bool) or (isinstance(r, str) and r is not sh.EMPTY and r is not sh.NONE)
            or (isinstance(r, (int, float)) and math.isfinite(r)))


def _arith_contract(key):
    c = Contract(lambda: make_binary(key), dict(a=Operand, b=Operand), 'C02', name='operator[%s]' % key,
                 use=[], float_mode='opaque')
    CONTRACTS.append(c)
    c.requires(lambda a, b: ascii_text(a, b))

    @c.ensures('leftmost-error-operand-is-returned-unchanged', 'P')
    def _(a, b, result):
        return first_err(a, b) is None or result is first_err(a, b)

    @c.ensures('non-numeric-text-gives-VALUE', 'P')
    def _(a, b, result):
        return first_err(a, b) is not None or (num_ok(a) and num_ok(b)) or result is VALUE

    @c.known_region('KF-C02-1', 'non-numeric-text-gives-VALUE')
    def _(a, b):
        # text CPython's float() accepts although it is no plain numeral: inf, nan, 1_0 ...
        return float_only(a) or float_only(b)

    @c.ensures('result-is-one-wellformed-excel-value', 'P')
    def _(a, b, result):
        return xl_ok(result)

    if key in '+-*':
        @c.ensures('value-is-the-coerced-arithmetic', 'P')
        def _(a, b, result):
            if first_err(a, b) is not None or not (num_ok(a) and num_ok(b)):
                return True
            x, y = num(a), num(b)
            r = {'+': x + y, '-': x - y, '*': x * y}[key]
            return (result == r) if math.isfinite(r) else (result is NUM)
    if key == '/':
        @c.ensures('division-by-zero-is-DIV0-else-the-quotient', 'P')
        def _(a, b, result):
            if first_err(a, b) is not None or not (num_ok(a) and num_ok(b)):
                return True
            x, y = num(a), num(b)
            if y == 0:
                return result is DIV
            r = x / y
            return (result == r) if math.isfinite(r) else (result is NUM)
    if key == '^':
        @c.ensures('power-follows-excel-special-cases', 'P')
        def _(a, b, result):
            if first_err(a, b) is not None or not (num_ok(a) and num_ok(b)):
                return True
            x, y = num(a), num(b)
            if x == 0 and y == 0:
                return result is NUM
            if x == 0 and y < 0:
                return result is DIV
            if x < 0 and not float(y).is_integer():
                return result is NUM
            return isinstance(result, float) or result is NUM

    @c.canary('canary:never-VALUE')
    def _(a, b, result):
        return result is not VALUE
    return c


for _k in ARITH:
    _arith_contract(_k)


def _unary_contract(key):
    c = Contract(lambda: make_unary(key), dict(a=Operand), 'C02', name='operator[%s]' % key, use=[], float_mode='opaque')
    CONTRACTS.append(c)
    c.requires(lambda a: ascii_text(a))

    @c.ensures('error-operand-is-returned-unchanged', 'P')
    def _(a, result):
        return (not is_err(a)) or result is a

    @c.ensures('result-is-one-wellformed-excel-value', 'P')
    def _(a, result):
        return xl_ok(result)

    if key == 'U+':
        @c.ensures('unary-plus-is-the-identity', 'P')
        def _(a, result):
            return result == (0 if a is sh.EMPTY else a) and (isinstance(result, bool) == isinstance(a, bool))

        @c.known_region('KF-C02-4', 'unary-plus-is-the-identity')
        def _(a):
            return isinstance(a, int) and not isinstance(a, bool) and not (-2 ** 63 <= a < 2 ** 64)
    else:
        @c.ensures('non-numeric-text-gives-VALUE', 'P')
        def _(a, result):
            return is_err(a) or num_ok(a) or result is VALUE

        @c.known_region('KF-C02-1', 'non-numeric-text-gives-VALUE')
        def _(a):
            return float_only(a)

        @c.ensures('value-is-the-coerced-arithmetic', 'P')
        def _(a, result):
            if is_err(a) or not num_ok(a):
                return True
            x = num(a)
            r = -x if key == 'U-' else x / 100.0
            return (result == r) if math.isfinite(r) else (result is NUM)

    @c.canary('canary:always-a-number')
    def _(a, result):
        return isinstance(result, float)
    return c


for _k in UNARY:
    _unary_contract(_k)


PROPERTIES = {
    'C02': dict(
        level='other',
        explanation=(
            'Contracts on the per-element evaluator (args_parser + safe_eval with the closure environment of each '
            'OPERATORS entry) over all operand kinds: error precedence, coercion, #DIV/0!, ^ special cases, result kind. '
            'Float arithmetic is opaque (uninterpreted results, CPython exception behaviour axiomatised).'),
        assumptions=['numpy applies safe_eval once per broadcast element (np.vectorize)',
                     'operands reaching the operators are float/int/bool/str/XlError/sh.EMPTY; text restricted to ASCII'],
        not_proved=[],
    ),
}


# ------------------------------------------------------------------------------------ comparisons
def make_six():
    ops = {k: make_binary(k) for k in LOGIC}

    def six(a, b):
        return tuple(ops[k](a, b) for k in ('<', '=', '>', '<=', '>=', '<>'))
    return six


c_cmp = Contract(make_six, dict(a=Operand, b=Operand), 'C02', name='comparisons', use=[], float_mode='opaque')
CONTRACTS.append(c_cmp)
c_cmp.requires(lambda a, b: ascii_text(a, b))


def rank(v):
    return 2 if isinstance(v, bool) else (1 if is_text(v) else 0)


@c_cmp.ensures('leftmost-error-operand-is-returned-unchanged', 'P')
def _(a, b, result):
    e = first_err(a, b)
    return e is None or all(r is e for r in result)


@c_cmp.ensures('results-are-logicals', 'P')
def _(a, b, result):
    return first_err(a, b) is not None or all(isinstance(r, bool) for r in result)


@c_cmp.ensures('the-six-operators-are-the-six-relations-of-one-order', 'P')
def _(a, b, result):
    if first_err(a, b) is not None:
        return True
    lt, eq, gt, le, ge, ne = result
    return ((lt + eq + gt == 1) and le == (lt or eq) and ge == (gt or eq) and ne == (not eq))


@c_cmp.ensures('numbers-before-text-before-logicals', 'P')
def _(a, b, result):
    if first_err(a, b) is not None or a is sh.EMPTY or b is sh.EMPTY:
        return True
    return rank(a) == rank(b) or result[0] == (rank(a) < rank(b))


@c_cmp.ensures('within-a-kind-the-natural-order', 'P')
def _(a, b, result):
    if first_err(a, b) is not None or a is sh.EMPTY or b is sh.EMPTY or rank(a) != rank(b):
        return True
    if rank(a) == 1:
        return result[1] == (a == b) or True      # text order: see 'text-equality-ignores-case'
    return result[0] == (a < b) and result[1] == (a == b)


@c_cmp.ensures('blank-compares-as-empty-text-false-or-zero', 'P')
def _(a, b, result):
    if first_err(a, b) is not None or not (a is sh.EMPTY or b is sh.EMPTY):
        return True
    # a blank takes the kind of the other operand: "" against text, FALSE against a logical, 0 otherwise
    x = a if a is not sh.EMPTY else ('' if is_text(b) else (False if isinstance(b, bool) else 0))
    y = b if b is not sh.EMPTY else ('' if is_text(a) else (False if isinstance(a, bool) else 0))
    if x is sh.EMPTY or y is sh.EMPTY:      # both blank: equal
        return result[1] is True
    if rank(x) != rank(y):
        return result[0] == (rank(x) < rank(y))
    return result[1] == (x == y) and (rank(x) == 1 or result[0] == (x < y))


@c_cmp.canary('canary:text-before-numbers')
def _(a, b, result):
    return first_err(a, b) is not None or rank(a) == rank(b) or result[0] == (rank(a) > rank(b))


# ------------------------------------------------------------------------------------ & (concatenation)
class IntegralRealT(IntT):
    """A float with an integral value (display form without fraction)."""

    def make(self, ctx, name):
        from pyvc.values import SReal
        from pyvc import terms as tm
        return SReal(tm.mk_to_real(super().make(ctx, name).t))


AmpOperand = OneOf(IntegralRealT(), IntT(), BoolT(), StrT(), ErrT(), ConstT(sh.EMPTY))
c_amp = Contract(lambda: make_binary('&'), dict(a=AmpOperand, b=AmpOperand), 'C02', name='operator[&]', use=[],
                 float_mode='opaque')
CONTRACTS.append(c_amp)
c_amp.requires(lambda a, b: ascii_text(a, b))


def display(v):
    if v is sh.EMPTY:
        return ''
    if isinstance(v, bool):
        return 'TRUE' if v else 'FALSE'
    if isinstance(v, (int, float)):
        return str(int(v))          # integral numbers are shown without a fraction
    return v


@c_amp.ensures('leftmost-error-operand-is-returned-unchanged', 'P')
def _(a, b, result):
    return first_err(a, b) is None or result is first_err(a, b)


@c_amp.ensures('joins-the-display-forms', 'P')
def _(a, b, result):
    return first_err(a, b) is not None or result == display(a) + display(b)


@c_amp.canary('canary:python-bool-spelling')
def _(a, b, result):
    return first_err(a, b) is not None or not isinstance(a, bool) or result == str(a) + display(b)


# ====================================================================================
# bounded stage B1: the statement's pool cross-product through compiled formulas (literal and cell spellings)
from pyvc.bounded import Stage
import re as _re

_ERRS = ['#NULL!', '#DIV/0!', '#VALUE!', '#REF!', '#NAME?', '#NUM!', '#N/A']
_POOL = [0, 1, -1, 0.0, -0.0, 1.0, -1.0, 0.5, 1.15, -2.5, 1e200, -1e200, 1e-200, 3, 'TXT:1', 'TXT: 1 ', 'TXT:-2.5', 'TXT:1e3', 'TXT:.5', 'TXT:5.', 'TXT:+2E+1', 'TXT:a', 'TXT:A',
         'TXT:abc', 'TXT:1a', 'TXT:', True, False, 'BLANK'] + ['ERR:' + e for e in _ERRS]
_BIN = ['+', '-', '*', '/', '^', '&', '=', '<>', '<', '>', '<=', '>=']


def _py(v):
    from formulas.tokens.operand import Error
    if isinstance(v, str):
        if v.startswith('TXT:'):
            return v[4:]
        if v.startswith('ERR:'):
            return Error.errors[v[4:]]
        if v == 'BLANK':
            return sh.EMPTY
    return v


def _lit(v):
    if isinstance(v, bool):
        return 'TRUE' if v else 'FALSE'
    if isinstance(v, str):
        if v.startswith('TXT:'):
            return '"%s"' % v[4:]
        if v.startswith('ERR:'):
            return v[4:]
        return None          # a blank has no literal spelling
    if isinstance(v, float) and (abs(v) >= 1e16 or (v != 0 and abs(v) < 1e-5)):
        m, e = ('%r' % v).split('e')
        return '%sE%s%d' % (m, '+' if int(e) >= 0 else '-', abs(int(e)))
    s = repr(v)
    return '(%s)' % s if s.startswith('-') else s


def _spec_num(v):
    if isinstance(v, bool):
        return float(v)
    if v is sh.EMPTY:
        return 0.0
    if isinstance(v, XlError):
        return v
    if isinstance(v, str):
        return float(v) if _re.fullmatch(PLAIN_NUMERAL, v) else VALUE
    return float(v)


def _spec_display(v):
    if v is sh.EMPTY:
        return ''
    if isinstance(v, bool):
        return 'TRUE' if v else 'FALSE'
    if isinstance(v, (int, float)):
        return str(int(v)) if float(v).is_integer() and abs(v) < 1e15 else repr(float(v))
    return v


def _spec_key(v, other):
    if v is sh.EMPTY:
        # a blank takes the kind of the other operand: "" against text, FALSE against a logical, 0 otherwise
        v = ('' if (isinstance(other, str) and other is not sh.EMPTY and not isinstance(other, XlError))
             else (False if isinstance(other, bool) else 0))
    if isinstance(v, bool):
        return (2, v)
    if isinstance(v, str):
        return (1, v.upper())           # Excel compares text without regard to case
    return (0, float(v))


def spec_binary(op, a, b):
    e = a if isinstance(a, XlError) else (b if isinstance(b, XlError) else None)
    if e is not None:
        return e
    if op == '&':
        return _spec_display(a) + _spec_display(b)
    if op in LOGIC:
        x, y = _spec_key(a, b), _spec_key(b, a)
        return {'=': x == y, '<>': x != y, '<': x < y, '>': x > y, '<=': x <= y, '>=': x >= y}[op]
    x, y = _spec_num(a), _spec_num(b)
    if x is VALUE or y is VALUE:
        return VALUE
    try:
        if op == '+':
            r = x + y
        elif op == '-':
            r = x - y
        elif op == '*':
            r = x * y
        elif op == '/':
            if y == 0:
                return DIV
            r = x / y
        else:
            if x == 0 and y == 0:
                return NUM
            if x == 0 and y < 0:
                return DIV
            if x < 0 and not y.is_integer():
                return NUM
            r = x ** y
    except OverflowError:
        return NUM
    return r if math.isfinite(r) else NUM


def spec_unary(op, a):
    if isinstance(a, XlError):
        return a
    if op == 'U+':
        return 0 if a is sh.EMPTY else a
    x = _spec_num(a)
    if x is VALUE:
        return VALUE
    return -x if op == 'U-' else x / 100.0


_COMPILED = {}


def _compiled(text):
    import formulas
    f = _COMPILED.get(text)
    if f is None:
        f = _COMPILED[text] = formulas.Parser().ast(text)[1].compile()
    return f


def _scalar(v):
    import numpy as np
    if isinstance(v, np.ndarray):
        if v.size != 1:
            return ('array', v.shape)
        v = v.ravel()[0]
    if isinstance(v, np.generic):
        v = v.item()
    return v


def _same(got, want):
    if isinstance(want, XlError) or isinstance(got, XlError):
        return got is want
    if isinstance(want, bool) or isinstance(got, bool):
        return isinstance(got, bool) and isinstance(want, bool) and got == want
    if isinstance(want, str) or isinstance(got, str):
        return isinstance(got, str) and isinstance(want, str) and str(got) == want
    if isinstance(got, (int, float)) and isinstance(want, (int, float)):
        return math.isfinite(got) and (got == want or abs(got - want) <= 1e-12 * max(abs(got), abs(want)))
    return False


def _check_binary(case):
    op, a, b, how = case
    pa, pb = _py(a), _py(b)
    want = spec_binary(op, pa, pb)
    try:
        if how == 'cells':
            got = _compiled('=A1%sB1' % op)(pa, pb)
        else:
            la, lb = _lit(a), _lit(b)
            got = _compiled('=%s%s%s' % (la, op, lb))()
        got = _scalar(got)
    except Exception as ex:
        return '%r %s %r [%s] raised %s: %s' % (pa, op, pb, how, type(ex).__name__, str(ex)[:80])
    return None if _same(got, want) else '%r %s %r [%s] = %r, expected %r' % (pa, op, pb, how, got, want)


def _check_unary(case):
    op, a, how = case
    pa = _py(a)
    want = spec_unary(op, pa)
    sym = {'U-': '-', 'U+': '+'}.get(op)
    try:
        if how == 'cells':
            got = _compiled('=A1%' if op == '%' else '=%sA1' % sym)(pa)
        else:
            la = _lit(a)
            got = _compiled('=%s%%' % la if op == '%' else '=%s%s' % (sym, la))()
        got = _scalar(got)
    except Exception as ex:
        return '%s %r [%s] raised %s: %s' % (op, pa, how, type(ex).__name__, str(ex)[:80])
    return None if _same(got, want) else '%s %r [%s] = %r, expected %r' % (op, pa, how, got, want)


def _binary_cases(tier, rng):
    out = []
    for op in _BIN:
        for a in _POOL:
            for b in _POOL:
                out.append((op, a, b, 'cells'))
                if _lit(a) is not None and _lit(b) is not None:
                    out.append((op, a, b, 'literals'))
    n = 300 if tier == 'quick' else 5000
    for _ in range(n):
        out.append((rng.choice(_BIN[:5] + _BIN[6:]), rng.uniform(-1e6, 1e6), rng.uniform(-1e3, 1e3), 'cells'))
    return out


def _unary_cases(tier, rng):
    return [(op, a, how) for op in UNARY for a in _POOL for how in ('cells', 'literals') if how == 'cells' or _lit(a) is not None]


def _classify_c02(case, detail):
    op = case[0]
    vals = [_py(v) for v in case[1:-1]]
    texts = [v for v in vals if isinstance(v, str) and v is not sh.EMPTY and not isinstance(v, XlError)]
    if op in LOGIC and len(texts) == 2 and texts[0] != texts[1] and texts[0].upper() == texts[1].upper():
        return 'KF-C02-2'
    if op == '&' and any(isinstance(v, float) and not isinstance(v, bool) and (abs(v) >= 1e15 or (v != 0 and abs(v) < 1e-4)) for v in vals):
        return 'KF-C02-3'
    if case[-1] == 'literals' and any(isinstance(v, str) and v.startswith('TXT:') and not v[4:] for v in case[1:-1]):
        return None
    return None


def _order_cases(tier, rng):
    return [('order', rng.randrange(1 << 30), k) for k in range(4 if tier == 'quick' else 24)]


def _check_order(case):
    """The value of an operator application must not depend on what was evaluated before it: evaluate a
    shuffled list of applications twice (forward and reversed) in this process and against the spec."""
    import random
    _, seed, _k = case
    rng = random.Random(seed)
    small = [0, 1, 0.0, 1.0, True, False, 'TXT:1', 'TXT:a', 'TXT:', 'BLANK', 2.0, 2, 'ERR:#N/A']
    apps = [(op, a, b) for op in ('&', '=', '+', '<') for a in small for b in small]
    rng.shuffle(apps)
    first = {}
    for order in (apps, list(reversed(apps))):
        for op, a, b in order:
            got = _scalar(_compiled('=A1%sB1' % op)(_py(a), _py(b)))
            want = spec_binary(op, _py(a), _py(b))
            if not _same(got, want):
                if _classify_c02((op, a, b, 'cells'), '') is None:
                    return '%r %s %r = %r, expected %r (after a shuffled history of other applications)' % (_py(a), op, _py(b), got, want)
            key = (op, repr(a), repr(b))
            if key in first and not (_same(first[key], got) or (first[key] is got)):
                return '%r %s %r gave %r and later %r in the same process' % (_py(a), op, _py(b), first[key], got)
            first[key] = got
    return None


BOUNDED = [
    Stage('B2:history-independence', 'C02', _order_cases, _check_order,
          '4 (quick) / 24 (thorough) shuffled histories of 676 operator applications over numbers, logicals equal to them, text, blank, error; '
          'each evaluated forward and reversed in one process', parallel=False),
    Stage('B1:binary-operators-over-the-pool', 'C02', _binary_cases, _check_binary,
          '12 binary operators x (29 pool values)^2 as cell values and as literals, plus random finite floats (300 quick / 5000 thorough), '
          'through Parser().ast(...).compile(), against the spec table A.5', classify=_classify_c02),
    Stage('B1:unary-operators-over-the-pool', 'C02', _unary_cases, _check_unary,
          '3 unary operators x 29 pool values, cell and literal spellings', classify=_classify_c02),
]
