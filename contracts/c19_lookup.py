"""C19 — lookup and criteria functions agree with their search definitions (DESIGN §4 C19, A.4)."""
import math
import re as _re
import schedula as sh
from pyvc.bounded import Stage

CONTRACTS = []


# ------------------------------------------------------------------------------------ spec functions
def _type(v):
    from formulas.tokens.operand import XlError
    if isinstance(v, XlError):
        return 3            # an error value is of no comparable type: it satisfies no criterion
    if isinstance(v, bool):
        return 2
    if isinstance(v, str):
        return 1
    return 0


def _eq(a, b):
    if _type(a) != _type(b):
        return False
    if isinstance(a, str):
        return a.upper() == b.upper()
    return a == b


def _wild_regex(pat):
    out, i = [], 0
    while i < len(pat):
        ch = pat[i]
        if ch == '~' and i + 1 < len(pat) and pat[i + 1] in '*?~':
            out.append(_re.escape(pat[i + 1]))
            i += 2
            continue
        out.append('.' if ch == '?' else '.*' if ch == '*' else _re.escape(ch))
        i += 1
    return _re.compile(''.join(out), _re.I | _re.S)


def spec_match(val, keys, mt):
    from formulas.tokens.operand import NA
    if mt == 0:
        if isinstance(val, str) and any(c in val for c in '*?~'):
            rx = _wild_regex(val)
            for i, k in enumerate(keys):
                if isinstance(k, str) and not isinstance(k, bool) and rx.fullmatch(k):
                    return i + 1
            return NA
        for i, k in enumerate(keys):
            if _eq(k, val):
                return i + 1
        return NA
    best = NA
    for i, k in enumerate(keys):
        if _type(k) != _type(val):
            continue
        kk, vv = (k.upper(), val.upper()) if isinstance(k, str) else (k, val)
        if (mt > 0 and kk <= vv) or (mt < 0 and kk >= vv):
            best = i + 1
    return best


def spec_index(table, r, c):
    from formulas.tokens.operand import REF, VALUE
    nr, nc = len(table), len(table[0])
    if r < 0 or c < 0:
        return VALUE
    if r > nr or c > nc:
        return REF
    if r == 0 or c == 0:
        return None     # whole row / column: not compared here
    v = table[r - 1][c - 1]
    return 0 if v is sh.EMPTY else v


def _crit(crit, case_sensitive=False, ne_within_type=False, ne_literal=False):
    """-> predicate over a cell value (compared within its own type).  The two flags reproduce the known
    deviations of the code (KF-C19-1 / KF-C19-2) and are used only to classify a failing case."""
    up = (lambda t: t) if case_sensitive else (lambda t: t.upper())
    op, rhs = '=', crit
    if isinstance(crit, str):
        for k in ('>=', '<=', '<>', '<', '>', '='):
            if crit.startswith(k) and crit != k:
                op, rhs = k, crit[len(k):]
                break
        try:
            rhs = float(rhs)
        except ValueError:
            if rhs.upper() in ('TRUE', 'FALSE'):
                rhs = rhs.upper() == 'TRUE'
    if isinstance(rhs, str) and op in ('=', '<>') and any(c in rhs for c in '*?') and not (ne_literal and op == '<>'):
        rx = _wild_regex(rhs) if not case_sensitive else _re.compile(_wild_regex(rhs).pattern, _re.S)
        hit = lambda v: isinstance(v, str) and rx.fullmatch(v) is not None
        if op == '=':
            return lambda v: hit(v)
        return (lambda v: isinstance(v, str) and not hit(v)) if ne_within_type else (lambda v: not hit(v))

    def pred(v):
        if v is sh.EMPTY:
            v = '' if isinstance(rhs, str) else None
        if v is None:
            return op == '<>' and not ne_within_type
        if _type(v) != _type(rhs):
            return op == '<>' and not ne_within_type
        a, b = (up(v), up(rhs)) if isinstance(v, str) else (v, rhs)
        return {'=': a == b, '<>': a != b, '<': a < b, '>': a > b, '<=': a <= b, '>=': a >= b}[op]
    return pred


# ------------------------------------------------------------------------------------ harness
def _A(x):
    import numpy as np
    return np.asarray(x, object)


def _val(v):
    import numpy as np
    if isinstance(v, np.ndarray):
        v = v.ravel()[0] if v.size == 1 else v.tolist()
    if isinstance(v, np.generic):
        v = v.item()
    return v


def _same(got, want):
    from formulas.tokens.operand import XlError
    if isinstance(want, XlError) or isinstance(got, XlError):
        return got is want
    if isinstance(want, bool) or isinstance(got, bool):
        return type(got) is type(want) and got == want
    if isinstance(want, str) or isinstance(got, str):
        return isinstance(got, str) and isinstance(want, str) and got == want
    try:
        return abs(float(got) - float(want)) <= 1e-9 * max(1.0, abs(float(want)))
    except (TypeError, ValueError):
        return False


def _F():
    import formulas
    return formulas.get_functions()


def _check_match(case):
    _, val, keys, mt, orient = case
    arr = _A([keys]) if orient == 'row' else _A([[k] for k in keys])
    got = _val(_F()['MATCH'](val, arr, mt))
    want = spec_match(val, keys, mt)
    if not _same(got, want):
        return 'MATCH(%r, %r, %r) = %r, expected %r' % (val, keys, mt, got, want)
    if mt == 1:             # match_type left out: 1 is the default
        got = _val(_F()['MATCH'](val, arr))
        if not _same(got, want):
            return 'MATCH(%r, %r) = %r, expected %r (match_type defaults to 1)' % (val, keys, got, want)
    return None


def _check_index(case):
    _, table, r, c = case
    want = spec_index(table, r, c)
    if want is None:
        return None
    got = _val(_F()['INDEX'](_A(table), r, c))
    return None if _same(got, want) else 'INDEX(%r, %d, %d) = %r, expected %r' % (table, r, c, got, want)


def _check_lookup(case):
    from formulas.tokens.operand import XlError, NA, REF
    kind, val, table, idx, approx = case
    F = _F()
    if kind == 'VLOOKUP':
        keys = [row[0] for row in table]
        pos = spec_match(val, keys, 1 if approx else 0)
        want = REF if idx > len(table[0]) else (pos if isinstance(pos, XlError) else table[pos - 1][idx - 1])
        got = _val(F['VLOOKUP'](val, _A(table), idx, approx))
    elif kind == 'HLOOKUP':
        keys = list(table[0])
        pos = spec_match(val, keys, 1 if approx else 0)
        want = REF if idx > len(table) else (pos if isinstance(pos, XlError) else table[idx - 1][pos - 1])
        got = _val(F['HLOOKUP'](val, _A(table), idx, approx))
    else:
        keys, res = table
        pos = spec_match(val, keys, 1)
        want = pos if isinstance(pos, XlError) else res[pos - 1]
        got = _val(F['LOOKUP'](val, _A([keys]), _A([res])))
    if want is sh.EMPTY:
        want = 0
    if not _same(got, want):
        return '%s(%r, %r, %r, %r) = %r, expected %r' % (kind, val, table, idx, approx, got, want)
    if kind in ('VLOOKUP', 'HLOOKUP'):
        # an index below 1 addresses nothing (#VALUE!), whatever the key
        from formulas.tokens.operand import VALUE
        for bad in (0, -1):
            g = _val(F[kind](val, _A(table), bad, approx))
            if g is not VALUE:
                return '%s(%r, %r, %r, %r) = %r, expected #VALUE! (no row / column %d)' % (kind, val, table, bad, approx, g, bad)
        if not approx:
            # a blank range_lookup counts as FALSE (exact match)
            g = _val(F[kind](val, _A(table), idx, sh.EMPTY))
            if not _same(g, want):
                return '%s(%r, %r, %r, <blank>) = %r, expected %r (a blank range_lookup is FALSE)' % (kind, val, table, idx, g, want)
    if kind in ('VLOOKUP', 'HLOOKUP') and approx is True:          # range_lookup left out: TRUE is the default
        got = _val(F[kind](val, _A(table), idx))
        if not _same(got, want):
            return '%s(%r, %r, %r) = %r, expected %r (range_lookup defaults to TRUE)' % (kind, val, table, idx, got, want)
    return None


def _check_crit(case, **flags):
    from formulas.tokens.operand import DIV
    _, cells, crit, sums = case
    F = _F()
    pred = _crit(crit, **flags)
    sel = [i for i, v in enumerate(cells) if pred(v)]
    got_n = _val(F['COUNTIF'](_A([cells]), crit))
    if not _same(got_n, len(sel)):
        return 'COUNTIF(%r, %r) = %r, expected %r' % (cells, crit, got_n, len(sel))
    nums = [sums[i] for i in sel if isinstance(sums[i], (int, float)) and not isinstance(sums[i], bool)]
    got_s = _val(F['SUMIF'](_A([cells]), crit, _A([sums])))
    if not _same(got_s, float(sum(nums))):
        return 'SUMIF(%r, %r, %r) = %r, expected %r' % (cells, crit, sums, got_s, float(sum(nums)))
    got_a = _val(F['AVERAGEIF'](_A([cells]), crit, _A([sums])))
    want_a = (sum(nums) / len(nums)) if nums else DIV
    if not _same(got_a, want_a):
        return 'AVERAGEIF(%r, %r, %r) = %r, expected %r' % (cells, crit, sums, got_a, want_a)
    return None


def _check_crit2d(case):
    """Criteria functions over two-dimensional ranges of equal shape: cell (i, j) of the tested range selects cell (i, j) of
    the summed range."""
    from formulas.tokens.operand import DIV
    _, grid, crit, sums = case
    F = _F()
    pred = _crit(crit)
    sel = [(i, j) for i, row in enumerate(grid) for j, v in enumerate(row) if pred(v)]
    nums = [sums[i][j] for i, j in sel if isinstance(sums[i][j], (int, float)) and not isinstance(sums[i][j], bool)]
    g, sm = _A([list(r) for r in grid]), _A([list(r) for r in sums])
    got_n = _val(F['COUNTIF'](g, crit))
    if not _same(got_n, len(sel)):
        return 'COUNTIF(%r, %r) = %r, expected %r' % (grid, crit, got_n, len(sel))
    got_s = _val(F['SUMIF'](g, crit, sm))
    if not _same(got_s, float(sum(nums))):
        return 'SUMIF(%r, %r, %r) = %r, expected %r' % (grid, crit, sums, got_s, float(sum(nums)))
    got_a = _val(F['AVERAGEIF'](g, crit, sm))
    want_a = (sum(nums) / len(nums)) if nums else DIV
    if not _same(got_a, want_a):
        return 'AVERAGEIF(%r, %r, %r) = %r, expected %r' % (grid, crit, sums, got_a, want_a)
    return None


def _asc(rng, n, kind):
    if kind == 'num':
        xs = sorted(rng.sample(range(-5, 30), n))
        return [x if rng.random() < 0.7 else x + 0.5 for x in xs]
    words = ['ant', 'Bee', 'cat', 'Dog', 'eel', 'Fox', 'gnu', 'hen', 'Ibis']
    return sorted(rng.sample(words, n), key=str.upper)


def _cases(tier, rng):
    out = []
    n = 1500 if tier == 'quick' else 150000
    for _ in range(n):
        k = rng.randrange(1, 7)
        kind = rng.choice(['num', 'num', 'txt'])
        keys = _asc(rng, k, kind)
        mt = rng.choice([1, -1])
        if mt < 0:
            keys = keys[::-1]
        if kind == 'num':
            val = rng.choice([keys[0] - 1, keys[-1] + 1, rng.choice(keys), rng.choice(keys) + 0.25, rng.choice(keys) - 0.25])
        else:
            val = rng.choice(['aaa', 'zzz', rng.choice(keys), rng.choice(keys).lower(), rng.choice(keys).upper(), 'cow'])
        out.append(('match', val, keys, mt, rng.choice(['row', 'col'])))
    pool = [1, 2, 2, 3.5, 'a', 'A', 'b', 'ab', 'abc', 'bcd', 'bc', True, False, sh.EMPTY, 0, -1, 'ab ', ' ab', 'a b']
    wild = ['a*', '?', 'b?', '*c', 'a?c', '*b*', 'a~*', 'ab', 'B', '~?']
    for _ in range(n):
        k = rng.randrange(1, 7)
        keys = [rng.choice(pool) for _ in range(k)]
        val = rng.choice([rng.choice(pool[:13]), rng.choice(wild), 7, 'zz'])
        if val is sh.EMPTY:
            val = 0
        out.append(('match', val, keys, 0, rng.choice(['row', 'col'])))
    # the text "empty" is not a blank cell (KF-C19-4: the blank token spells 'empty')
    out.append(('match', 'empty', [sh.EMPTY, 1], 0, 'row'))
    out.append(('match', 'EMPTY', [2, sh.EMPTY], 0, 'col'))
    for _ in range(n // 3):
        nr, nc = rng.randrange(1, 7), rng.randrange(1, 7)
        table = [[rng.choice([1, 2.5, 'x', True, sh.EMPTY, 'y', -3]) for _ in range(nc)] for _ in range(nr)]
        out.append(('index', table, rng.randrange(0, nr + 2), rng.randrange(0, nc + 2)))
    # INDEX(vector, k): a single index on a row or a column vector, every position incl. the last one and one beyond
    for k in range(1, 7):
        cells = [rng.choice([1, 2.5, 'x', True, 'y', -3]) for _ in range(k)]
        for table in ([cells], [[v] for v in cells]):
            for i in range(1, k + 2):
                out.append(('index1', table, i))
    for _ in range(n // 2):
        nr, nc = rng.randrange(1, 7), rng.randrange(1, 7)
        approx = rng.random() < 0.4
        kind = rng.choice(['VLOOKUP', 'HLOOKUP'])
        m = nr if kind == 'VLOOKUP' else nc
        keys = _asc(rng, m, rng.choice(['num', 'txt'])) if approx else [rng.choice([1, 2, 3, 'a', 'B', 'c', True]) for _ in range(m)]
        table = [[rng.choice([10, 20.5, 'p', 'q', False, 7]) for _ in range(nc)] for _ in range(nr)]
        for i in range(m):
            if kind == 'VLOOKUP':
                table[i][0] = keys[i]
            else:
                table[0][i] = keys[i]
        val = rng.choice(keys + [0, 99, 'a', 'zz'] + ([keys[0] + 0.5] if isinstance(keys[0], (int, float)) and not isinstance(keys[0], bool) else []))
        idx = rng.randrange(1, (nc if kind == 'VLOOKUP' else nr) + 2)
        out.append(('lookup', kind, val, table, idx, approx))
    for _ in range(n // 4):
        k = rng.randrange(1, 7)
        keys = _asc(rng, k, 'num')
        res = [rng.choice(['r%d' % i, i * 10, True]) for i in range(k)]
        val = rng.choice([keys[0] - 1, keys[-1] + 1, rng.choice(keys), rng.choice(keys) + 0.25])
        out.append(('lookup', 'LOOKUP', val, (keys, res), 0, True))
    crits = [2, 0, 1, 1, True, False, '>1', '>=2', '<2', '<=2', '<>2', '=2', 'a', 'A', '<>a', '=b', 'a*', '?b', '*', '<>a*', True, '>a', '<b',
             '=a*', '=?b', '=*b', '=a~*', 'a~*', '=*', '=3.5', '>=a', '<=ab', '=TRUE', '<>']
    for _ in range(n):
        k = rng.randrange(1, 7)
        cells = [rng.choice([1, 2, 2, 3.5, -1, 'a', 'A', 'b', 'ab', 'cb', 'a*', True, False, sh.EMPTY, 1.0, 0]) for _ in range(k)]
        sums = [rng.choice([1, 2, 10, 0.5, 'x', sh.EMPTY, -4]) for _ in range(k)]
        crit = rng.choice(crits)
        if rng.random() < 0.08 and crit in (2, 0, 1, '>1', '>=2', '<2', '<=2', '=2'):
            from formulas.tokens.operand import NA, DIV
            cells[rng.randrange(k)] = rng.choice([NA, DIV])          # an error cell in the tested range satisfies no numeric criterion
        out.append(('crit', cells, crit, sums))
    for _ in range(n // 5):
        nr, nc = rng.choice([(2, 2), (3, 3), (2, 3), (3, 2), (4, 4), (1, 3), (3, 1)])
        grid = tuple(tuple(rng.choice([1, 2, 3.5, -1, 'a', 'b', 5, 0]) for _ in range(nc)) for _ in range(nr))
        sums = tuple(tuple(rng.choice([1, 2, 10, 0.5, 20, -4, 40]) for _ in range(nc)) for _ in range(nr))
        out.append(('crit2d', grid, rng.choice([2, '>1', '>=2', '<2', '<=2', '=b', 'a', '>0']), sums))
    return out


def _check(case):
    try:
        if case[0] == 'crit2d':
            return _check_crit2d(case)
        if case[0] == 'match':
            return _check_match(case)
        if case[0] == 'index':
            return _check_index(case)
        if case[0] == 'index1':
            from formulas.tokens.operand import REF
            _, table, i = case
            flat = [v for row in table for v in row]
            want = flat[i - 1] if i <= len(flat) else REF
            got = _val(_F()['INDEX'](_A(table), i))
            return None if _same(got, want) else 'INDEX(%r, %d) = %r, expected %r' % (table, i, got, want)
        if case[0] == 'lookup':
            return _check_lookup(case[1:])
        return _check_crit(case)
    except Exception as ex:
        return '%r raised %s: %s' % (case, type(ex).__name__, str(ex)[:100])


def _classify(case, detail):
    if case[0] == 'match' and isinstance(case[1], str) and case[1].upper() == 'EMPTY' and any(k is sh.EMPTY for k in case[2]):
        return 'KF-C19-4'
    if case[0] == 'crit':
        from formulas.tokens.operand import XlError
        if any(isinstance(v, XlError) for v in case[1]) and '#VALUE!' in detail:
            return 'KF-C19-3'
        # the failing case is explained exactly by a known deviation of the code
        for fid, flags in (('KF-C19-1', dict(case_sensitive=True)), ('KF-C19-2', dict(ne_within_type=True)),
                           ('KF-C19-2+l', dict(ne_within_type=True, ne_literal=True)),
                           ('KF-C19-1+2', dict(case_sensitive=True, ne_within_type=True)),
                           ('KF-C19-1+2l', dict(case_sensitive=True, ne_within_type=True, ne_literal=True))):
            try:
                if _check_crit(case, **flags) is None:
                    return fid.split('+')[0]
            except Exception:
                pass
    return None


BOUNDED = [
    Stage('B1:lookup-and-criteria-functions', 'C19', _cases, _check,
          'random key vectors of length 1..6 (strictly ascending / descending for approximate MATCH, mixed-type with duplicates for exact '
          'MATCH incl. wildcards), tables up to 6x6 for INDEX / VLOOKUP / HLOOKUP / LOOKUP vs INDEX(MATCH), COUNTIF/SUMIF/AVERAGEIF with 30 criteria forms on vectors and on two-dimensional ranges of equal shape; '
          '1500 (quick) / 150000 (thorough) cases per family', classify=_classify, max_report=100000),
]

PROPERTIES = {
    'C19': dict(
        level='other',
        explanation=(
            'Proved on the real bodies, for all key and lookup values but key vectors of bounded length (1..6 keys, thorough tier 1..10; complete by unwinding for '
            'that bound): the scan of MATCH (xmatch) in its three modes over numeric keys, over keys mixed with text of the other type, and '
            'over text keys without wildcards (strictly sorted keys for the approximate modes) returns the position Excel defines; the '
            'LOOKUP/VLOOKUP/HLOOKUP kernel (xlookup) returns the result element at that position; INDEX\'s element selection (_index) returns '
            'the element, #REF! outside, #VALUE! for negative positions.  numpy is the container (run natively: masks, shapes, indexing with '
            'decided indices); the elements are symbolic.  Bounded stand-in: everything else - argument parsing (upper-casing, table slicing), '
            'wildcards, criteria functions - through the real FUNCTIONS entries against spec functions on random key vectors and tables up to 6x6.'),
        assumptions=['numpy object arrays are containers: element-wise comparison applies the Python comparison to each element; indexing, '
                     'masks, ravel, arange behave as in the installed numpy (they are executed, not modelled)',
                     'floats as reals in the comparisons of keys (no arithmetic is involved)'],
        not_proved=['key vectors longer than 6; wildcard matching (regex); args_parser_match_array / args_parser_hlookup (numpy char ops, '
                    'np.matrix); _xfilter criteria (regex + np.vectorize): bounded stage only'],
        bounded_rule='random cases per family (1500 quick / 30000 thorough); distinct = distinct (function, arguments) cases',
    ),
}


# ====================================================================================
# proved part: the scans of MATCH on numeric keys and INDEX's element selection, on the real bodies.
# numpy stays the container (run natively: shapes, masks, indexing with decided indices); the elements are symbolic.
from pyvc.contract import Contract, RealT, IntT, ConstT, OneOf, NpArrT, OpaqueT, ErrT
from pyvc.spec import same_object
from formulas.tokens.operand import NA as _NA, REF as _REF, VALUE as _VALUE
import numpy as _np

MAXLEN = 6


def _match_contract(n, mt, kind='num'):
    """kind 'num': numeric value over numeric keys; 'mixed': numeric value, every second key is text (skipped: other type);
    'text': text value without wildcard characters over text keys (both already upper-cased by the argument parser)."""
    from pyvc.contract import StrT
    tid = 1 if kind == 'text' else 0
    if kind == 'mixed':
        types = _np.asarray([k % 2 for k in range(n)], int)
    else:
        types = _np.full(n, tid, int)
    elem = StrT() if kind == 'text' else RealT()

    class _Keys(NpArrT):
        def make(self, ctx, name):
            out = _np.empty(n, object)
            for k in range(n):
                out[k] = (StrT() if types[k] == 1 else RealT()).make(ctx, '%s.%d' % (name, k))
            return out
    c = Contract('formulas.functions.look:xmatch',
                 dict(lookup_value_type=ConstT(tid), lookup_value=elem, lookup_array_index=ConstT(_np.arange(1, n + 1)),
                      lookup_array_type=ConstT(types), lookup_array=_Keys(n, elem), match_type=ConstT(mt)),
                 'C19', name='xmatch[%d %s keys; match_type %d]' % (n, {'num': 'numeric', 'mixed': 'mixed', 'text': 'text'}[kind], mt),
                 use=[], float_mode='real')
    CONTRACTS.append(c)
    own = [k for k in range(n) if types[k] == tid]           # keys of the value's own type, in order

    def plain(v):
        return not isinstance(v, str) or not ('*' in v or '?' in v or '~' in v)

    if mt > 0:
        @c.requires
        def _(lookup_value, lookup_array):
            return plain(lookup_value) and all(lookup_array[own[i]] < lookup_array[own[i + 1]] for i in range(len(own) - 1))

        @c.ensures('position-of-the-last-key-not-greater-than-the-value', 'P')
        def _(lookup_value, lookup_array, result):
            hits = [k + 1 for k in own if lookup_array[k] <= lookup_value]
            return (result is _NA) if not hits else result == hits[-1]
    elif mt < 0:
        @c.requires
        def _(lookup_value, lookup_array):
            return plain(lookup_value) and all(lookup_array[own[i]] > lookup_array[own[i + 1]] for i in range(len(own) - 1))

        @c.ensures('position-of-the-last-key-not-smaller-than-the-value', 'P')
        def _(lookup_value, lookup_array, result):
            hits = [k + 1 for k in own if lookup_array[k] >= lookup_value]
            return (result is _NA) if not hits else result == hits[-1]
    else:
        @c.requires
        def _(lookup_value):
            return plain(lookup_value)

        @c.ensures('position-of-the-first-equal-key', 'P')
        def _(lookup_value, lookup_array, result):
            hits = [k + 1 for k in own if lookup_array[k] == lookup_value]
            return (result is _NA) if not hits else result == hits[0]

    @c.canary('canary:always-found')
    def _(result):
        return result is not _NA
    return c


for _n in range(1, MAXLEN + 1):
    for _mt in (1, -1, 0):
        _match_contract(_n, _mt)
for _n in (7, 8, 9, 10):                     # thorough tier: longer key vectors
    for _mt in (1, -1, 0):
        _match_contract(_n, _mt).thorough_only = True
for _n in (3, 4, 5):
    for _mt in (1, -1, 0):
        _match_contract(_n, _mt, 'mixed')
for _n in (1, 2, 3):
    for _mt in (1, -1, 0):
        _match_contract(_n, _mt, 'text')


def _index_contract(nr, nc):
    c = Contract('formulas.functions.look:_index',
                 dict(arrays=ConstT(None), row_num=OneOf(IntT(-2, nr + 2), ErrT()), col_num=OneOf(IntT(-2, nc + 2), ErrT()),
                      area_num=ConstT(1), is_reference=ConstT(False), is_array=ConstT(False)),
                 'C19', name='_index[%dx%d table]' % (nr, nc), use=[])
    c.params['arrays'] = _TablesT(nr, nc)
    CONTRACTS.append(c)

    @c.ensures('element-at-row-and-column-REF-outside-VALUE-for-negative', 'P')
    def _(arrays, row_num, col_num, result):
        from formulas.tokens.operand import XlError
        if isinstance(row_num, XlError):
            return result is row_num
        if isinstance(col_num, XlError):
            return result is col_num
        t = arrays[0]
        if row_num < 0 or col_num < 0:
            return result is _VALUE
        if row_num > t.shape[0] or col_num > t.shape[1]:
            return result is _REF
        # 0 selects "the whole row / column", which for this scalar kernel is its first element
        r, k = (row_num - 1 if row_num > 0 else 0), (col_num - 1 if col_num > 0 else 0)
        return same_object(result, t[r, k])

    @c.canary('canary:never-REF')
    def _(result):
        return result is not _REF
    return c


class _TablesT(NpArrT):
    """[table]: a one-element list holding an nr x nc object array of opaque cell values."""

    def __init__(self, nr, nc):
        NpArrT.__init__(self, (nr, nc), OpaqueT())

    def make(self, ctx, name):
        return [NpArrT.make(self, ctx, name)]


for _nr, _nc in ((1, 1), (2, 3), (3, 2)):
    _index_contract(_nr, _nc)


def _index_vector_contract(nr, nc):
    """INDEX(vector, n): a single index addresses a row or a column vector along its only free dimension."""
    n = nr * nc
    c = Contract('formulas.functions.look:_index',
                 dict(arrays=ConstT(None), row_num=OneOf(IntT(-2, n + 2), ErrT()), col_num=ConstT(None),
                      area_num=ConstT(1), is_reference=OneOf(ConstT(False), ConstT(True)), is_array=ConstT(False)),
                 'C19', name='_index[%dx%d vector; single index]' % (nr, nc), use=[])
    c.params['arrays'] = _TablesT(nr, nc)
    CONTRACTS.append(c)

    @c.ensures('element-at-the-position-REF-beyond-the-end-VALUE-for-negative', 'P')
    def _(arrays, row_num, result):
        from formulas.tokens.operand import XlError
        if isinstance(row_num, XlError):
            return result is row_num
        t = arrays[0]
        if row_num < 0:
            return result is _VALUE
        if row_num > n:
            return result is _REF
        k = row_num - 1 if row_num > 0 else 0           # 0: the whole vector, whose first element this scalar kernel returns
        return same_object(result, t[0, k] if nr == 1 else t[k, 0])

    @c.canary('canary:never-REF')
    def _(result):
        return result is not _REF
    return c


for _nr, _nc in ((1, 1), (1, 3), (3, 1), (1, 4)):
    _index_vector_contract(_nr, _nc)


# LOOKUP / VLOOKUP / HLOOKUP kernel: what INDEX of MATCH returns (xmatch's body is inlined: one proof over both)
def _lookup_contract(n, mt):
    c = Contract('formulas.functions.look:xlookup',
                 dict(lookup_value_type=ConstT(0), lookup_value=RealT(), lookup_array_index=ConstT(_np.arange(1, n + 1)),
                      lookup_array_type=ConstT(_np.zeros(n, int)), lookup_array=NpArrT(n, RealT()), match_type=ConstT(mt),
                      result_vec=NpArrT(n, OpaqueT())),
                 'C19', name='xlookup[%d numeric keys; match_type %r]' % (n, mt), use=[], float_mode='real')
    CONTRACTS.append(c)

    @c.requires
    def _(lookup_array):
        return (not mt) or all(lookup_array[i] < lookup_array[i + 1] for i in range(len(lookup_array) - 1))

    @c.ensures('returns-the-result-element-at-the-matched-position', 'P')
    def _(lookup_value, lookup_array, result_vec, result):
        if mt:
            hits = [i for i in range(len(lookup_array)) if lookup_array[i] <= lookup_value]
            pos = hits[-1] if hits else None
        else:
            hits = [i for i in range(len(lookup_array)) if lookup_array[i] == lookup_value]
            pos = hits[0] if hits else None
        return (result is _NA) if pos is None else same_object(result, result_vec[pos])

    @c.canary('canary:always-the-first-result')
    def _(result_vec, result):
        return same_object(result, result_vec[0])
    return c


for _n in (1, 2, 3, 4):
    for _mt in (True, False, 1):
        _lookup_contract(_n, _mt)
