"""C12 — the core function library matches its Excel definitions (DESIGN §4 C12)."""
import math
import statistics
from decimal import Decimal, ROUND_HALF_UP, ROUND_DOWN, ROUND_UP
import schedula as sh
from pyvc.contract import Contract, RealT, IntT, OneOf, ConstT, BoolT, StrT, ErrT, TupleT
from pyvc.bounded import Stage
from pyvc.spec import same_object
from formulas.tokens.operand import DIV, NUM, VALUE, NA

CONTRACTS = []
Number = OneOf(RealT(), IntT(-10 ** 9, 10 ** 9))

# ------------------------------------------------------------------------------------ proved kernels (floats as reals)
c_odd = Contract('formulas.functions.math:xodd', dict(x=Number), 'C12', name='xodd', use=[], float_mode='real')
c_even = Contract('formulas.functions.math:xeven', dict(x=Number), 'C12', name='xeven', use=[], float_mode='real')
CONTRACTS += [c_odd, c_even]


@c_odd.ensures('nearest-odd-integer-away-from-zero', 'P')
def _(x, result):
    a = result if result >= 0 else -result
    ax = x if x >= 0 else -x
    return (isinstance(result, int) and a % 2 == 1 and a >= ax and a - 2 < ax and (result >= 0) == (x >= 0))


@c_even.ensures('nearest-even-integer-away-from-zero', 'P')
def _(x, result):
    a = result if result >= 0 else -result
    ax = x if x >= 0 else -x
    return (isinstance(result, int) and a % 2 == 0 and a >= ax and a - 2 < ax and (result > 0) == (x > 0) and (result < 0) == (x < 0))


@c_odd.canary('canary:rounds-toward-zero')
def _(x, result):
    return (result if result >= 0 else -result) <= (x if x >= 0 else -x) + 1


@c_even.canary('canary:never-negative')
def _(x, result):
    return result >= 0


c_mod = Contract('formulas.functions.math:xmod', dict(x=Number, y=Number), 'C12', name='xmod', use=[], float_mode='real')
CONTRACTS.append(c_mod)


@c_mod.ensures('remainder-has-the-sign-of-the-divisor', 'P')
def _(x, y, result):
    if y == 0:
        return result is DIV
    # result = x - y * INT(x / y):  0 <= result < y  (or y < result <= 0) and x - result is a multiple of y
    return (0 <= result < y) if y > 0 else (y < result <= 0)


@c_mod.ensures('remainder-differs-from-x-by-a-multiple-of-y', 'P')
def _(x, y, result):
    return y == 0 or result == x - y * math.floor(x / y)


@c_mod.canary('canary:sign-of-dividend')
def _(x, y, result):
    return y == 0 or (result >= 0) == (x >= 0)


def kernel_of(name):
    """The python kernel (free variable `func` of safe_eval) of an element-wise registration."""
    import formulas
    import functools
    from contracts.c02_operators import find_closure, closure_vars
    f = formulas.get_functions()[name]
    from contracts.c02_operators import ufunc_wrapper_of, element_evaluator
    se = element_evaluator(ufunc_wrapper_of(f['function'] if isinstance(f, dict) else f))
    k = closure_vars(se)['func']
    return k


def _ceiling():
    return kernel_of('CEILING')


c_ceil = Contract(_ceiling, dict(num=Number, sig=Number), 'C12', name='xceiling[CEILING]', use=[], float_mode='real')
CONTRACTS.append(c_ceil)


@c_ceil.ensures('zero-significance-gives-zero-and-mixed-signs-NUM', 'P')
def _(num, sig, result):
    if sig == 0:
        return result == 0
    if sig < 0 < num:
        return isinstance(result, float) and math.isnan(result)      # becomes #NUM! in the wrapper
    return True


# "smallest multiple of the significance not below the number" needs ceil(num / sig) * sig, a product of two unknowns: non-linear real
# arithmetic on which z3 and cvc5 time out (tried: 10 s x 3 back ends per path) -> decided by the bounded stage only.
@c_ceil.canary('canary:zero-significance-is-an-error')
def _(num, sig, result):
    return sig != 0


# ------------------------------------------------------------------------------------ logical kernels
Any = OneOf(RealT(), BoolT(), StrT(), ErrT(), ConstT(sh.EMPTY))
c_if = Contract('formulas.functions.logic:xif', dict(condition=OneOf(RealT(), BoolT(), StrT()), x=Any, y=Any), 'C12',   # blanks arrive as 0 (replace_empty)
                name='xif', use=[], float_mode='real')
CONTRACTS.append(c_if)


@c_if.ensures('selects-by-the-truth-of-the-condition-text-is-VALUE', 'P')
def _(condition, x, y, result):
    if isinstance(condition, str):
        return result is VALUE
    return result is (x if condition != 0 else y)


@c_if.canary('canary:never-VALUE')
def _(condition, x, y, result):
    return result is not VALUE


def lemma_ifs(b1, v1, b2, v2):
    from formulas.functions.logic import xifs
    return xifs(b1, v1, b2, v2)


Cond = OneOf(RealT(), BoolT(), ErrT())
c_ifs = Contract(lambda: lemma_ifs, dict(b1=Cond, v1=Any, b2=Cond, v2=Any), 'C12', name='xifs[2 pairs]', use=[], float_mode='real')
CONTRACTS.append(c_ifs)


@c_ifs.ensures('first-true-condition-wins-errors-in-conditions-surface-in-order', 'P')
def _(b1, v1, b2, v2, result):
    from formulas.tokens.operand import XlError
    if isinstance(b1, XlError):
        return result is b1
    if b1 != 0:
        return result is v1
    if isinstance(b2, XlError):
        return result is b2
    if b2 != 0:
        return result is v2
    return result is NA


@c_ifs.canary('canary:never-NA')
def _(b1, v1, b2, v2, result):
    return result is not NA


# SWITCH: the first key equal to the value in Excel's sense (same kind; text without regard to case) selects
def xl_equal(a, b):
    """Excel's `=` between two scalars of the kinds number / logical / text: never true across kinds."""
    if isinstance(a, bool) or isinstance(b, bool):
        return isinstance(a, bool) and isinstance(b, bool) and a == b
    if isinstance(a, str) or isinstance(b, str):
        return isinstance(a, str) and isinstance(b, str) and a.upper() == b.upper()
    return a == b


def lemma_switch_default(val, k1, v1, default):
    from formulas.functions.logic import xswitch
    return xswitch(val, k1, v1, default)


def lemma_switch_two(val, k1, v1, k2, v2):
    from formulas.functions.logic import xswitch
    return xswitch(val, k1, v1, k2, v2)


Key = OneOf(RealT(), BoolT(), StrT(), ErrT())
Sel = OneOf(RealT(), BoolT(), StrT())          # an error or blank selector never reaches the kernel (check_error / replace_empty)
c_sw1 = Contract(lambda: lemma_switch_default, dict(val=Sel, k1=Key, v1=Any, default=Any), 'C12', name='xswitch[1 pair + default]',
                 use=[], float_mode='real')
c_sw2 = Contract(lambda: lemma_switch_two, dict(val=Sel, k1=Key, v1=Any, k2=Key, v2=Any), 'C12', name='xswitch[2 pairs]',
                 use=[], float_mode='real')
CONTRACTS += [c_sw1, c_sw2]


@c_sw1.ensures('first-equal-key-selects-else-the-default', 'P')
def _(val, k1, v1, default, result):
    from formulas.tokens.operand import XlError
    if isinstance(k1, XlError):
        return same_object(result, k1)
    return same_object(result, v1 if xl_equal(val, k1) else default)


@c_sw2.ensures('first-equal-key-selects-else-NA-errors-in-keys-surface-in-order', 'P')
def _(val, k1, v1, k2, v2, result):
    from formulas.tokens.operand import XlError
    if isinstance(k1, XlError):
        return same_object(result, k1)
    if xl_equal(val, k1):
        return same_object(result, v1)
    if isinstance(k2, XlError):
        return same_object(result, k2)
    return same_object(result, v2 if xl_equal(val, k2) else NA)


@c_sw1.canary('canary:default-never-used')
def _(val, k1, v1, default, result):
    return same_object(result, v1) or same_object(result, k1)


@c_sw2.canary('canary:second-pair-never-used')
def _(val, k1, v1, k2, v2, result):
    return same_object(result, v1) or same_object(result, k1) or result is NA


c_ifna = Contract('formulas.functions.logic:xifna', dict(val=Any, val_if_error=Any), 'C12', name='xifna', use=[], float_mode='real')
CONTRACTS.append(c_ifna)


@c_ifna.ensures('replaces-NA-only', 'P')
def _(val, val_if_error, result):
    return same_object(result, val_if_error if val is NA else val)


@c_ifna.canary('canary:replaces-every-error')
def _(val, val_if_error, result):
    from formulas.tokens.operand import XlError
    return same_object(result, val_if_error if isinstance(val, XlError) else val)


# ------------------------------------------------------------------------------------ text kernels (string theory)
Count = OneOf(IntT(-3, 10 ** 6), ConstT(None))     # None stands for the blank the kernels turn into 0 (`num_chars or 0`)
Txt = StrT()


def _n(k):
    return 0 if k is None else k


c_left = Contract('formulas.functions.text:xleft', dict(from_str=Txt, num_chars=Count), 'C12', name='xleft', use=[])
c_right = Contract('formulas.functions.text:xright', dict(from_str=Txt, num_chars=Count), 'C12', name='xright', use=[],
                   hooks={'str_reverse': 'abstract'})
c_mid = Contract('formulas.functions.text:xmid', dict(from_str=Txt, start_num=Count, num_chars=Count), 'C12', name='xmid', use=[])
c_repl = Contract('formulas.functions.text:xreplace', dict(old_text=Txt, start_num=Count, num_chars=Count, new_text=Txt), 'C12',
                  name='xreplace', use=[])
CONTRACTS += [c_left, c_right, c_mid, c_repl]


@c_left.ensures('first-n-characters-negative-count-is-VALUE', 'P')
def _(from_str, num_chars, result):
    n = _n(num_chars)
    if n < 0:
        return result is VALUE
    return len(result) == (n if n < len(from_str) else len(from_str)) and from_str.startswith(result)


@c_right.ensures('last-n-characters-negative-count-is-VALUE', 'P')
def _(from_str, num_chars, result):
    n = _n(num_chars)
    if n < 0:
        return result is VALUE
    return len(result) == (n if n < len(from_str) else len(from_str)) and from_str.endswith(result)


@c_mid.ensures('n-characters-from-position-bad-positions-are-VALUE', 'P')
def _(from_str, start_num, num_chars, result):
    s, n = _n(start_num), _n(num_chars)
    if s < 1 or n < 0:
        return result is VALUE
    # the text from position s (1-based), at most n characters
    rest = len(from_str) - (s - 1)
    want = 0 if rest <= 0 else (n if n < rest else rest)
    return len(result) == want and (want == 0 or from_str[s - 1:s - 1 + want] == result)


@c_repl.ensures('n-characters-from-position-replaced-bad-positions-are-VALUE', 'P')
def _(old_text, start_num, num_chars, new_text, result):
    s, n = _n(start_num), _n(num_chars)
    if s < 1 or n < 0:
        return result is VALUE
    head = old_text[:s - 1]
    tail = old_text[s - 1 + n:]
    return result == head + new_text + tail


@c_left.canary('canary:never-VALUE')
def _(from_str, num_chars, result):
    return result is not VALUE


@c_right.canary('canary:whole-text')
def _(from_str, num_chars, result):
    return result == from_str


@c_mid.canary('canary:never-empty')
def _(from_str, start_num, num_chars, result):
    return result is VALUE or len(result) > 0


@c_repl.canary('canary:keeps-length')
def _(old_text, start_num, num_chars, new_text, result):
    return result is VALUE or len(result) == len(old_text)


c_find = Contract('formulas.functions.text:xfind', dict(find_text=Txt, within_text=Txt, start_num=OneOf(IntT(-3, 10 ** 6), ConstT(None))),
                  'C12', name='xfind', use=[])
CONTRACTS.append(c_find)


@c_find.ensures('position-of-the-first-occurrence-at-or-after-the-start-else-VALUE', 'P')
def _(find_text, within_text, start_num, result):
    s = _n(start_num)
    if s < 1:
        return result is VALUE
    k = within_text.find(find_text, s - 1)            # the mathematical "first occurrence from offset s-1" (SMT str.indexof)
    if k < 0:
        return result is VALUE
    # 1-based position, not before the start, and the text really is there
    return result == k + 1 and result >= s and within_text[k:k + len(find_text)] == find_text


@c_find.canary('canary:always-found')
def _(find_text, within_text, start_num, result):
    return result is not VALUE


# ------------------------------------------------------------------------------------ ISODD / ISEVEN
def _parity_contract(odd):
    c = Contract('formulas.functions.info:xiseven_odd', dict(number=OneOf(RealT(), IntT(-10 ** 9, 10 ** 9), BoolT(), ErrT(), ConstT(sh.EMPTY)),
                                                              odd=ConstT(odd)),
                 'C12', name='xiseven_odd[%s]' % ('ISODD' if odd else 'ISEVEN'), use=[], float_mode='real')
    CONTRACTS.append(c)

    @c.ensures('parity-of-the-number-truncated-toward-zero', 'P')
    def _(number, result):
        from formulas.tokens.operand import XlError
        if isinstance(number, bool):
            return result is VALUE
        if isinstance(number, XlError):
            return result is number
        x = 0 if number is sh.EMPTY else number
        t = math.floor(x) if x >= 0 else -math.floor(-x)          # truncation toward zero
        return result == ((t % 2 == 1) if odd else (t % 2 == 0))

    @c.canary('canary:rounds-to-nearest')
    def _(number, result):
        from formulas.tokens.operand import XlError
        if isinstance(number, (bool, XlError)) or number is sh.EMPTY:
            return True
        return result == ((math.floor(number + 0.5) % 2 == 1) if odd else (math.floor(number + 0.5) % 2 == 0))
    return c


_parity_contract(True)
_parity_contract(False)


# ====================================================================================
# bounded stage: listed functions against spec functions over pools
def _F():
    import formulas
    return formulas.get_functions()


def _v(x):
    import numpy as np
    from formulas.ranges import Ranges
    if isinstance(x, Ranges):
        x = x.value
    if isinstance(x, np.ndarray):
        x = x.ravel()[0] if x.size == 1 else x.tolist()
    if isinstance(x, np.generic):
        x = x.item()
    return x


def _eqv(got, want, tol=1e-9):
    from formulas.tokens.operand import XlError
    if isinstance(want, XlError) or isinstance(got, XlError):
        return got is want
    if isinstance(want, bool) or isinstance(got, bool):
        return isinstance(got, (bool,)) and isinstance(want, bool) and got == want
    if isinstance(want, str) or isinstance(got, str):
        return isinstance(got, str) and isinstance(want, str) and str(got) == want
    try:
        g, w = float(got), float(want)
    except (TypeError, ValueError):
        return False
    return math.isfinite(g) and abs(g - w) <= tol * max(1.0, abs(w))


def _dec_round(x, d, mode):
    q = Decimal(1).scaleb(-d)
    v = Decimal(repr(float(x))).quantize(q, rounding=mode)
    return float(v)


def _is_num(v):
    return isinstance(v, (int, float)) and not isinstance(v, bool)


# ---- element-wise mathematics -------------------------------------------------------
def _spec_math(name, a):
    x = a[0]
    try:
        if name == 'ABS':
            return abs(x)
        if name == 'INT':
            return math.floor(x)
        if name == 'SIGN':
            return (x > 0) - (x < 0)
        if name == 'SQRT':
            return NUM if x < 0 else math.sqrt(x)
        if name == 'EXP':
            return math.exp(x)
        if name == 'LN':
            return NUM if x <= 0 else math.log(x)
        if name == 'LOG10':
            return NUM if x <= 0 else math.log10(x)
        if name == 'LOG':
            b = a[1] if len(a) > 1 else 10
            if x <= 0 or b <= 0:
                return NUM
            if b == 1:
                return DIV
            return math.log(x) / math.log(b)
        if name == 'POWER':
            y = a[1]
            if x == 0 and y == 0:
                return NUM
            if x == 0 and y < 0:
                return DIV
            if x < 0 and not float(y).is_integer():
                return NUM
            return float(x) ** y
        if name == 'ATAN2':
            return DIV if x == 0 and a[1] == 0 else math.atan2(a[1], x)
        if name == 'MOD':
            y = a[1]
            return DIV if y == 0 else x - y * math.floor(x / y)
        if name == 'ROUND':
            return math.copysign(_dec_round(abs(x), int(a[1]), ROUND_HALF_UP), x) if x else 0.0
        if name == 'ROUNDUP':
            return math.copysign(_dec_round(abs(x), int(a[1]), ROUND_UP), x) if x else 0.0
        if name in ('ROUNDDOWN', 'TRUNC'):
            d = int(a[1]) if len(a) > 1 else 0
            return math.copysign(_dec_round(abs(x), d, ROUND_DOWN), x) if x else 0.0
        if name == 'CEILING':
            s = a[1]
            if s == 0:
                return 0
            if s < 0 < x:
                return NUM
            return math.ceil(Decimal(repr(float(x))) / Decimal(repr(float(s)))) * s
        if name == 'FLOOR':
            s = a[1]
            if s == 0:
                return DIV
            if s < 0 < x:
                return NUM
            return math.floor(Decimal(repr(float(x))) / Decimal(repr(float(s)))) * s
        if name == 'EVEN':
            v = math.ceil(abs(x) / 2) * 2
            return -v if x < 0 else v
        if name == 'ODD':
            v = math.ceil(abs(x))
            v = v if v % 2 == 1 else v + 1
            return -v if x < 0 else v
        if name in ('SIN', 'COS', 'TAN', 'ATAN', 'SINH', 'COSH', 'TANH', 'ASINH'):
            return getattr(math, name.lower())(x)
        if name in ('ASIN', 'ACOS'):
            return NUM if abs(x) > 1 else getattr(math, name.lower())(x)
        # the reciprocal and the remaining inverse functions, by their definitions
        if name == 'COT':
            return DIV if x == 0 else 1 / math.tan(x)
        if name == 'SEC':
            return 1 / math.cos(x)
        if name == 'CSC':
            return DIV if x == 0 else 1 / math.sin(x)
        if name == 'COTH':
            return DIV if x == 0 else 1 / math.tanh(x)
        if name in ('SECH', 'CSCH'):
            if name == 'CSCH' and x == 0:
                return DIV
            try:
                return 1 / (math.cosh(x) if name == 'SECH' else math.sinh(x))
            except OverflowError:
                return math.copysign(0.0, x) if name == 'CSCH' else 0.0        # the reciprocal of an overflowing value
        if name == 'ACOT':
            return math.pi / 2 if x == 0 else (math.atan(1 / x) + math.pi) % math.pi
        if name == 'ACOTH':
            return NUM if abs(x) <= 1 else math.atanh(1 / x)
        if name == 'ACOSH':
            return NUM if x < 1 else math.acosh(x)
        if name == 'ATANH':
            return NUM if abs(x) >= 1 else math.atanh(x)
        if name == 'DEGREES':
            return math.degrees(x)
        if name == 'RADIANS':
            return math.radians(x)
    except OverflowError:
        return NUM
    raise KeyError(name)


MATH1 = ['ABS', 'INT', 'SIGN', 'SQRT', 'EXP', 'LN', 'LOG10', 'LOG', 'EVEN', 'ODD', 'SIN', 'COS', 'TAN', 'ATAN', 'SINH', 'COSH', 'TANH',
         'ASIN', 'ACOS', 'TRUNC', 'COT', 'SEC', 'CSC', 'COTH', 'SECH', 'CSCH', 'ACOT', 'ACOTH', 'ACOSH', 'ATANH', 'DEGREES', 'RADIANS', 'ASINH']
MATH2 = ['POWER', 'MOD', 'ROUND', 'ROUNDUP', 'ROUNDDOWN', 'TRUNC', 'CEILING', 'FLOOR', 'LOG', 'ATAN2']
NUMS = [0, 1, -1, 2, -2, 0.5, -0.5, 1.5, -1.5, 2.5, 3.2, -3.2, 1.15, 2.675, -2.675, 7, 10, 99.9, 1e-9, 1234.5678, -1234.5678, 0.1, 100]
DIGITS = [0, 1, 2, 3, -1, -2]


def _check_math(case):
    _, name, args = case
    want = _spec_math(name, args)
    if _is_num(want) and not math.isfinite(want):
        want = NUM
    try:
        got = _v(_F()[name](*args))
    except Exception as ex:
        return '%s%r raised %s' % (name, tuple(args), type(ex).__name__)
    return None if _eqv(got, want) else '%s%r = %r, Excel definition gives %r' % (name, tuple(args), got, want)


# ---- text -----------------------------------------------------------------------------
def _spec_text(name, a):
    if name == 'LEN':
        return len(a[0])
    if name == 'UPPER':
        return a[0].upper()
    if name == 'LOWER':
        return a[0].lower()
    if name == 'TRIM':
        return ' '.join(a[0].split(' ')).strip() if False else ' '.join(w for w in a[0].split(' ') if w)
    if name == 'LEFT':
        n = a[1] if len(a) > 1 else 1
        return VALUE if n < 0 else a[0][:int(n)]
    if name == 'RIGHT':
        n = a[1] if len(a) > 1 else 1
        return VALUE if n < 0 else (a[0][len(a[0]) - int(n):] if int(n) < len(a[0]) else a[0]) if n else ''
    if name == 'MID':
        s, n = int(a[1]), int(a[2])
        return VALUE if s < 1 or n < 0 else a[0][s - 1:s - 1 + n]
    if name == 'REPLACE':
        s, n = int(a[1]), int(a[2])
        return VALUE if s < 1 or n < 0 else a[0][:s - 1] + a[3] + a[0][s - 1 + n:]
    if name in ('FIND', 'SEARCH'):
        start = int(a[2]) if len(a) > 2 else 1
        if start < 1 or start > len(a[1]) + (0 if a[0] else 1):
            return VALUE
        hay, needle = (a[1], a[0]) if name == 'FIND' else (a[1].lower(), a[0].lower())
        i = hay.find(needle, start - 1)
        return VALUE if i < 0 else i + 1
    if name == 'SUBSTITUTE':
        text, old, new = a[:3]
        if len(a) < 4:
            return text.replace(old, new) if old else text
        k = int(a[3])
        if k < 1:
            return VALUE
        if not old:
            return text
        pos = -1
        for _ in range(k):
            pos = text.find(old, pos + 1)
            if pos < 0:
                return text
        return text[:pos] + new + text[pos + len(old):]
    if name in ('CONCAT', 'CONCATENATE'):
        return ''.join(a)
    raise KeyError(name)


TEXTS = ['', 'a', 'abc', 'a-b-c', 'Hello World', '  two  spaces ', 'aaa', 'AbC', '2024/01', 'xyx',
         'tab\tin', ' line\nbreak ', '12\xa0500 ', '\u2003em space']          # whitespace other than the blank is ordinary text


def _text_cases(rng, n):
    out = []
    for t in TEXTS:
        for name in ('LEN', 'UPPER', 'LOWER', 'TRIM'):
            out.append(('text', name, [t]))
        for k in (0, 1, 2, 3, 20):
            out.append(('text', 'LEFT', [t, k]))
            out.append(('text', 'RIGHT', [t, k]))
        out.append(('text', 'LEFT', [t]))
        out.append(('text', 'RIGHT', [t]))
        for s in (1, 2, 3, 9):
            for k in (0, 1, 2, 5):
                out.append(('text', 'MID', [t, s, k]))
                out.append(('text', 'REPLACE', [t, s, k, 'ZZ']))
        for needle in ('a', 'b', '-', 'A', 'o W', 'zz', ''):
            for st in (1, 2, 3):
                out.append(('text', 'FIND', [needle, t, st]))
                out.append(('text', 'SEARCH', [needle, t, st]))
            out.append(('text', 'FIND', [needle, t]))             # start_num omitted
            out.append(('text', 'SEARCH', [needle, t]))
            out.append(('text', 'SUBSTITUTE', [t, needle, '+']))
            for k in (0, 1, 2, 3, 4):
                if k == 0 and not needle:
                    continue        # which of the two rules (nothing to replace / no occurrence number 0) wins is not settled here
                out.append(('text', 'SUBSTITUTE', [t, needle, '+', k]))
        out.append(('text', 'CONCATENATE', [t, 'x', t]))
        out.append(('text', 'CONCAT', [t, 'x', t]))
    return out


def _check_text(case):
    _, name, args = case
    want = _spec_text(name, args)
    try:
        got = _v(_F()[name](*args))
    except Exception as ex:
        return '%s%r raised %s' % (name, tuple(args), type(ex).__name__)
    return None if _eqv(got, want) else '%s%r = %r, Excel definition gives %r' % (name, tuple(args), got, want)


# ---- aggregations: referenced vs typed arguments, order invariance --------------------
def _agg_values(args):
    """Numbers an aggregation counts: typed arguments coerce logicals and numeric text (other text -> #VALUE!),
    referenced cells / array elements count only numbers."""
    vals = []
    for kind, v in args:
        if kind == 'typed':
            if isinstance(v, bool):
                vals.append(float(v))
            elif isinstance(v, str):
                try:
                    vals.append(float(v))
                except ValueError:
                    return VALUE
            elif v is sh.EMPTY:
                vals.append(0.0)
            else:
                vals.append(float(v))
        else:
            for x in v:
                if _is_num(x):
                    vals.append(float(x))
    return vals


def _spec_agg(name, args):
    vals = _agg_values(args)
    if vals is VALUE:
        return VALUE
    if name == 'SUM':
        return sum(vals)
    if name == 'PRODUCT':
        return math.prod(vals) if vals else 0.0
    if name == 'SUMSQ':
        return sum(x * x for x in vals)
    if name == 'AVERAGE':
        return sum(vals) / len(vals) if vals else DIV
    if name == 'MIN':
        return min(vals) if vals else 0.0
    if name == 'MAX':
        return max(vals) if vals else 0.0
    if name == 'COUNT':
        return len(vals)
    if name == 'MEDIAN':
        return statistics.median(vals) if vals else NUM
    if name in ('STDEV', 'STDEV.S'):
        return statistics.stdev(vals) if len(vals) > 1 else DIV
    if name in ('STDEVP', 'STDEV.P'):
        return statistics.pstdev(vals) if vals else DIV
    if name in ('VAR', 'VAR.S'):
        return statistics.variance(vals) if len(vals) > 1 else DIV
    if name in ('VARP', 'VAR.P'):
        return statistics.pvariance(vals) if vals else DIV
    raise KeyError(name)


AGGS = ['SUM', 'PRODUCT', 'SUMSQ', 'AVERAGE', 'MIN', 'MAX', 'COUNT', 'MEDIAN', 'STDEV', 'STDEVP', 'VAR', 'VARP', 'STDEV.S', 'VAR.P', 'STDEV.P', 'VAR.S']
# numeric text inside ranges is not demanded (the statement names logicals and non-numeric text)
CELLS = [1, 2, 2.5, -3, 0, 'txt', 'abc', True, False, sh.EMPTY, 10]


def _build(args):
    import numpy as np
    from formulas.ranges import Ranges
    out = []
    for kind, v in args:
        if kind == 'typed':
            out.append(v)
        elif kind == 'range':
            out.append(Ranges().push('A1:%s1' % 'ABCDEFGH'[len(v) - 1], np.asarray([list(v)], object)))
        else:
            out.append(np.asarray([list(v)], object))
    return out


def _agg_cases(rng, n):
    out = []
    for _ in range(n):
        k = rng.randrange(1, 4)
        args = []
        for _ in range(k):
            r = rng.random()
            if r < 0.35:
                args.append(('typed', rng.choice([1, 2.5, -3, 0, True, False, '7', 4])))
            else:
                args.append((rng.choice(['range', 'array']), tuple(rng.choice(CELLS) for _ in range(rng.randrange(1, 6)))))
        out.append(('agg', rng.choice(AGGS), args, rng.randrange(1 << 20)))
    return out


def _check_agg(case):
    import random
    _, name, args, seed = case
    want = _spec_agg(name, args)
    try:
        got = _v(_F()[name](*_build(args)))
        perm = list(args)
        random.Random(seed).shuffle(perm)
        got2 = _v(_F()[name](*_build(perm)))
    except Exception as ex:
        return '%s%r raised %s' % (name, args, type(ex).__name__)
    if not _eqv(got, want, 1e-7):
        return '%s%r = %r, Excel definition gives %r' % (name, args, got, want)
    if not _eqv(got2, got, 1e-7) and not (got2 is got):
        return '%s is not invariant under argument order: %r vs %r for %r' % (name, got, got2, args)
    return None


# ---- logical, information and counting functions ---------------------------------------
LCELLS = [1, 0, 2.5, -3, 'txt', '', True, False, sh.EMPTY, 7]
LERR = [NA, DIV, VALUE]
LOGICALS = ['AND', 'OR', 'XOR']
INFOS = ['ISNUMBER', 'ISTEXT', 'ISNONTEXT', 'ISLOGICAL', 'ISBLANK', 'ISNA', 'ISERR', 'ISERROR']


def _is_err(v):
    from formulas.tokens.operand import XlError
    return isinstance(v, XlError)


def _flat_cells(args):
    """(value, typed?) of every argument element in argument order, ranges and arrays row-major."""
    for kind, v in args:
        if kind == 'typed':
            yield v, True
        else:
            for x in v:
                yield x, False


def _spec_logic(name, args):
    for v, typed in _flat_cells(args):
        if _is_err(v):
            return v
    vals = [bool(v) for v, typed in _flat_cells(args) if isinstance(v, bool) or _is_num(v)]
    if not vals:
        return VALUE
    if name == 'AND':
        return all(vals)
    if name == 'OR':
        return any(vals)
    return sum(vals) % 2 == 1


def _spec_info(name, v):
    if name == 'ISNUMBER':
        return _is_num(v)
    if name == 'ISTEXT':
        return isinstance(v, str) and not _is_err(v) and v is not sh.EMPTY
    if name == 'ISNONTEXT':
        return not (isinstance(v, str) and not _is_err(v) and v is not sh.EMPTY)
    if name == 'ISLOGICAL':
        return isinstance(v, bool)
    if name == 'ISBLANK':
        return v is sh.EMPTY
    if name == 'ISNA':
        return v is NA
    if name == 'ISERR':
        return _is_err(v) and v is not NA
    if name == 'ISERROR':
        return _is_err(v)
    raise KeyError(name)


def _spec_not(v):
    if _is_err(v):
        return v
    if v is sh.EMPTY:
        return True
    if isinstance(v, str):
        return VALUE
    return not v


def _spec_parity(name, v):
    if _is_err(v):
        return v
    if isinstance(v, bool):
        return VALUE
    if v is sh.EMPTY:
        v = 0
    if isinstance(v, str):
        try:
            v = float(v)
        except ValueError:
            return VALUE
    odd = math.trunc(v) % 2 == 1
    return odd if name == 'ISODD' else not odd


def _spec_count(name, args):
    if name == 'COUNTA':
        return sum(1 for v, typed in _flat_cells(args) if v is not sh.EMPTY)
    if name == 'COUNTBLANK':
        return sum(1 for v, typed in _flat_cells(args) if v is sh.EMPTY or (isinstance(v, str) and not _is_err(v) and v == ''))
    raise KeyError(name)


def _spec_rank(name, cells, k):
    for v in cells:
        if _is_err(v):
            return v
    nums = sorted((float(v) for v in cells if _is_num(v)), reverse=(name == 'LARGE'))
    if k < 1 or k > len(nums):
        return NUM
    return nums[k - 1]


def _spec_sumproduct(rows):
    if len({len(r) for r in rows}) != 1:
        return VALUE
    for r in rows:
        for v in r:
            if _is_err(v):
                return v            # which error surfaces first is not settled; any of them is checked below
    return float(sum(math.prod((float(v) if _is_num(v) else 0.0) for v in col) for col in zip(*rows)))


def _logic_cases(rng, n):
    out = []
    for _ in range(n):
        args = []
        for _ in range(rng.randrange(1, 4)):
            r = rng.random()
            if r < 0.3:
                args.append(('typed', rng.choice([1, 0, 2.5, True, False, True, False] + ([rng.choice(LERR)] if rng.random() < 0.3 else []))))
            else:
                cells = [rng.choice(LCELLS) for _ in range(rng.randrange(1, 6))]
                if rng.random() < 0.12:
                    cells[rng.randrange(len(cells))] = rng.choice(LERR)
                args.append((rng.choice(['range', 'array']), tuple(cells)))
        out.append(('logic', rng.choice(LOGICALS), args))
    scal = LCELLS + LERR
    for name in INFOS:
        # the kind of a value is the kind it has, not what it could be coerced to: text that looks like a number is text
        for v in scal + ['3', '-2.5', ' 1 ', '1e3', 'TRUE']:
            out.append(('info', name, [('typed', v)]))
        for _ in range(max(2, n // 40)):
            out.append(('info', name, [(rng.choice(['range', 'array']), tuple(rng.choice(scal + ['3', 'TRUE']) for _ in range(rng.randrange(1, 6))))]))
    for v in scal:
        out.append(('not', 'NOT', [('typed', v)]))
        for name in ('ISODD', 'ISEVEN'):
            out.append(('parity', name, [('typed', v)]))
    for v in [3, -3, 2.5, -2.5, 1e6 + 1, '4', '5', 'x', 0.5, -0.5, 7.999]:
        for name in ('ISODD', 'ISEVEN'):
            out.append(('parity', name, [('typed', v)]))
    for _ in range(max(5, n // 10)):
        out.append(('not', 'NOT', [('array', tuple(rng.choice(scal) for _ in range(rng.randrange(1, 5))))]))
    vals = [1, 0, 2.5, 'a', 'A', '', True, False]
    for _ in range(n // 2):
        # IFERROR / IFNA element-wise; SWITCH over scalars
        cells = tuple(rng.choice([1, 'a', True, 0, 2.5] + LERR) for _ in range(rng.randrange(1, 5)))
        alt = rng.choice([0, 'alt', False, NA])
        out.append(('iferr', rng.choice(['IFERROR', 'IFNA']), [rng.choice([('array', cells), ('typed', cells[0])]), ('typed', alt)]))
        k = rng.randrange(1, 4)
        pairs = []
        for _ in range(k):
            pairs += [rng.choice(vals + ([DIV] if rng.random() < 0.1 else [])), rng.choice(['r1', 'r2', 3, True])]
        if rng.random() < 0.5:
            pairs.append('dflt')
        out.append(('switch', 'SWITCH', [('typed', rng.choice(vals[:-1] + [NA] if rng.random() < 0.1 else vals))] + [('typed', p) for p in pairs]))
    for _ in range(n // 2):
        cells = tuple(rng.choice(LCELLS + ([rng.choice(LERR)] if rng.random() < 0.1 else [])) for _ in range(rng.randrange(1, 7)))
        kind = rng.choice(['range', 'array'])
        out.append(('count', 'COUNTA', [(kind, cells)] + [('typed', rng.choice([1, 'x', '', True, 2.5])) for _ in range(rng.randrange(0, 3))]))
        out.append(('count', 'COUNTBLANK', [('range', cells)]))
        out.append(('rank', rng.choice(['LARGE', 'SMALL']), [(kind, cells), ('typed', rng.randrange(0, 6))]))
        m = rng.randrange(1, 5)
        rows = [tuple(rng.choice([1, 2, -3, 0.5, 'a', True, sh.EMPTY, 4] + ([NA] if rng.random() < 0.05 else [])) for _ in range(m if rng.random() < 0.9 else m + 1))
                for _ in range(rng.randrange(1, 4))]
        out.append(('sumproduct', 'SUMPRODUCT', [(rng.choice(['range', 'array']), r) for r in rows]))
    # SUMPRODUCT over two-dimensional operands: equal cell counts but different shapes must give #VALUE!
    for (r1, c1), (r2, c2) in (((3, 1), (1, 3)), ((1, 3), (3, 1)), ((3, 2), (2, 3)), ((4, 1), (2, 2)), ((2, 2), (2, 2)), ((2, 3), (2, 3)),
                               ((3, 1), (3, 1)), ((1, 1), (1, 1)), ((2, 2), (4, 1))):
        for _ in range(2):
            a = tuple(tuple(rng.choice([1, 2, -3, 0.5, 4]) for _ in range(c1)) for _ in range(r1))
            b = tuple(tuple(rng.choice([1, 2, -3, 0.5, 4]) for _ in range(c2)) for _ in range(r2))
            out.append(('sumproduct2d', 'SUMPRODUCT', [a, b]))
    return out


def _call(name, args):
    import numpy as np
    f = _F()[name]
    f = f['function'] if isinstance(f, dict) else f
    if args and isinstance(args[0], tuple) and args[0] and isinstance(args[0][0], tuple):      # plain 2-D operands
        return f(*[np.asarray([list(r) for r in a], object) for a in args])
    return f(*_build(args))


def _elementwise(got, cells):
    import numpy as np
    g = np.asarray(got, object).ravel().tolist()
    return g if len(g) == len(cells) else None


def _check_logic(case):
    kind, name, args = case
    try:
        raw = _call(name, args)
    except Exception as ex:
        return '%s%r raised %s' % (name, args, type(ex).__name__)
    got = _v(raw)
    if kind == 'logic':
        want = _spec_logic(name, args)
        if _is_err(want):
            errs = [v for v, t in _flat_cells(args) if _is_err(v)]
            ok = any(got is e for e in errs) if len(errs) > 1 else got is want     # several errors: which one is not settled
        else:
            ok = _eqv(bool(got) if isinstance(got, (bool,)) or type(got).__name__ == 'bool_' else got, want)
        return None if ok else '%s%r = %r, Excel definition gives %r' % (name, args, got, want)
    if kind in ('info', 'not', 'parity', 'iferr'):
        a0 = args[0]
        cells = [a0[1]] if a0[0] == 'typed' else list(a0[1])
        if kind == 'info':
            want = [_spec_info(name, v) for v in cells]
        elif kind == 'not':
            want = [_spec_not(v) for v in cells]
        elif kind == 'parity':
            want = [_spec_parity(name, v) for v in cells]
        else:
            alt = args[1][1]
            hit = (lambda v: _is_err(v)) if name == 'IFERROR' else (lambda v: v is NA)
            want = [alt if hit(v) else v for v in cells]
        g = _elementwise(raw.value if hasattr(raw, 'ranges') else raw, cells)
        if g is None:
            return '%s%r = %r: expected one result per element' % (name, args, got)
        for x, w, v in zip(g, want, cells):
            x = x.item() if hasattr(x, 'item') and not isinstance(x, str) else x
            if not (_eqv(x, w) or (x is w)):
                return '%s(%r) = %r, Excel definition gives %r (in %r)' % (name, v, x, w, args)
        return None
    if kind == 'switch':
        vals = [a[1] for a in args]
        val, rest = vals[0], vals[1:]
        want = None
        if _is_err(val):
            want = val
        else:
            for k, v in zip(rest[::2], rest[1::2]):
                if _is_err(k):
                    want = k
                    break
                if xl_equal(val, k):
                    want = v
                    break
            else:
                want = rest[-1] if len(rest) % 2 else NA
        return None if (_eqv(got, want) or got is want) else 'SWITCH%r = %r, Excel definition gives %r' % (tuple(vals), got, want)
    if kind == 'count':
        want = _spec_count(name, args)
        return None if _eqv(got, want) else '%s%r = %r, Excel definition gives %r' % (name, args, got, want)
    if kind == 'rank':
        want = _spec_rank(name, list(args[0][1]), args[1][1])
        return None if (_eqv(got, want) or got is want) else '%s%r = %r, Excel definition gives %r' % (name, args, got, want)
    if kind == 'sumproduct2d':
        a, b = args
        want = VALUE if (len(a), len(a[0])) != (len(b), len(b[0])) else float(sum(x * y for ra, rb in zip(a, b) for x, y in zip(ra, rb)))
        return None if (_eqv(got, want) or got is want) else 'SUMPRODUCT(%r, %r) = %r, Excel definition gives %r' % (a, b, got, want)
    if kind == 'sumproduct':
        rows = [list(a[1]) for a in args]
        want = _spec_sumproduct(rows)
        errs = [v for r in rows for v in r if _is_err(v)]
        if errs:      # which error surfaces (or #VALUE! for unequal sizes) is not settled by the statement
            ok = any(got is v for v in errs) or (want is VALUE and got is VALUE)
        else:
            ok = _eqv(got, want) or got is want
        return None if ok else 'SUMPRODUCT%r = %r, Excel definition gives %r' % (rows, got, want)
    raise KeyError(kind)


def _cases(tier, rng):
    out = []
    for name in MATH1:
        if name in ('LOG', 'TRUNC'):
            pass
        for x in NUMS:
            out.append(('math', name, [x]))
    for name in MATH2:
        for x in NUMS:
            for y in (DIGITS if name in ('ROUND', 'ROUNDUP', 'ROUNDDOWN', 'TRUNC') else [0, 1, -1, 2, 0.5, -0.5, 3, 0.25, 10, -2]):
                out.append(('math', name, [x, y]))
    n = 400 if tier == 'quick' else 40000
    for _ in range(n):
        name = rng.choice(['ROUND', 'ROUNDUP', 'ROUNDDOWN', 'MOD', 'CEILING', 'FLOOR', 'POWER', 'EVEN', 'ODD', 'INT', 'TRUNC'])
        x = round(rng.uniform(-1000, 1000), rng.randrange(0, 4))
        if name in ('EVEN', 'ODD', 'INT'):
            out.append(('math', name, [x]))
        elif name in ('ROUND', 'ROUNDUP', 'ROUNDDOWN', 'TRUNC'):
            out.append(('math', name, [x, rng.randrange(-2, 4)]))
        else:
            out.append(('math', name, [x, rng.choice([-4, -2, -0.5, 0.25, 0.5, 1, 2, 3, 5])]))
    out += _text_cases(rng, n)
    out += _agg_cases(rng, 3 * n)
    out += _logic_cases(rng, n)
    return out


def _check(case):
    if case[0] == 'math':
        return _check_math(case)
    if case[0] == 'text':
        return _check_text(case)
    if case[0] == 'agg':
        return _check_agg(case)
    return _check_logic(case)


def _float_artifact(case):
    """x * 10**d is not the decimal product in binary floating point (e.g. 1.15 * 100 = 114.99999999999999)."""
    _, name, args = case
    if name not in ('ROUNDDOWN', 'TRUNC', 'ROUNDUP', 'ROUND') or len(args) < 2:
        return False
    x, d = abs(float(args[0])), int(args[1])
    return Decimal(repr(x)).scaleb(d) != Decimal(x * 10 ** d)


def _classify(case, detail):
    if case[0] == 'math':
        if _float_artifact(case):
            return 'KF-C12-1'
        if case[1] == 'LOG' and len(case[2]) > 1 and case[2][1] == 1:
            return 'KF-C12-2'
    if case[0] == 'agg' and case[1] == 'PRODUCT' and _agg_values(case[2]) == []:
        return 'KF-C12-3'
    return None


# ---- a value COMPUTED inside the argument list is a directly typed argument (only what sits in a referenced range or an array is skipped) ----
COMPUTED = [('=SUM(1=1,5)', 6.0), ('=SUM(NOT(FALSE),5)', 6.0), ('=COUNT(1=1)', 1), ('=AVERAGE(1=1,3)', 2.0), ('=MAX(1=1,0.5)', 1.0),
            ('=SUM(1+1,5)', 7.0), ('=SUM(ABS(-2),5)', 7.0), ('=COUNT(1+1,"a")', 1), ('=MAX(ABS(-2),0.5)', 2.0), ('=SUM("2"&"",5)', 7.0)]


def _check_computed(case):
    import numpy as np
    import formulas
    text, want = case
    try:
        f = formulas.Parser().ast(text)[1].compile()
        got = np.asarray(f(), object).ravel()[0]
    except Exception as ex:
        return '%s raised %s: %s' % (text, type(ex).__name__, str(ex)[:80])
    return None if (not isinstance(got, bool) and got == want) else '%s = %r, Excel: %r' % (text, got, want)


# ---- optional arguments left out: the documented defaults apply ----
OPTIONAL = [('=IF(FALSE,5)', False), ('=IF(TRUE,5)', 5), ('=IF(2>1,"y")', 'y'), ('=IF(1>2,"y")', False), ('=LOG(100)', 2.0), ('=LEFT("abc")', 'a'),
            ('=RIGHT("abc")', 'c'), ('=TRUNC(2.7)', 2.0), ('=TRUNC(-2.7)', -2.0), ('=FIND("b","abc")', 2), ('=SEARCH("B","abc")', 2),
            ('=SUBSTITUTE("aXbX","X","-")', 'a-b-'), ('=ROUNDDOWN(2.7,0)', 2.0), ('=CEILING(2.1,1)', 3.0), ('=TEXTJOIN("-",TRUE,"a","","b")', 'a-b'),
            ('=TEXTJOIN("-",FALSE,"a","","b")', 'a--b'),
            # numbers and logicals given to the text functions are taken by their display form
            ('=LEN(123)', 3), ('=LEN(TRUE)', 4), ('=LEFT(12345,2)', '12'), ('=RIGHT(12345,2)', '45'), ('=MID(12345,2,2)', '23'),
            ('=UPPER(TRUE)', 'TRUE'), ('=LOWER(TRUE)', 'true'), ('=SUBSTITUTE(1213,1,"x")', 'x2x3'), ('=SUBSTITUTE("a1b1","1",2)', 'a2b2'),
            ('=SUBSTITUTE("a1b1",1,"-")', 'a-b-'), ('=REPLACE(12345,2,1,9)', '19345'), ('=REPLACE("abc",2,1,7)', 'a7c'), ('=FIND(2,123)', 2),
            ('=SEARCH(3,123)', 3), ('=CONCATENATE(1,TRUE,"x")', '1TRUEx'), ('=TRIM(12)', '12'), ('=CONCAT(1.5,2)', '1.52'), ('=VALUE("12")', 12)]


def _check_optional(case):
    import numpy as np
    import formulas
    text, want = case
    try:
        f = formulas.Parser().ast(text)[1].compile()
        got = np.asarray(f(), object).ravel()[0]
    except Exception as ex:
        return '%s raised %s: %s' % (text, type(ex).__name__, str(ex)[:80])
    same = (isinstance(got, (bool, np.bool_)) == isinstance(want, bool)) and got == want
    return None if same else '%s = %r, Excel: %r' % (text, got, want)


def _classify_computed(case, detail):
    # a logical or a text produced by an operator / function inside the argument list is treated like a referenced one
    return 'KF-C12-4' if ('1=1' in case[0] or 'NOT(' in case[0] or '&' in case[0]) else None


BOUNDED = [
    Stage('B3:optional-arguments-left-out', 'C12', lambda tier, rng: list(OPTIONAL), _check_optional,
          '%d calls of the listed functions with their optional arguments left out (IF without else, LOG without base, LEFT / RIGHT without a count, '
          'TRUNC without digits, FIND / SEARCH without a start, TEXTJOIN ignoring / keeping empty text) and of the text functions with numbers / logicals as arguments' % len(OPTIONAL), parallel=False),
    Stage('B2:computed-arguments-count-as-typed', 'C12', lambda tier, rng: list(COMPUTED), _check_computed,
          '%d aggregations with an argument computed in place (a comparison, NOT(), arithmetic, a function call, a concatenation)' % len(COMPUTED),
          classify=_classify_computed, parallel=False),
    Stage('B1:core-functions-against-excel-definitions', 'C12', _cases, _check,
          '20 unary / 9 binary mathematical functions over 23 numbers (halves, 1.15, 2.675, large, tiny) x second arguments, random decimals; '
          '12 text functions over 10 texts x positions; 14 aggregations over random mixtures of typed arguments, ranges and array literals '
          '(referenced vs typed rule, order invariance); logical (AND OR XOR NOT IFERROR IFNA SWITCH), information (8 IS... functions, ISODD, '
          'ISEVEN) and counting / ranking functions (COUNTA COUNTBLANK LARGE SMALL SUMPRODUCT) over scalars of every kind, ranges and arrays',
          classify=_classify, max_report=100000),
]

PROPERTIES = {
    'C12': dict(
        level='other',
        explanation=(
            'Proved on the real kernels for all arguments (floats as reals, declared): EVEN / ODD / MOD / CEILING guards; the selection logic of '
            'IF / IFS / SWITCH / IFNA; ISODD / ISEVEN (parity of the truncated number, #VALUE! for logicals); the text kernels LEFT / RIGHT / MID / '
            'REPLACE / FIND over arbitrary text and positions (SMT string theory; s[::-1] by abstract reversal). Bounded: mathematical, text, '
            'aggregation, logical, information and counting functions through the real FUNCTIONS entries against spec functions written from '
            'the Excel definitions (decimal rounding with the decimal module).'),
        assumptions=['machine floats treated as mathematical reals in the proved kernels (float-exact claims are bounded only)',
                     'text arguments of the proved text kernels are str (numbers reach them through _str, bounded only)'],
        not_proved=['decimal rounding (ROUND family), aggregations (numpy), SUBSTITUTE / TRIM / SEARCH / CONCAT / TEXTJOIN (split / join / lower), '
                    'the IS... family (numpy element loop): bounded stage only'],
        bounded_rule='(function, arguments) cases; distinct = distinct cases',
    ),
}
