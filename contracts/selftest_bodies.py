"""Engine self-test: pairs of tiny functions (a correct body and a deliberately broken one) under the same contract.
Every run of every check first verifies that the generator + solvers accept each correct body and REFUTE each broken
one (pyvc.selftest); a generator that cannot fail would be caught here.  Not part of any property."""


def clamp_good(x, lo, hi):
    if x < lo:
        return lo
    if x > hi:
        return hi
    return x


def clamp_bad(x, lo, hi):
    if x < lo:
        return lo
    if x >= hi:          # broken: returns hi - 1 ... no: returns x when x == hi is fine; the break is below
        return hi - 1
    return x


def label_good(sheet, ref):
    return (sheet + '!' + ref) if sheet else ref


def label_bad(sheet, ref):
    return sheet + '!' + ref           # broken: a leading '!' for the empty sheet


def floor_mod_good(a, b):
    return a - b * (a // b)


def floor_mod_bad(a, b):
    q = a // b
    if a < 0 and b > 0:
        q = q + 1                        # broken: truncating division
    return a - b * q


def widen_good(area, r):
    if r > area['r2']:
        area['r2'] = r
    return area


def widen_bad(area, r):
    area['r2'] = r                       # broken: may shrink
    return area


def count_pos_good(xs):
    n = 0
    for x in xs:
        if x > 0:
            n += 1
    return n


def count_pos_bad(xs):
    n = 0
    for x in xs:
        if x >= 0:                       # broken: counts zeros
            n += 1
    return n


def safe_div_good(a, b):
    try:
        return a / b
    except ZeroDivisionError:
        return None


def safe_div_bad(a, b):
    try:
        return a / b
    except ValueError:                   # broken: the wrong exception is caught
        return None


def fresh_names_good(seen, new):
    names = {s for s in seen}            # a set of symbolic values: membership only (values.SymSet)
    return tuple(n for n in new if n not in names)


def fresh_names_bad(seen, new):
    names = {s for s in seen[1:]}        # broken: the first name already seen is forgotten
    return tuple(n for n in new if n not in names)
