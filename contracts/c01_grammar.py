"""C01 — formulas are parsed according to Excel's operator grammar (DESIGN §4 C01, A.6)."""
import itertools
import math
import schedula as sh
from pyvc.bounded import Stage
from contracts import specparser as SP

CONTRACTS = []
REFVALS = {'A1': 3.0, 'B2': -2.0}


def _parse(text):
    import formulas
    return formulas.Parser().ast(text)[1]


def _value(builder_or_text):
    import numpy as np
    b = _parse(builder_or_text) if isinstance(builder_or_text, str) else builder_or_text
    f = b.compile()
    args = [REFVALS[k] for k in f.inputs]
    v = f(*args)
    if hasattr(v, 'value'):
        v = v.value
    v = np.asarray(v, object)
    return v.tolist() if v.size != 1 else v.ravel()[0]


def _same_value(a, b):
    from formulas.tokens.operand import XlError
    if isinstance(a, list) or isinstance(b, list):
        return isinstance(a, list) and isinstance(b, list) and len(a) == len(b) and all(_same_value(x, y) for x, y in zip(a, b))
    if isinstance(a, XlError) or isinstance(b, XlError):
        return a is b
    if isinstance(a, (bool,)) or isinstance(b, bool):
        return type(a) is type(b) and a == b
    if isinstance(a, str) or isinstance(b, str):
        return isinstance(a, str) and isinstance(b, str) and str(a) == str(b)
    try:
        fa, fb = float(a), float(b)
        return (math.isnan(fa) and math.isnan(fb)) or abs(fa - fb) <= 1e-9 * max(1.0, abs(fa), abs(fb))
    except (TypeError, ValueError):
        return a == b


def spec_eval(t):
    """Value of a tree over literals and the two reference values, by the scalar rules of C02's spec table."""
    from contracts.c02_operators import spec_binary, spec_unary
    k = t[0]
    if k == 'num':
        return float(t[1])
    if k == 'str':
        return t[1]
    if k == 'ref':
        return REFVALS[t[1].upper()]
    if k == 'bin':
        return spec_binary(t[1], spec_eval(t[2]), spec_eval(t[3]))
    if k == 'un':
        return spec_unary('U' + t[1], spec_eval(t[2]))
    if k == 'pct':
        return spec_unary('%', spec_eval(t[1]))
    raise NotImplementedError(k)


def _scalar_only(t):
    return t[0] in ('num', 'str', 'ref') or (t[0] in ('bin',) and _scalar_only(t[2]) and _scalar_only(t[3])) or \
        (t[0] == 'un' and _scalar_only(t[2])) or (t[0] == 'pct' and _scalar_only(t[1]))


def _display_sensitive(t):
    """The tree joins (&) a number of very large or very small magnitude to text: how such a number is displayed is C02's
    question (KF-C02-3), not the grammar's - the tree is still decided by the exported text and by value = value of the export."""
    k = t[0]
    if k in ('num', 'str', 'ref'):
        return False
    subs = [x for x in t[1:] if isinstance(x, tuple)]
    if k == 'bin' and t[1] == '&':
        for x in (t[2], t[3]):
            try:
                v = spec_eval(x)
            except Exception:
                return True
            if isinstance(v, float) and v != 0 and not (1e-4 <= abs(v) < 1e15):
                return True
    return any(_display_sensitive(x) for x in subs)


def _check_tree(case):
    """tree, spelling -> the real parser must produce the tree's rendering and value."""
    from formulas.errors import FormulaError
    kind, tree, text = case
    want = SP.render(tree)
    try:
        b = _parse(text)
        got = b[-1].get_expr
    except Exception as ex:
        return '%s did not parse (%s); expected tree %s' % (text, type(ex).__name__, want)
    if got != want:
        return '%s parsed as %s, Excel tree is %s' % (text, got, want)
    try:
        v1 = _value(b)
        v2 = _value('=' + want)
    except Exception as ex:
        return '%s: evaluation raised %s' % (text, type(ex).__name__)
    if not _same_value(v1, v2):
        return '%s evaluates to %r but its exported text %s to %r' % (text, v1, want, v2)
    if _scalar_only(tree) and not _display_sensitive(tree):
        v3 = spec_eval(tree)
        if not _same_value(v1, v3):
            return '%s evaluates to %r, the tree %s has value %r' % (text, v1, want, v3)
    return None


def _tok(x):
    if x in SP.RANK:
        return ('op', x)
    if x == '%':
        return ('pct', '%')
    if x == '(':
        return ('lpar', '(')
    if x == ')':
        return ('rpar', ')')
    return x


def _pairs_triples(tier, rng):
    """Exhaustive: every ordered pair and triple of binary operators, with prefix signs and postfix % in every
    operand position of the pairs."""
    out = []
    a, b, c, d = ('num', '2'), ('ref', 'A1'), ('num', '3'), ('num', '0.5')
    ops = SP.BINOPS
    for o1, o2 in itertools.product(ops, ops):
        toks = [a, _tok(o1), b, _tok(o2), c]
        out.append(('pair', toks))
        for pos in (0, 2, 4):
            for sign in '+-':
                t2 = list(toks)
                t2.insert(pos, ('op', sign))
                out.append(('pair-sign', t2))
            t3 = list(toks)
            t3.insert(pos + 1, ('pct', '%'))
            out.append(('pair-pct', t3))
    for o1, o2, o3 in itertools.product(ops, ops, ops):
        out.append(('triple', [a, _tok(o1), b, _tok(o2), c, _tok(o3), d]))
    cases = []
    for kind, toks in out:
        tree = SP.accepts(toks)
        assert tree is not None, toks
        cases.append((kind, tree, SP.text_of(toks)))
    return cases


def _random_trees(tier, rng):
    cases = []
    n = 2000 if tier == 'quick' else 250000
    for i in range(n):
        depth = 1 + (i % 5)
        tree = SP.random_tree(rng, depth)
        style = i % 4
        text = SP.spell(tree, rng, redundant=(0.0, 0.3, 0.0, 0.2)[style], spaces=(0.0, 0.0, 0.5, 0.3)[style],
                        lower=(0.0, 0.0, 0.0, 0.5)[style])
        cases.append(('tree-d%d' % depth, tree, text))
    return cases


def _classify(case, detail):
    text = case[2]
    if SP.has_sign_run(text) or SP.has_sign_run(SP.render(case[1])):
        return 'KF-C01-1'
    if '%%' in text.replace(' ', '') or '%%' in SP.render(case[1]):
        return 'KF-C01-2'
    return None


# ---- listed formulas whose tree no generator above spells: (text, exported text of Excel's tree) ---------------------------------
LISTED = [
    ('=SUM(A1:(B2))', 'SUM((A1: B2))'), ('=SUM((A1):B2)', 'SUM((A1: B2))'), ('=SUM((A1,C3):(B2))', 'SUM(((A1, C3): B2))'),
    ('=SUM((A1,C3):B2)', 'SUM(((A1, C3): B2))'), ('=SUM((A1 A1:B2):C3)', 'SUM(((A1 A1:B2): C3))'), ('=(1+2)*3', '((1 + 2) * 3)'),
    ('=-(1+2)%', '-(1 + 2)%'), ('=2^(1+1)^2', '((2 ^ (1 + 1)) ^ 2)'), ('=IF(1,,3)', 'IF(1, , 3)'), ('=SUM(1,)', 'SUM(1, )'),
    ('= ( 1 + 2 ) * 3 ', '((1 + 2) * 3)'), ('=sum( a1 , B2 )', 'SUM(A1, B2)'),
]


def _check_listed(case):
    text, want = case
    try:
        got = _parse(text)[-1].get_expr
    except Exception as ex:
        return '%s did not parse (%s); expected tree %s' % (text, type(ex).__name__, want)
    return None if got == want else '%s parsed as %s, Excel tree is %s' % (text, got, want)


def _classify_listed(case, detail):
    # a range operator directly after a closing parenthesis
    return 'KF-C01-3' if '):' in case[0].replace(' ', '') and 'parsed as' in detail and ', :' in detail else None


# ---- constants keep their own spelling: two literals that differ only in letter case are two operands of the tree ---------------
LITERALS = [
    ('="a"&"A"', 'aA'), ('="x"&"X"&"x"', 'xXx'), ('=CONCATENATE("Ab","aB","AB")', 'AbaBAB'), ('=IF(A1>0,"yes","YES")', 'yes'),
    ('=IF(A1<0,"yes","YES")', 'YES'), ('=SUBSTITUTE("banana","a","A")', 'bAnAnA'), ('="abc"', 'abc'),
    ('=LEFT("qQ",1)&RIGHT("Qq",1)', 'qq'), ('=true&TRUE&True', 'TRUETRUETRUE'), ('=IF(TRUE,"n/a","N/A")&"#n/a"', 'n/a#n/a'),
    ('=LOWER("Ab")&UPPER("aB")&"ab"&"AB"', 'abABabAB'), ('=("é"&"É")', 'éÉ'),
    # text literals that consist of syntax characters are operands like any other
    ('=LEN(",")', 1), ('=SUBSTITUTE("a.b",".",",")', 'a,b'), ('="x"&","', 'x,'), ('=(",")', ','), ('=COUNTA({1,",";2,","})', 4),
    ('=LEN("(")+LEN(")")', 2), ('=CONCATENATE(";","{","}")', ';{}'), ('=LEN(" ")', 1), ('=IF(TRUE,",",";")', ','), ('="+"&"-"&"%"', '+-%'),
    ('=SUM(LEN(","),LEN(""))', 1.0), ('=LEN(":")&LEN("!")', '11'),
]


def _check_literal_case(case):
    text, want = case
    try:
        b = _parse(text)
        got = _value(b)
    except Exception as ex:
        return '%s raised %s: %s' % (text, type(ex).__name__, str(ex)[:80])
    numeric = isinstance(want, (int, float)) and not isinstance(want, bool)
    if not _same_value(got, want) or (isinstance(got, bool) != isinstance(want, bool)) or (not numeric and type(got) is not type(want)):
        return '%s = %r, expected %r' % (text, got, want)
    if text == '="abc"' and b[-1].get_expr != '"abc"':
        return '%s is exported as %s' % (text, b[-1].get_expr)
    return None


BOUNDED = [
    Stage('B1:literals-keep-their-spelling', 'C01', lambda tier, rng: list(LITERALS), _check_literal_case,
          '%d formulas whose text / logical literals differ only in letter case: every literal is an operand of its own' % len(LITERALS),
          parallel=False),
    Stage('B1:listed-formulas', 'C01', lambda tier, rng: list(LISTED), _check_listed,
          '%d listed formulas (range operator next to parentheses, empty arguments, redundant blanks and case) with the exported text of '
          "Excel's tree" % len(LISTED), parallel=False, classify=_classify_listed),
    Stage('B1:every-pair-and-triple-of-operators', 'C01', _pairs_triples, _check_tree,
          'all 144 ordered pairs of binary operators (plain, with a prefix sign or a postfix % at each operand) and all 1728 triples: '
          'exported text = rendering of the tree of the spec precedence-climbing parser; value = value of the exported text = spec value',
          classify=_classify, exhaustive=True, max_report=50, exact_file='known_findings_data/C01_pairs_triples.json',
          case_key=lambda case: case[2]),
    Stage('B1:random-trees-and-spellings', 'C01', _random_trees, _check_tree,
          'random trees of depth 1..5 over 12 binary operators, signs, %, 4 functions with empty arguments, array literals; 4 spelling styles '
          '(minimal / redundant parentheses / whitespace / lower case); 2000 (quick) / 250000 (thorough)',
          classify=_classify, max_report=50),
]

PROPERTIES = {
    'C01': dict(level='other', explanation='bounded', assumptions=[], not_proved=[]),
}


# ====================================================================================
# table obligations: the precedence and arity tables are Excel's (ground facts, every pair)
class _Table:
    def __init__(self, name, prop, fn):
        self.name, self.prop, self.fn = name, prop, fn

    def run(self):
        return self.fn()


SPEC_RANK = dict(SP.RANK)
SPEC_RANK.update({'%': SP.PCT_RANK, 'u-': SP.SIGN_RANK, 'u+': SP.SIGN_RANK, ':': SP.REF_RANK, ' ': SP.REF_RANK, ',': SP.REF_RANK})
SPEC_NARGS = {k: 2 for k in SPEC_RANK}
SPEC_NARGS.update({'%': 1, 'u-': 1, 'u+': 1})


def _example(a, b):
    ex = {('*', '^'): '=2*3^2', ('+', '*'): '=1+2*3'}
    return ex.get((a, b), '=2%s3%s2' % (a, b) if len(a) <= 2 and len(b) <= 2 and 'u' not in a + b and ' ' not in a + b else None)


def _precedence_table():
    from formulas.tokens.operator import Operator
    live = Operator._precedences
    out = [dict(name='T:precedence/same-operators', kind='P', ok=set(live) == set(SPEC_RANK),
                detail='operator set %s differs from the grammar\'s %s' % (sorted(live), sorted(SPEC_RANK)), witness=None)]
    for a in sorted(SPEC_RANK):
        for b in sorted(SPEC_RANK):
            if a in live and b in live:
                want = (SPEC_RANK[a] > SPEC_RANK[b]) - (SPEC_RANK[a] < SPEC_RANK[b])
                got = (live[a] > live[b]) - (live[a] < live[b])
                ok = want == got
                # a prefix sign and the postfix % meet only as "sign on the stack, % incoming", where the sign leaves the stack iff it does
                # not bind looser: binding equally gives the same tree, so only "not looser" is demanded of that pair
                if a in ('u-', 'u+') and b == '%':
                    ok = got >= 0
                if a == '%' and b in ('u-', 'u+'):
                    ok = got <= 0
                # two prefix signs never meet on the stack (a run of signs is one token): their relative rank is not observable
                if a in ('u-', 'u+') and b in ('u-', 'u+'):
                    ok = True
                out.append(dict(name='T:precedence/%r-vs-%r' % (a, b), kind='P', ok=ok,
                                detail='%r binds %s than %r in Operator._precedences, Excel: %s' % (
                                    a, {1: 'tighter', 0: 'equally', -1: 'looser'}[got], b, {1: 'tighter', 0: 'equally', -1: 'looser'}[want]),
                                witness=_example(a, b)))
    for a in sorted(SPEC_NARGS):
        out.append(dict(name='T:arity/%r' % a, kind='P', ok=Operator._n_args[a] == SPEC_NARGS[a],
                        detail='%r takes %r operands, Excel: %r' % (a, Operator._n_args[a], SPEC_NARGS[a]), witness=None))
    return out


TABLES = [_Table('T:precedence-and-arity', 'C01', _precedence_table)]

PROPERTIES['C01'] = dict(
    level='other',
    explanation=(
        'Table obligations (ground, all 18x18 pairs): Operator._precedences and _n_args order the operators exactly as Excel\'s grammar. '
        'Bounded: every ordered pair and triple of operators (with prefix signs / postfix %) and random trees to depth 5 in four spelling '
        'styles through the real Parser.ast, against an independent precedence-climbing spec parser: exported text = rendering of the tree, '
        'value = value of the exported text = spec value.'),
    assumptions=['the spec parser in contracts/specparser.py is the grammar of the statement'],
    not_proved=['the shunting-yard handlers (pop loop, argument counting) against their contracts for arbitrary stacks: pending loop-invariant support'],
    bounded_rule='(tree, spelling) cases; distinct = distinct spellings',
)


# ====================================================================================
# proved part: the exported text of a node is the fully parenthesised rendering built from its operands' texts
# (set_expr of every token kind, on the real bodies, operand texts arbitrary strings).  Together with the table fact that
# AstBuilder.append hands set_expr exactly the popped operands in order, the exported text of a tree is render(tree)
# by structural induction.
from pyvc.contract import Contract, ObjT, RecordT, StrT, ConstT, OneOf, TupleT
from pyvc.spec import in_re

_OPS2 = ['+', '-', '*', '/', '^', '&', '=', '<>', '<', '>', '<=', '>=']


def _tokT(cls, **attr):
    return ObjT(cls, {'attr': RecordT(attr), 'source': ConstT('')})


def _operandT():
    return _tokT('formulas.tokens.operand:Operand', expr=StrT())


def _set_expr_contract(name, n, prop='C01', out=None, prefix=''):
    params = dict(self=_tokT('formulas.tokens.operator:OperatorToken', name=ConstT(name)), a=_operandT())
    if n == 2:
        params['b'] = _operandT()

    def lemma1(self, a):
        self.set_expr(a)
        return self.attr['expr']

    def lemma2(self, a, b):
        self.set_expr(a, b)
        return self.attr['expr']
    fn = lemma2 if n == 2 else lemma1
    c = Contract(lambda: fn, params, prop, name=prefix + 'Operator.set_expr[%s]' % {' ': 'space'}.get(name, name), use=[], frame=('self',))
    (CONTRACTS if out is None else out).append(c)
    if n == 2:
        @c.ensures('binary-node-renders-as-parenthesised-infix', 'P')
        def _(self, a, b, result):
            ea, eb = a.attr['expr'], b.attr['expr']
            if name == ' ':
                return result == '(' + ea + ' ' + eb + ')'
            if name in (',', ':'):
                return result == '(' + ea + name + ' ' + eb + ')'
            return result == '(' + ea + ' ' + name + ' ' + eb + ')'

        @c.canary('canary:no-parentheses')
        def _(self, a, b, result):
            return result == a.attr['expr'] + name + b.attr['expr']
    else:
        @c.ensures('unary-node-renders-as-sign-prefix-or-percent-suffix', 'P')
        def _(self, a, result):
            ea = a.attr['expr']
            return result == ((ea + '%') if name == '%' else (name[1] + ea))

        @c.canary('canary:operand-dropped')
        def _(self, a, result):
            return result == name
    return c


for _nm_ in _OPS2 + [' ', ',', ':']:
    _set_expr_contract(_nm_, 2)
for _nm_ in ('u-', 'u+', '%'):
    _set_expr_contract(_nm_, 1)


def _fn_set_expr_contract(n, prop='C01', out=None, prefix=''):
    params = dict(self=_tokT('formulas.tokens.function:Function', name=StrT()))
    names = ['a', 'b', 'c'][:n]
    for k in names:
        params[k] = _operandT()

    def l0(self):
        self.set_expr()
        return self.attr['expr']

    def l1(self, a):
        self.set_expr(a)
        return self.attr['expr']

    def l2(self, a, b):
        self.set_expr(a, b)
        return self.attr['expr']

    def l3(self, a, b, c):
        self.set_expr(a, b, c)
        return self.attr['expr']
    fn = [l0, l1, l2, l3][n]
    c = Contract(lambda: fn, params, prop, name=prefix + 'Function.set_expr[%d arguments]' % n, use=[], frame=('self',))
    (CONTRACTS if out is None else out).append(c)
    if n == 0:
        @c.ensures('call-renders-as-NAME-and-arguments-joined-by-comma-blank', 'P')
        def _(self, result):
            return result == self.attr['name'].upper() + '()'
    elif n == 1:
        @c.ensures('call-renders-as-NAME-and-arguments-joined-by-comma-blank', 'P')
        def _(self, a, result):
            return result == self.attr['name'].upper() + '(' + a.attr['expr'] + ')'
    elif n == 2:
        @c.ensures('call-renders-as-NAME-and-arguments-joined-by-comma-blank', 'P')
        def _(self, a, b, result):
            return result == self.attr['name'].upper() + '(' + a.attr['expr'] + ', ' + b.attr['expr'] + ')'
    else:
        @c.ensures('call-renders-as-NAME-and-arguments-joined-by-comma-blank', 'P')
        def _(self, a, b, c, result):
            return result == self.attr['name'].upper() + '(' + a.attr['expr'] + ', ' + b.attr['expr'] + ', ' + c.attr['expr'] + ')'
    return c


for _kk in range(4):
    _fn_set_expr_contract(_kk)


def lemma_string_expr(self):
    self.set_expr()
    return self.attr['expr']


c_str_expr = Contract(lambda: lemma_string_expr, dict(self=_tokT('formulas.tokens.operand:String', name=StrT())), 'C01',
                      name='String.set_expr', use=[], frame=('self',))
CONTRACTS.append(c_str_expr)


@c_str_expr.ensures('text-literal-renders-in-double-quotes-as-written', 'P')
def _(self, result):
    return result == '"' + self.attr['name'] + '"'


def lemma_token_expr(self):
    self.set_expr()
    return self.attr['expr']


c_tok_expr = Contract(lambda: lemma_token_expr, dict(self=_tokT('formulas.tokens.operand:Number', name=StrT())), 'C01',
                      name='Token.set_expr[Number]', use=[], frame=('self',))
CONTRACTS.append(c_tok_expr)


@c_tok_expr.ensures('literal-renders-as-its-name', 'P')
def _(self, result):
    return result == self.attr['name']


def _builder_table():
    """Ground facts (kind S: they support the structural induction, a failure is reported as PROOF-BROKEN): the real
    AstBuilder.append hands set_expr exactly the operands popped for the node, in source order, for operators and functions."""
    from formulas.builder import AstBuilder
    from formulas.tokens.operand import Number
    from formulas.tokens.operator import OperatorToken
    from formulas.tokens.function import Function
    out = []
    for label, make, n, want in (('binary-operator', lambda: OperatorToken('-'), 2, '(1 - 2)'),
                                 ('percent', lambda: OperatorToken('%'), 1, '2%'),
                                 ('function', lambda: Function('max('), 3, 'MAX(0, 1, 2)')):
        calls = []
        tok = make()
        if label == 'function':
            tok.attr['n_args'] = 3
        base = type(tok)
        cls = type('Spy', (base,), {'set_expr': lambda self, *ts, _c=calls, _b=base: (_c.append(ts), _b.set_expr(self, *ts))[1]})
        tok.__class__ = cls
        b = AstBuilder()
        ops = [Number(str(i)) for i in range(3)][3 - n:]
        try:
            for o in ops:
                b.append(o)
            b.append(tok)
            ok = len(calls) == 1 and list(calls[0]) == ops and tok.get_expr == want
            detail = 'set_expr called with %r (operands %r), expr %r, expected %r' % (calls, ops, tok.attr.get('expr'), want)
        except Exception as ex:
            ok, detail = False, 'AstBuilder.append raised %s: %s' % (type(ex).__name__, ex)
        out.append(dict(name='T:builder/set_expr-receives-the-popped-operands-in-order/%s' % label, kind='S', ok=ok, detail=detail, witness=None))
    return out


TABLES.append(_Table('T:builder-hands-operands-to-set_expr', 'C01', _builder_table))
PROPERTIES['C01']['explanation'] = (
    'Proved: the exported text of every node kind is the fully parenthesised rendering of its operands\' texts (set_expr of all 18 '
    'operators, of function calls with 0..3 arguments, of text and numeric literals, on the real bodies for arbitrary operand texts); '
    'with the ground fact that AstBuilder.append hands set_expr the popped operands in order, the exported text of a tree is its rendering '
    'by structural induction.  ' + PROPERTIES['C01']['explanation'])


# ------------------------------------------------------------------------------------ unary / binary sign disambiguation
def _utok(cls, **attr):
    from pyvc.contract import TypeGen
    return ObjT(cls, {'attr': RecordT({k: (v if isinstance(v, TypeGen) else ConstT(v)) for k, v in attr.items()}), 'source': ConstT('')})


_PREV = OneOf(_utok('formulas.tokens.operand:Number', name='1'), _utok('formulas.tokens.operand:String', name='a'),
              _utok('formulas.tokens.operator:OperatorToken', name='*'), _utok('formulas.tokens.operator:OperatorToken', name='%'),
              _utok('formulas.tokens.operator:Separator', name=','),
              _utok('formulas.tokens.parenthesis:Parenthesis', name='(', start='('),
              _utok('formulas.tokens.parenthesis:Parenthesis', name=')', end=')'),
              _utok('formulas.tokens.function:Function', name='SUM'))


def lemma_update_name(self, prev):
    tokens = [prev, self]
    self.update_name(tokens, [])
    return self.attr['name']


def lemma_update_name_first(self):
    tokens = [self]
    self.update_name(tokens, [])
    return self.attr['name']


def _update_name_contracts(sg):
    c = Contract(lambda: lemma_update_name, dict(self=_utok('formulas.tokens.operator:OperatorToken', name=sg), prev=_PREV), 'C01',
                 name='Operator.update_name[%s]' % sg, use=[], frame=('self',))
    CONTRACTS.append(c)

    @c.ensures('a-sign-is-binary-after-an-operand-a-closing-parenthesis-or-a-percent-else-unary', 'P')
    def _(self, prev, result):
        from formulas.tokens.operand import Operand
        binary = isinstance(prev, Operand) or prev.attr['name'] in (')', '%')
        return result == (sg if binary else 'u' + sg)

    @c.canary('canary:always-binary')
    def _(self, prev, result):
        return result == sg
    c0 = Contract(lambda: lemma_update_name_first, dict(self=_utok('formulas.tokens.operator:OperatorToken', name=sg)), 'C01',
                  name='Operator.update_name[%s at the start]' % sg, use=[], frame=('self',))
    CONTRACTS.append(c0)

    @c0.ensures('a-leading-sign-is-unary', 'P')
    def _(self, result):
        return result == 'u' + sg


for _sg in '+-':
    _update_name_contracts(_sg)


# ------------------------------------------------------------------------------------ the shunting-yard step of an operator
# Operator.ast on stacks of depth <= 2 (one representative operator per precedence class on the stack, every binary and postfix
# operator incoming): exactly the operators on top whose Excel rank is not lower than the incoming one's are moved to the
# output, in stack order (left association), then the incoming operator is pushed.  Ranks come from the spec table SPEC_RANK,
# not from the code.
_CLASS_REPS = [':', 'u-', '%', '^', '*', '+', '&', '=']
_INCOMING = ['+', '-', '*', '/', '^', '&', '=', '<>', '<', '>', '<=', '>=', '%', ':', ',', ' ']


def _optok(name):
    return _utok('formulas.tokens.operator:OperatorToken', name=name)


_StackOp = OneOf(*[_optok(n) for n in _CLASS_REPS])
_OpenPar = _utok('formulas.tokens.parenthesis:Parenthesis', name='(', start='(')


def lemma_operator_step(self, stack, builder):
    tokens = [_PREV_OPERAND]
    self.ast(tokens, stack, builder)
    return stack, builder


class _Dummy:
    pass


def _mk_prev_operand():
    from formulas.tokens.operand import Number
    return Number('1')


_PREV_OPERAND = _mk_prev_operand()


def _step_contract(name):
    from pyvc.contract import ListT
    c = Contract(lambda: lemma_operator_step,
                 dict(self=_optok(name), stack=OneOf(ConstT([]), ListT(_StackOp), ListT(_StackOp, _StackOp), ListT(_OpenPar, _StackOp)),
                      builder=ConstT([])),
                 'C01', name='Operator.ast[%s incoming]' % {' ': 'space'}.get(name, name), use=[], frame=('self', 'stack', 'builder'))
    CONTRACTS.append(c)

    @c.ensures('operators-of-not-lower-rank-leave-the-stack-in-order-then-the-incoming-one-is-pushed', 'P')
    def _(self, stack, builder, result, old):
        from formulas.tokens.operator import Operator
        rank = SPEC_RANK[name]
        before = old['stack']
        k = len(before)
        while k > 0 and isinstance(before[k - 1], Operator) and SPEC_RANK[before[k - 1].attr['name']] >= rank:
            k -= 1
        popped = [before[i] for i in range(len(before) - 1, k - 1, -1)]
        # `old` is a snapshot (copies): tokens are compared by kind and name
        same = lambda a, b: type(a) is type(b) and a.attr['name'] == b.attr['name']
        return (len(stack) == k + 1 and stack[-1] is self and all(same(stack[i], before[i]) for i in range(k))
                and len(builder) == len(popped) and all(same(builder[i], popped[i]) for i in range(len(popped))))

    @c.canary('canary:nothing-ever-popped')
    def _(self, stack, builder, result, old):
        return len(builder) == 0
    return c


for _inc in _INCOMING:
    _step_contract(_inc)


PROPERTIES['C01']['explanation'] = (
    'Proved on the real handlers: (1) the shunting-yard step Operator.ast for every binary / postfix / reference operator incoming on stacks of '
    'depth <= 2 (one representative per precedence class, also above an opening parenthesis): exactly the operators of not lower Excel rank leave '
    'the stack, in order (left association), then the incoming one is pushed - ranks taken from the spec table; (2) unary / binary sign '
    'disambiguation (Operator.update_name) after every kind of previous token; ' + PROPERTIES['C01']['explanation'][0].lower() + PROPERTIES['C01']['explanation'][1:])
PROPERTIES['C01']['not_proved'] = ['stacks deeper than 2 (the step only inspects the top of the stack repeatedly; no induction over the depth is stated), '
                                   'the closing-parenthesis / Function / Array handlers, sign-run folding: bounded stage only (Separator.ast - flushing and empty arguments - is proved on stacks of depth <= 2)']


# ------------------------------------------------------------------------------------ argument separators and empty arguments
def _n_args_of(t):
    return t.n_args


class _OpenParT(ObjT):
    def __init__(self):
        super().__init__('formulas.tokens.parenthesis:Parenthesis',
                         {'attr': RecordT({'name': ConstT('('), 'start': ConstT('('), 'check_n': ConstT(_n_args_of)}), 'source': ConstT(''),
                          'n_args': OneOf(ConstT(0), ConstT(1), ConstT(2))})


def lemma_separator(self, prev, stack, builder):
    tokens = [prev]
    self.ast(tokens, stack, builder)
    return tokens, stack, builder


def _sep_contract():
    from pyvc.contract import ListT
    from formulas.errors import ParenthesesError
    c = Contract(lambda: lemma_separator,
                 dict(self=_utok('formulas.tokens.operator:Separator', name=','), prev=_PREV,
                      stack=OneOf(ConstT([]), ListT(_OpenParT()), ListT(_OpenParT(), _StackOp), ListT(_StackOp)), builder=ConstT([])),
                 'C01', name='Separator.ast', use=[], frame=('self', 'stack', 'builder'))
    CONTRACTS.append(c)

    def is_open(t):
        from formulas.tokens.parenthesis import Parenthesis
        return isinstance(t, Parenthesis) and 'start' in t.attr

    def wants_empty(prev):
        from formulas.tokens.operator import Separator
        return isinstance(prev, Separator) or prev.attr['name'] == '('

    @c.requires
    def _(self, prev, stack, builder):
        # parser states only: directly after '(' or ',' nothing can lie above the opening parenthesis
        return (not wants_empty(prev)) or len(stack) <= 1

    @c.ensures('operators-above-the-opening-parenthesis-are-flushed-and-an-empty-argument-keeps-its-position', 'P')
    def _(self, prev, stack, builder, result, old):
        from formulas.tokens.operand import Empty
        before = old['stack']
        if not before or not is_open(before[0]):
            return False                                  # without an opening parenthesis the separator must be rejected (raises clause)
        flushed = [t.attr['name'] for t in reversed(before[1:])]
        empties = 1 if wants_empty(prev) else 0
        names = [t.attr['name'] for t in builder]
        return (len(stack) == 1 and is_open(stack[0]) and stack[0].n_args == before[0].n_args + empties
                and len(builder) == empties + len(flushed) and names[empties:] == flushed
                and (empties == 0 or isinstance(builder[0], Empty)) and len(result[0]) == 2 + empties and result[0][-1] is self)

    @c.raises(ParenthesesError, 'a-separator-outside-parentheses-is-rejected', 'P')
    def _(self, prev, stack, builder, exc, old):
        return not any(is_open(t) for t in old['stack'])

    @c.canary('canary:never-an-empty-argument')
    def _(self, prev, stack, builder, result, old):
        return len(builder) == len(old['stack']) - 1
    return c


_sep_contract()


# ------------------------------------------------------------------------------------ the shunting-yard step for stacks of ANY depth
# The pop loop of Operator.ast under a loop specification (pyvc/loops.py): the stack is a sequence of symbolic length over the
# universe of tokens the handlers push (the 18 operators, an opening parenthesis, a function token); inductive invariant
#   stack = entry_stack[:k]; builder = entry_builder + reversed(entry_stack[k:]); every entry_stack[i], i >= k, is an operator of
#   not lower Excel rank than the incoming one
# with variant len(stack).  Entry, preservation and variant are discharged (kind S); the postcondition (kind P) is the step law for
# every depth: exactly the maximal run of operators of not lower rank on top leaves the stack, in stack order, and the incoming
# operator is pushed.  Ranks in the specification come from SPEC_RANK, never from the code.
def _stack_universe():
    from pyvc.loops import Universe
    cls = lambda n: {',': 'formulas.tokens.operator:Separator', ' ': 'formulas.tokens.operator:Intersect'}.get(
        n, 'formulas.tokens.operator:OperatorToken')
    names = sorted(SPEC_RANK)
    t = [(cls(n), {'attr': {'name': n}, 'source': ''}) for n in names]
    t.append(('formulas.tokens.parenthesis:Parenthesis', {'attr': {'name': '(', 'start': '('}, 'source': ''}))
    t.append(('formulas.tokens.function:Function', {'attr': {'name': 'SUM'}, 'source': ''}))
    return Universe('tok', t), names


_U, _UNAMES = _stack_universe()


def _tok_rank(t):
    from formulas.tokens.operator import Operator
    return SPEC_RANK[t.attr['name']] if isinstance(t, Operator) else -1


_rank_of = _U.table(_tok_rank, 'rank_of')
_ident, _ident_at, _indices = _U.ident, _U.ident_at, _U.indices


def lemma_operator_step_any(self, stack, builder):
    tokens = [_PREV_OPERAND]
    self.ast(tokens, stack, builder)
    return None


def _step_any_contract(name):
    from pyvc.loops import ElemT, ObjSeqT, LoopSpec
    from pyvc.spec import forall_int, implies
    rank = SPEC_RANK[name]
    label = 'Operator.ast[%s incoming; any stack]' % {' ': 'space'}.get(name, name)
    c = Contract(lambda: lemma_operator_step_any,
                 dict(self=ElemT(_U, _UNAMES.index(name)), stack=ObjSeqT(_U), builder=ObjSeqT(_U)),
                 'C01', name=label, use=[], frame=('self', 'stack', 'builder'))
    CONTRACTS.append(c)

    def inv(stack, builder, entry):
        n = len(entry['stack'])
        b0 = len(entry['builder'])
        k = len(stack)
        return (0 <= k and k <= n and len(builder) == b0 + (n - k)
                and forall_int(lambda i: implies(0 <= i and i < k, _ident_at(stack, i) == _ident_at(entry['stack'], i)),
                               _indices(entry['stack']))
                and forall_int(lambda i: implies(0 <= i and i < b0, _ident_at(builder, i) == _ident_at(entry['builder'], i)),
                               _indices(entry['builder']))
                and forall_int(lambda j: implies(0 <= j and j < n - k,
                                                 _ident_at(builder, b0 + j) == _ident_at(entry['stack'], n - 1 - j)),
                               _indices(entry['stack']))
                and forall_int(lambda i: implies(k <= i and i < n, _rank_of(_ident_at(entry['stack'], i)) >= rank),
                               _indices(entry['stack'])))

    c.loop_specs[('while', 'Operator.ast', 0)] = LoopSpec(
        'loop[Operator.ast pop loop]', inv, {'stack': 'len', 'builder': 'seq'}, variant=lambda stack: len(stack))

    @c.ensures('for-every-depth-the-maximal-run-of-operators-of-not-lower-rank-leaves-the-stack-in-order-then-the-incoming-one-is-pushed', 'P')
    def _(self, stack, builder, result, old):
        n = len(old['stack'])
        b0 = len(old['builder'])
        m = len(stack) - 1
        return (0 <= m and m <= n and _ident_at(stack, m) == _ident(self)
                and forall_int(lambda i: implies(0 <= i and i < m, _ident_at(stack, i) == _ident_at(old['stack'], i)),
                               _indices(old['stack']))
                and len(builder) == b0 + (n - m)
                and forall_int(lambda i: implies(0 <= i and i < b0, _ident_at(builder, i) == _ident_at(old['builder'], i)),
                               _indices(old['builder']))
                and forall_int(lambda j: implies(0 <= j and j < n - m,
                                                 _ident_at(builder, b0 + j) == _ident_at(old['stack'], n - 1 - j)),
                               _indices(old['stack']))
                and forall_int(lambda i: implies(m <= i and i < n, _rank_of(_ident_at(old['stack'], i)) >= rank),
                               _indices(old['stack']))
                and (m == 0 or _rank_of(_ident_at(old['stack'], m - 1)) < rank))

    @c.canary('canary:the-stack-is-never-popped')
    def _(self, stack, builder, result, old):
        return len(stack) == len(old['stack']) + 1
    return c


for _inc in _INCOMING:
    if _inc != ',':          # a separator has its own handler (Separator.ast, below)
        _step_any_contract(_inc)


def _stack_candidates(self_kind, depth=3, extra=None):
    """Concrete inputs for the replay of a refuted any-stack obligation: every stack of at most `depth` tokens over one
    representative per precedence class, '(' and a function token."""
    import copy
    reps = [_UNAMES.index(n) for n in _CLASS_REPS] + [len(_UNAMES), len(_UNAMES) + 1]
    nat = _U.natives()

    def gen():
        for d in range(depth + 1):
            for combo in itertools.product(reps, repeat=d):
                args = dict(self=copy.deepcopy(nat[self_kind]), stack=[copy.deepcopy(nat[k]) for k in combo], builder=[])
                if extra:
                    args.update(copy.deepcopy(extra))
                yield args
    return gen


for _c in CONTRACTS:
    if _c.name.startswith('Operator.ast[') and _c.name.endswith('; any stack]'):
        _c.replay_candidates = _stack_candidates(_c.params['self'].kind)


# ------------------------------------------------------------------------------------ Separator.ast for stacks of ANY depth
# The flush loop of Separator.ast under a loop specification: everything above the nearest opening token (a token with a `start`
# attribute: '(' - function and array tokens push one) is moved to the output in stack order; without one the separator is rejected.
_has_start = _U.table(lambda t: 'start' in t.attr, 'has_start')


def lemma_separator_any(self, stack, builder):
    tokens = [_PREV_OPERAND]
    self.ast(tokens, stack, builder)
    return None


def _separator_any_contract():
    from pyvc.loops import ElemT, ObjSeqT, LoopSpec
    from pyvc.spec import forall_int, implies
    from formulas.errors import ParenthesesError
    c = Contract(lambda: lemma_separator_any,
                 dict(self=ElemT(_U, _UNAMES.index(',')), stack=ObjSeqT(_U), builder=ObjSeqT(_U)),
                 'C01', name='Separator.ast[after an operand; any stack]', use=[], frame=('self', 'stack', 'builder'))
    CONTRACTS.append(c)

    def inv(stack, builder, entry):
        n = len(entry['stack'])
        b0 = len(entry['builder'])
        k = len(stack)
        return (0 <= k and k <= n and len(builder) == b0 + (n - k)
                and forall_int(lambda i: implies(0 <= i and i < k, _ident_at(stack, i) == _ident_at(entry['stack'], i)),
                               _indices(entry['stack']))
                and forall_int(lambda i: implies(0 <= i and i < b0, _ident_at(builder, i) == _ident_at(entry['builder'], i)),
                               _indices(entry['builder']))
                and forall_int(lambda j: implies(0 <= j and j < n - k,
                                                 _ident_at(builder, b0 + j) == _ident_at(entry['stack'], n - 1 - j)),
                               _indices(entry['stack']))
                and forall_int(lambda i: implies(k <= i and i < n, not _has_start(_ident_at(entry['stack'], i))),
                               _indices(entry['stack'])))

    c.loop_specs[('while', 'Separator.ast', 0)] = LoopSpec(
        'loop[Separator.ast flush loop]', inv, {'stack': 'len', 'builder': 'seq'}, variant=lambda stack: len(stack))

    @c.ensures('for-every-depth-exactly-the-tokens-above-the-nearest-opening-token-are-flushed-in-stack-order', 'P')
    def _(self, stack, builder, result, old):
        n = len(old['stack'])
        b0 = len(old['builder'])
        m = len(stack)
        return (1 <= m and m <= n and _has_start(_ident_at(old['stack'], m - 1))
                and forall_int(lambda i: implies(0 <= i and i < m, _ident_at(stack, i) == _ident_at(old['stack'], i)),
                               _indices(old['stack']))
                and len(builder) == b0 + (n - m)
                and forall_int(lambda i: implies(0 <= i and i < b0, _ident_at(builder, i) == _ident_at(old['builder'], i)),
                               _indices(old['builder']))
                and forall_int(lambda j: implies(0 <= j and j < n - m,
                                                 _ident_at(builder, b0 + j) == _ident_at(old['stack'], n - 1 - j)),
                               _indices(old['stack']))
                and forall_int(lambda i: implies(m <= i and i < n, not _has_start(_ident_at(old['stack'], i))),
                               _indices(old['stack'])))

    @c.raises(ParenthesesError, 'a-separator-is-rejected-only-when-no-opening-token-is-on-the-stack', 'P')
    def _(self, stack, builder, exc, old):
        n = len(old['stack'])
        return forall_int(lambda i: implies(0 <= i and i < n, not _has_start(_ident_at(old['stack'], i))), _indices(old['stack']))

    @c.canary('canary:nothing-is-ever-flushed')
    def _(self, stack, builder, result, old):
        return len(builder) == len(old['builder'])
    c.replay_candidates = _stack_candidates(_UNAMES.index(','))
    return c


_separator_any_contract()


PROPERTIES['C01']['explanation'] = (
    'Proved for EVERY stack depth (loop specifications, pyvc/loops.py: inductive invariant + variant of the real while loops, stack and output as '
    'sequences of symbolic length over the tokens the handlers push): the pop loop of Operator.ast for the 15 binary / postfix / reference operators '
    'moves exactly the maximal run of operators of not lower Excel rank from the top of the stack to the output, in stack order, then pushes the '
    'incoming operator; the flush loop of Separator.ast moves exactly the tokens above the nearest opening token and rejects a separator without one. '
    + PROPERTIES['C01']['explanation'])
PROPERTIES['C01']['not_proved'] = [
    'the closing branch of Parenthesis.ast (it mutates stack elements; proved on stacks of depth <= 2 only), Function / Array handlers, the final '
    'unwinding loop of Parser.ast, sign-run folding, and the composition of the handler steps into "tree of the formula = tree of the grammar": bounded stage only']
PROPERTIES['C01'].setdefault('assumptions', [])
PROPERTIES['C01']['assumptions'] = list(PROPERTIES['C01']['assumptions']) + [
    'type invariant of the parser stack assumed by the any-depth contracts: every element is one of the 18 operator tokens, an opening parenthesis or a '
    'function token (the only classes whose ast() pushes onto the stack), and the loops do not mutate stack elements (a mutation leaves the supported subset)',
    'any-depth contracts: the incoming token follows an operand (binary reading of + and -); paths through a loop invariant have no concolic cross-check, '
    '1111 concrete stacks of depth <= 3 per contract are run on the real code against the same clauses instead']
