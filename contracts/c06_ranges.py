"""C06 — reference operators as cell sets: contracts on formulas/ranges.py (DESIGN §4 C06, A.1)."""
from pyvc.contract import Contract, RecordT, IntT, DecT, StrT, OneOf, ConstT, TupleT
from pyvc.spec import forall_cells, implies, iff, same_object, is_canonical_decimal

MAXCOL, MAXROW = 16384, 1048576

Rect = RecordT({'sheet_id': StrT(), 'n1': IntT(), 'n2': IntT(), 'r1': DecT(None), 'r2': DecT(None)})
RectNamed = RecordT({'sheet_id': StrT(), 'n1': IntT(), 'n2': IntT(), 'r1': DecT(None), 'r2': DecT(None),
                     'name': StrT()})


def wf_rect(x):
    # a proper, non-empty rectangle of the grid; 0 stands for "from the first column / row"
    return (0 <= x['n1'] <= x['n2'] <= MAXCOL and x['n2'] >= 1
            and 0 <= int(x['r1']) <= int(x['r2']) <= MAXROW and int(x['r2']) >= 1)


def whole_form_only(x):
    # 0 is used only for the whole-column / whole-row spelling (A:A, 1:1), not for A:A5
    return (x['n1'] != 0 or x['n2'] == MAXCOL) and (int(x['r1']) != 0 or int(x['r2']) == MAXROW)


def in_rect(x, c, r):
    return (max(x['n1'], 1) <= c <= x['n2']) and (max(int(x['r1']), 1) <= r <= int(x['r2']))


def same_sheet(x, y):
    return x['sheet_id'] == y['sheet_id']


CONTRACTS = []

# ------------------------------------------------------------------------------------ _intersect
c_intersect = Contract('formulas.ranges:_intersect', dict(x=Rect, y=Rect), 'C06',
                       returns=OneOf(ConstT({}), Rect), name='_intersect')
CONTRACTS.append(c_intersect)


@c_intersect.requires
def _(x, y):
    return wf_rect(x) and wf_rect(y)


@c_intersect.ensures('cells-are-common-cells', 'P')
def _(x, y, result):
    return forall_cells(
        lambda c, r: (bool(result) and in_rect(result, c, r)) == (same_sheet(x, y) and in_rect(x, c, r) and in_rect(y, c, r)),
        [x, y, result])


@c_intersect.ensures('empty-iff-no-common-cell', 'P')
def _(x, y, result):
    return bool(result) == (same_sheet(x, y)
                            and max(x['n1'], y['n1'], 1) <= min(x['n2'], y['n2'])
                            and max(int(x['r1']), int(y['r1']), 1) <= min(int(x['r2']), int(y['r2'])))


@c_intersect.ensures('result-well-formed', 'S')
def _(x, y, result):
    return (not result) or (result['sheet_id'] == x['sheet_id']
                            and result['n1'] <= result['n2'] and int(result['r1']) <= int(result['r2'])
                            and set(result) == {'sheet_id', 'n1', 'n2', 'r1', 'r2'})


@c_intersect.ensures('result-coordinates', 'S')
def _(x, y, result):
    # representation chosen by the code (0 = "from the first row/column" is kept); callers rely on it
    return (not result) or (result['n1'] == max(x['n1'], y['n1']) and result['n2'] == min(x['n2'], y['n2'])
                            and int(result['r1']) == max(int(x['r1']), int(y['r1']))
                            and int(result['r2']) == min(int(x['r2']), int(y['r2'])))


@c_intersect.canary('canary:min-for-max')
def _(x, y, result):
    return (not result) or result['n1'] == min(x['n1'], y['n1'])

# ------------------------------------------------------------------------------------ range2parts (FR)
# Contract under which ranges.py calls the formatter (kwargs exactly sheet_id,n1,n2,r1,r2).  Proved
# against the real range2parts/fast_range2parts_v4 body in contracts/c04_refs.py.
FRInputs = RecordT({'sheet_id': StrT(), 'n1': IntT(), 'n2': IntT(), 'r1': DecT(None), 'r2': DecT(None)})
FRResult = RecordT({'sheet_id': StrT(), 'n1': IntT(), 'n2': IntT(), 'r1': DecT(None), 'r2': DecT(None),
                    'name': StrT(), 'ref': StrT(), 'c1': StrT(), 'c2': StrT()})
c_fr = Contract('formulas.tokens.operand:range2parts', dict(outputs=ConstT(('name', 'n1', 'n2')), inputs=FRInputs),
                'C06', returns=FRResult, name='range2parts[FR]')
c_fr.proved_in = 'C04'   # verified against the real body by contracts/c04_refs.py, used here by contract
CONTRACTS.append(c_fr)


@c_fr.requires
def _(outputs, inputs):
    return 0 <= inputs['n1'] <= inputs['n2'] <= MAXCOL and 0 <= int(inputs['r1']) and 0 <= int(inputs['r2']) <= MAXROW


@c_fr.ensures('coordinates-preserved', 'S')
def _(outputs, inputs, result):
    return (result['sheet_id'] == inputs['sheet_id'] and result['n1'] == inputs['n1']
            and result['n2'] == inputs['n2'] and result['r1'] == inputs['r1'] and result['r2'] == inputs['r2'])


# ------------------------------------------------------------------------------------ _split
c_split = Contract('formulas.ranges:_split',
                   dict(base=Rect, rng=Rect, intersect=OneOf(ConstT(None), ConstT({}))), 'C06',
                   frame=('intersect',), name='_split', use=['_intersect', 'range2parts[FR]'])
c_split_inl = Contract('formulas.ranges:_split',
                       dict(base=Rect, rng=Rect, intersect=OneOf(ConstT(None), ConstT({}))), 'C06',
                       frame=('intersect',), name='_split[direct]', use=['range2parts[FR]'])
for _c in (c_split, c_split_inl):
    CONTRACTS.append(_c)

    @_c.requires
    def _(base, rng, intersect):
        return wf_rect(base) and wf_rect(rng)

    @_c.ensures('pieces-cover-rng-minus-base', 'P')
    def _(base, rng, result):
        return forall_cells(
            lambda c, r: any(in_rect(p, c, r) for p in result) == (
                in_rect(rng, c, r) and not (same_sheet(base, rng) and in_rect(base, c, r))),
            [base, rng] + list(result))

    @_c.ensures('pieces-pairwise-disjoint', 'P')
    def _(base, rng, result):
        return forall_cells(
            lambda c, r: all(not (in_rect(p, c, r) and in_rect(q, c, r))
                             for i, p in enumerate(result) for q in result[i + 1:]),
            [base, rng] + list(result))

    @_c.ensures('intersect-updated-to-common-cells', 'P')
    def _(base, rng, intersect, result):
        return intersect is None or forall_cells(
            lambda c, r: (bool(intersect) and in_rect(intersect, c, r)) == (
                same_sheet(base, rng) and in_rect(base, c, r) and in_rect(rng, c, r)),
            [base, rng, intersect])

    @_c.ensures('pieces-on-rng-sheet-at-most-4', 'S')
    def _(base, rng, result):
        return len(result) <= 4 and all(p['sheet_id'] == rng['sheet_id'] for p in result)

    @_c.ensures('pieces-are-well-formed-areas', 'P')
    def _(base, rng, result):
        # every returned area is a proper rectangle in canonical form, so that its name reads
        # back as the same cells (otherwise e.g. an empty piece is *named* like a whole row)
        return all(wf_rect(p) for p in result)

    @_c.known_region('KF-C06-1', 'pieces-are-well-formed-areas')
    def _(base, rng):
        return same_sheet(base, rng) and ((rng['n1'] == 0 and base['n1'] == 1) or (int(rng['r1']) == 0 and int(base['r1']) == 1))

    @_c.canary('canary:pieces-cover-rng')
    def _(base, rng, result):
        return forall_cells(lambda c, r: any(in_rect(p, c, r) for p in result) == in_rect(rng, c, r),
                            [base, rng] + list(result))


# ------------------------------------------------------------------------------------ _merge_*_update
def key_le(a, b):
    return (a['n1'], int(a['r1']), -a['n2'], -int(a['r2'])) <= (b['n1'], int(b['r1']), -b['n2'], -int(b['r2']))


c_mraw = Contract('formulas.ranges:_merge_raw_update', dict(base=Rect, rng=Rect), 'C06',
                  frame=('base',), name='_merge_raw_update', returns=OneOf(ConstT(True), ConstT(None)))
CONTRACTS.append(c_mraw)


@c_mraw.requires
def _(base, rng):
    # call site (_merge after the per-column split of simplify): single-column areas in key order
    return (wf_rect(base) and wf_rect(rng) and base['n1'] == base['n2'] and rng['n1'] == rng['n2']
            and key_le(base, rng))


@c_mraw.ensures('merged-is-union', 'P')
def _(base, rng, result, old):
    return (not result) or forall_cells(
        lambda c, r: in_rect(base, c, r) == (in_rect(old['base'], c, r) or in_rect(rng, c, r)),
        [base, rng, old['base']])


@c_mraw.ensures('not-merged-unchanged', 'P')
def _(base, rng, result, old):
    return bool(result) or base == old['base']


@c_mraw.ensures('only-r2-changes', 'S')
def _(base, rng, result, old):
    return all(base[k] == old['base'][k] for k in ('sheet_id', 'n1', 'n2', 'r1')) and set(base) == set(old['base'])


@c_mraw.canary('canary:never-merges')
def _(base, rng, result):
    return not result


c_mcol = Contract('formulas.ranges:_merge_col_update', dict(base=Rect, rng=Rect), 'C06',
                  frame=('base',), name='_merge_col_update', returns=OneOf(ConstT(True), ConstT(None)))
CONTRACTS.append(c_mcol)


@c_mcol.requires
def _(base, rng):
    return wf_rect(base) and wf_rect(rng)


@c_mcol.ensures('merged-is-union', 'P')
def _(base, rng, result, old):
    return (not result) or forall_cells(
        lambda c, r: in_rect(base, c, r) == (in_rect(old['base'], c, r) or in_rect(rng, c, r)),
        [base, rng, old['base']])


@c_mcol.ensures('not-merged-unchanged', 'P')
def _(base, rng, result, old):
    return bool(result) or base == old['base']


@c_mcol.ensures('only-n2-changes', 'S')
def _(base, rng, result, old):
    return all(base[k] == old['base'][k] for k in ('sheet_id', 'n1', 'r1', 'r2')) and set(base) == set(old['base'])


@c_mcol.canary('canary:never-merges')
def _(base, rng, result):
    return not result


# ------------------------------------------------------------------------------------ _get_indices_intersection
c_gii = Contract('formulas.ranges:_get_indices_intersection', dict(base=Rect, i=Rect), 'C06',
                 name='_get_indices_intersection')
CONTRACTS.append(c_gii)


@c_gii.requires
def _(base, i):
    return wf_rect(base) and wf_rect(i)


@c_gii.ensures('slices-address-cells-relative-to-base-origin', 'P')
def _(base, i, result):
    # cell (c, r) of i sits at [r - R1(base), c - N1(base)] of base's value array
    return (result[0].start == max(int(i['r1']), 1) - max(int(base['r1']), 1)
            and result[0].stop == int(i['r2']) - max(int(base['r1']), 1) + 1
            and result[1].start == max(i['n1'], 1) - max(base['n1'], 1)
            and result[1].stop == i['n2'] - max(base['n1'], 1) + 1
            and result[0].step is None and result[1].step is None)


@c_gii.canary('canary:zero-origin')
def _(base, i, result):
    return result[0].start == int(i['r1']) - int(base['r1'])


# ------------------------------------------------------------------------------------ _shape
c_shape = Contract('formulas.ranges:_shape', dict(n1=IntT(), n2=IntT(), r1=DecT(None), r2=DecT(None), kw=ConstT({})),
                   'C06', name='_shape')
CONTRACTS.append(c_shape)


@c_shape.requires
def _(n1, n2, r1, r2):
    return wf_rect({'n1': n1, 'n2': n2, 'r1': r1, 'r2': r2}) and whole_form_only({'n1': n1, 'n2': n2, 'r1': r1, 'r2': r2})


@c_shape.ensures('shape-is-rows-by-columns', 'P')
def _(n1, n2, r1, r2, result):
    return result == (int(r2) - max(int(r1), 1) + 1, n2 - max(n1, 1) + 1)


@c_shape.canary('canary:no-whole-row-convention')
def _(n1, n2, r1, r2, result):
    return result == (int(r2) - int(r1) + 1, n2 - n1 + 1)


PROPERTIES = {
    'C06': dict(
        level='proof',
        explanation=(
            'Contracts on the real formulas/ranges.py functions, cell-set postconditions over symbolic '
            'coordinates of the whole 16384x1048576 grid, discharged per path by z3/cvc5. Bounded stages '
            '(values, formula-level operators) are reported under coverage.bounded and never counted as proved.'),
        assumptions=[
            'rows are canonical decimal text (kind DecStr): int(str(n)) == n, str injective',
            'range2parts[FR] (coordinates preserved, a name added) is proved in C04 and used here by contract',
        ],
        not_proved=[],
    ),
}


# ====================================================================================
# Ranges methods: operands with <= 2 areas each, coordinates fully symbolic
# (complete by unwinding for that area count; the bound is stated in the evidence).
import schedula as _sh
from pyvc.contract import ObjT


def _fr_returns(ctx, name, loc):
    """range2parts[FR] result: the keyword arguments themselves plus the computed text fields."""
    d = dict(loc['inputs'])
    for k in ('name', 'ref', 'c1', 'c2'):
        d[k] = StrT().make(ctx, '%s.%s' % (name, k))
    return d


c_fr.returns = _fr_returns


def areas(*ns):
    return OneOf(*[TupleT(*[RectNamed] * n) for n in ns])


def RangesT(*ns):
    return ObjT('formulas.ranges:Ranges', {'ranges': areas(*ns), 'values': ConstT({}), '_value': ConstT(_sh.NONE)})


def wf_all(rs):
    return all(wf_rect(x) for x in rs)


def covered(rs, c, r, sheet):
    return any(x['sheet_id'] == sheet and in_rect(x, c, r) for x in rs)


# ------------------------------------------------------------------------------------ __add__  (':' operator)
c_add = Contract('formulas.ranges:Ranges.__add__', dict(self=RangesT(1, 2), other=RangesT(1, 2)), 'C06',
                 name='Ranges.__add__', use=['range2parts[FR]'])
CONTRACTS.append(c_add)
c_add.bound = 'operands with 1..2 areas each'


@c_add.requires
def _(self, other):
    return wf_all(self.ranges) and wf_all(other.ranges)


def one_sheet(self, other):
    return all(x['sheet_id'] == self.ranges[0]['sheet_id'] for x in self.ranges + other.ranges)


@c_add.ensures('bounding-rectangle-covers-every-operand-area', 'P')
def _(self, other, result):
    b = result.ranges[0]
    return len(result.ranges) == 1 and one_sheet(self, other) and forall_cells(
        lambda c, r: implies(any(in_rect(x, c, r) for x in self.ranges + other.ranges), in_rect(b, c, r)),
        list(self.ranges + other.ranges) + [b])


@c_add.ensures('bounding-rectangle-is-least', 'P')
def _(self, other, result):
    b = result.ranges[0]
    ops = self.ranges + other.ranges
    return (any(x['n1'] == b['n1'] for x in ops) and any(x['n2'] == b['n2'] for x in ops)
            and any(int(x['r1']) == int(b['r1']) for x in ops) and any(int(x['r2']) == int(b['r2']) for x in ops)
            and b['sheet_id'] == self.ranges[0]['sheet_id'])


from formulas.errors import InvalidRangeError as _IRE


@c_add.raises(_IRE, 'different-sheets-is-an-error', 'P')
def _(self, other, exc):
    return not one_sheet(self, other)


@c_add.ensures('result-area-well-formed', 'P')
def _(self, other, result):
    b = result.ranges[0]
    return wf_rect(b) and is_canonical_decimal(b['r1']) and is_canonical_decimal(b['r2'])


@c_add.canary('canary:first-area-only')
def _(self, other, result):
    return result.ranges[0]['n2'] == max(self.ranges[0]['n2'], other.ranges[0]['n2'])


# ------------------------------------------------------------------------------------ __or__ (',' operator)
c_or = Contract('formulas.ranges:Ranges.__or__', dict(self=RangesT(0, 1, 2), other=RangesT(0, 1, 2)), 'C06',
                name='Ranges.__or__')
CONTRACTS.append(c_or)


@c_or.ensures('union-keeps-every-area-in-order', 'P')
def _(self, other, result):
    return result.ranges == self.ranges + other.ranges


@c_or.canary('canary:drops-right')
def _(self, other, result):
    return result.ranges == self.ranges


# ------------------------------------------------------------------------------------ intersect / __and__ (' ' operator)
c_and = Contract('formulas.ranges:Ranges.__and__', dict(self=RangesT(0, 1, 2), other=RangesT(0, 1, 2)), 'C06',
                 name='Ranges.__and__', use=['range2parts[FR]', '_intersect'])
c_and_d = Contract('formulas.ranges:Ranges.__and__', dict(self=RangesT(1, 2), other=RangesT(1)), 'C06',
                   name='Ranges.__and__[direct]', use=['range2parts[FR]'])
for _c in (c_and, c_and_d):
    CONTRACTS.append(_c)

    @_c.requires
    def _(self, other):
        return wf_all(self.ranges) and wf_all(other.ranges)

    @_c.ensures('areas-are-the-nonempty-pairwise-intersections-in-order', 'P')
    def _(self, other, result):
        # k-th result area = k-th non-empty (o, s) pair in other-major order; stated cell-wise per pair
        pairs = [(o, s) for o in other.ranges for s in self.ranges]
        ne = [same_sheet(o, s) and max(o['n1'], s['n1'], 1) <= min(o['n2'], s['n2'])
              and max(int(o['r1']), int(s['r1']), 1) <= min(int(o['r2']), int(s['r2'])) for o, s in pairs]
        idx = [sum(1 for b in ne[:i] if b) for i in range(len(pairs))]
        return (len(result.ranges) == sum(1 for b in ne if b) and forall_cells(
            lambda c, r: all((not ne[i]) or (
                in_rect(result.ranges[idx[i]], c, r) == (in_rect(pairs[i][0], c, r) and in_rect(pairs[i][1], c, r))
                and result.ranges[idx[i]]['sheet_id'] == pairs[i][0]['sheet_id'])
                for i in range(len(pairs))),
            list(self.ranges + other.ranges + result.ranges)))

    @_c.canary('canary:self-major-order')
    def _(self, other, result):
        return len(result.ranges) < 2 or forall_cells(
            lambda c, r: implies(in_rect(result.ranges[1], c, r), in_rect(self.ranges[0], c, r)),
            list(self.ranges + other.ranges + result.ranges))


# ------------------------------------------------------------------------------------ __sub__
def _split_returns(ctx, name, loc):
    k = ctx.choice(6)
    if k == 5:
        return (loc['rng'],)
    return tuple(RectNamed.make(ctx, '%s.%d' % (name, i)) for i in range(k))


c_split.returns = _split_returns


@c_split.ensures('same-object-when-disjoint', 'S')
def _(base, rng, result):
    return bool(same_sheet(base, rng) and max(base['n1'], rng['n1'], 1) <= min(base['n2'], rng['n2'])
                and max(int(base['r1']), int(rng['r1']), 1) <= min(int(base['r2']), int(rng['r2']))) \
        or (len(result) == 1 and same_object(result[0], rng))


c_sub = Contract('formulas.ranges:Ranges.__sub__', dict(self=RangesT(0, 1), other=RangesT(0, 1)), 'C06',
                 name='Ranges.__sub__', use=['_split'])
CONTRACTS.append(c_sub)
c_sub.bound = 'operands with 0..1 areas each (multi-area operands: bounded stage)'


@c_sub.requires
def _(self, other):
    return wf_all(self.ranges) and wf_all(other.ranges)


@c_sub.ensures('difference-covers-self-minus-other', 'P')
def _(self, other, result):
    return forall_cells(
        lambda c, r: any(in_rect(p, c, r) for p in result.ranges) == (
            any(in_rect(s, c, r) and not any(same_sheet(o, s) and in_rect(o, c, r) for o in other.ranges)
                for s in self.ranges)),
        list(self.ranges + other.ranges + result.ranges))


@c_sub.ensures('difference-areas-pairwise-disjoint', 'P')
def _(self, other, result):
    return forall_cells(
        lambda c, r: all(not (in_rect(p, c, r) and in_rect(q, c, r))
                         for i, p in enumerate(result.ranges) for q in result.ranges[i + 1:]),
        list(self.ranges + other.ranges + result.ranges))


@c_sub.ensures('difference-areas-well-formed', 'P')
def _(self, other, result):
    return all(wf_rect(p) for p in result.ranges)


@c_sub.known_region('KF-C06-1', 'difference-areas-well-formed')
def _(self, other):
    return any(same_sheet(o, s) and ((s['n1'] == 0 and o['n1'] == 1) or (int(s['r1']) == 0 and int(o['r1']) == 1))
               for s in self.ranges for o in other.ranges)


@c_sub.canary('canary:nothing-removed')
def _(self, other, result):
    return result.ranges == self.ranges
