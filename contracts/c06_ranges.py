"""C06 — reference operators as cell sets: contracts on formulas/ranges.py (DESIGN §4 C06, A.1)."""
from pyvc.contract import Contract, RecordT, IntT, DecT, StrT, OneOf, ConstT, TupleT
from pyvc.spec import forall_cells, implies, iff, same_object, is_canonical_decimal

MAXCOL, MAXROW = 16384, 1048576

Rect = RecordT({'sheet_id': StrT(), 'n1': IntT(), 'n2': IntT(), 'r1': DecT(None), 'r2': DecT(None)})
RectNamed = RecordT({'sheet_id': StrT(), 'n1': IntT(), 'n2': IntT(), 'r1': DecT(None), 'r2': DecT(None),
                     'name': StrT()})


def wf_rect(x):
    # a proper, non-empty rectangle of the grid; 0 stands for "from the first column / row"
    return (0 <= x['n1'] <= x['n2'] <= MAXCOL and x['n2'] >= 1
            and 0 <= int(x['r1']) <= int(x['r2']) <= MAXROW and int(x['r2']) >= 1)


def whole_form_only(x):
    # 0 is used only for the whole-column / whole-row spelling (A:A, 1:1), not for A:A5
    return (x['n1'] != 0 or x['n2'] == MAXCOL) and (int(x['r1']) != 0 or int(x['r2']) == MAXROW)


def in_rect(x, c, r):
    return (max(x['n1'], 1) <= c <= x['n2']) and (max(int(x['r1']), 1) <= r <= int(x['r2']))


def same_sheet(x, y):
    return x['sheet_id'] == y['sheet_id']


CONTRACTS = []

# ------------------------------------------------------------------------------------ _intersect
c_intersect = Contract('formulas.ranges:_intersect', dict(x=Rect, y=Rect), 'C06',
                       returns=OneOf(ConstT({}), Rect), name='_intersect')
CONTRACTS.append(c_intersect)


@c_intersect.requires
def _(x, y):
    return wf_rect(x) and wf_rect(y)


@c_intersect.ensures('cells-are-common-cells', 'P')
def _(x, y, result):
    return forall_cells(
        lambda c, r: (bool(result) and in_rect(result, c, r)) == (same_sheet(x, y) and in_rect(x, c, r) and in_rect(y, c, r)),
        [x, y, result])


@c_intersect.ensures('empty-iff-no-common-cell', 'P')
def _(x, y, result):
    return bool(result) == (same_sheet(x, y)
                            and max(x['n1'], y['n1'], 1) <= min(x['n2'], y['n2'])
                            and max(int(x['r1']), int(y['r1']), 1) <= min(int(x['r2']), int(y['r2'])))


@c_intersect.ensures('result-well-formed', 'S')
def _(x, y, result):
    return (not result) or (result['sheet_id'] == x['sheet_id']
                            and result['n1'] <= result['n2'] and int(result['r1']) <= int(result['r2'])
                            and set(result) == {'sheet_id', 'n1', 'n2', 'r1', 'r2'})


@c_intersect.ensures('result-coordinates', 'S')
def _(x, y, result):
    # representation chosen by the code (0 = "from the first row/column" is kept); callers rely on it
    return (not result) or (result['n1'] == max(x['n1'], y['n1']) and result['n2'] == min(x['n2'], y['n2'])
                            and int(result['r1']) == max(int(x['r1']), int(y['r1']))
                            and int(result['r2']) == min(int(x['r2']), int(y['r2'])))


@c_intersect.canary('canary:min-for-max')
def _(x, y, result):
    return (not result) or result['n1'] == min(x['n1'], y['n1'])

# ------------------------------------------------------------------------------------ range2parts (FR)
# Contract under which ranges.py calls the formatter (kwargs exactly sheet_id,n1,n2,r1,r2).  Proved
# against the real range2parts/fast_range2parts_v4 body in contracts/c04_refs.py.
FRInputs = RecordT({'sheet_id': StrT(), 'n1': IntT(), 'n2': IntT(), 'r1': DecT(None), 'r2': DecT(None)})
FRResult = RecordT({'sheet_id': StrT(), 'n1': IntT(), 'n2': IntT(), 'r1': DecT(None), 'r2': DecT(None),
                    'name': StrT(), 'ref': StrT(), 'c1': StrT(), 'c2': StrT()})
c_fr = Contract('formulas.tokens.operand:range2parts', dict(outputs=ConstT(('name', 'n1', 'n2')), inputs=FRInputs),
                'C06', returns=FRResult, name='range2parts[FR]')
c_fr.proved_in = 'C04'   # verified against the real body by contracts/c04_refs.py, used here by contract
CONTRACTS.append(c_fr)


@c_fr.requires
def _(outputs, inputs):
    return 0 <= inputs['n1'] <= inputs['n2'] <= MAXCOL and 0 <= int(inputs['r1']) and 0 <= int(inputs['r2']) <= MAXROW


@c_fr.ensures('coordinates-preserved', 'S')
def _(outputs, inputs, result):
    return (result['sheet_id'] == inputs['sheet_id'] and result['n1'] == inputs['n1']
            and result['n2'] == inputs['n2'] and result['r1'] == inputs['r1'] and result['r2'] == inputs['r2'])


# ------------------------------------------------------------------------------------ _split
c_split = Contract('formulas.ranges:_split',
                   dict(base=Rect, rng=Rect, intersect=OneOf(ConstT(None), ConstT({}))), 'C06',
                   frame=('intersect',), name='_split', use=['_intersect', 'range2parts[FR]'])
c_split_inl = Contract('formulas.ranges:_split',
                       dict(base=Rect, rng=Rect, intersect=OneOf(ConstT(None), ConstT({}))), 'C06',
                       frame=('intersect',), name='_split[direct]', use=['range2parts[FR]'])
for _c in (c_split, c_split_inl):
    CONTRACTS.append(_c)

    @_c.requires
    def _(base, rng, intersect):
        return wf_rect(base) and wf_rect(rng)

    @_c.ensures('pieces-cover-rng-minus-base', 'P')
    def _(base, rng, result):
        return forall_cells(
            lambda c, r: any(in_rect(p, c, r) for p in result) == (
                in_rect(rng, c, r) and not (same_sheet(base, rng) and in_rect(base, c, r))),
            [base, rng] + list(result))

    @_c.ensures('pieces-pairwise-disjoint', 'P')
    def _(base, rng, result):
        return forall_cells(
            lambda c, r: all(not (in_rect(p, c, r) and in_rect(q, c, r))
                             for i, p in enumerate(result) for q in result[i + 1:]),
            [base, rng] + list(result))

    @_c.ensures('intersect-updated-to-common-cells', 'P')
    def _(base, rng, intersect, result):
        return intersect is None or forall_cells(
            lambda c, r: (bool(intersect) and in_rect(intersect, c, r)) == (
                same_sheet(base, rng) and in_rect(base, c, r) and in_rect(rng, c, r)),
            [base, rng, intersect])

    @_c.ensures('pieces-on-rng-sheet-at-most-4', 'S')
    def _(base, rng, result):
        return len(result) <= 4 and all(p['sheet_id'] == rng['sheet_id'] for p in result)

    @_c.ensures('pieces-are-well-formed-areas', 'P')
    def _(base, rng, result):
        # every returned area is a proper rectangle in canonical form, so that its name reads
        # back as the same cells (otherwise e.g. an empty piece is *named* like a whole row)
        return all(wf_rect(p) for p in result)

    @_c.known_region('KF-C06-1', 'pieces-are-well-formed-areas')
    def _(base, rng):
        return same_sheet(base, rng) and ((rng['n1'] == 0 and base['n1'] == 1) or (int(rng['r1']) == 0 and int(base['r1']) == 1))

    @_c.canary('canary:pieces-cover-rng')
    def _(base, rng, result):
        return forall_cells(lambda c, r: any(in_rect(p, c, r) for p in result) == in_rect(rng, c, r),
                            [base, rng] + list(result))


# ------------------------------------------------------------------------------------ _merge_*_update
def key_le(a, b):
    return (a['n1'], int(a['r1']), -a['n2'], -int(a['r2'])) <= (b['n1'], int(b['r1']), -b['n2'], -int(b['r2']))


c_mraw = Contract('formulas.ranges:_merge_raw_update', dict(base=Rect, rng=Rect), 'C06',
                  frame=('base',), name='_merge_raw_update', returns=OneOf(ConstT(True), ConstT(None)))
CONTRACTS.append(c_mraw)


@c_mraw.requires
def _(base, rng):
    # call site (_merge after the per-column split of simplify): single-column areas in key order
    return (wf_rect(base) and wf_rect(rng) and base['n1'] == base['n2'] and rng['n1'] == rng['n2']
            and key_le(base, rng))


@c_mraw.ensures('merged-is-union', 'P')
def _(base, rng, result, old):
    return (not result) or forall_cells(
        lambda c, r: in_rect(base, c, r) == (in_rect(old['base'], c, r) or in_rect(rng, c, r)),
        [base, rng, old['base']])


@c_mraw.ensures('not-merged-unchanged', 'P')
def _(base, rng, result, old):
    return bool(result) or base == old['base']


@c_mraw.ensures('only-r2-changes', 'S')
def _(base, rng, result, old):
    return all(base[k] == old['base'][k] for k in ('sheet_id', 'n1', 'n2', 'r1')) and set(base) == set(old['base'])


@c_mraw.canary('canary:never-merges')
def _(base, rng, result):
    return not result


c_mcol = Contract('formulas.ranges:_merge_col_update', dict(base=Rect, rng=Rect), 'C06',
                  frame=('base',), name='_merge_col_update', returns=OneOf(ConstT(True), ConstT(None)))
CONTRACTS.append(c_mcol)


@c_mcol.requires
def _(base, rng):
    return wf_rect(base) and wf_rect(rng)


@c_mcol.ensures('merged-is-union', 'P')
def _(base, rng, result, old):
    return (not result) or forall_cells(
        lambda c, r: in_rect(base, c, r) == (in_rect(old['base'], c, r) or in_rect(rng, c, r)),
        [base, rng, old['base']])


@c_mcol.ensures('not-merged-unchanged', 'P')
def _(base, rng, result, old):
    return bool(result) or base == old['base']


@c_mcol.ensures('only-n2-changes', 'S')
def _(base, rng, result, old):
    return all(base[k] == old['base'][k] for k in ('sheet_id', 'n1', 'r1', 'r2')) and set(base) == set(old['base'])


@c_mcol.canary('canary:never-merges')
def _(base, rng, result):
    return not result


# ------------------------------------------------------------------------------------ _get_indices_intersection
c_gii = Contract('formulas.ranges:_get_indices_intersection', dict(base=Rect, i=Rect), 'C06',
                 name='_get_indices_intersection')
CONTRACTS.append(c_gii)


@c_gii.requires
def _(base, i):
    return wf_rect(base) and wf_rect(i)


@c_gii.ensures('slices-address-cells-relative-to-base-origin', 'P')
def _(base, i, result):
    # cell (c, r) of i sits at [r - R1(base), c - N1(base)] of base's value array
    return (result[0].start == max(int(i['r1']), 1) - max(int(base['r1']), 1)
            and result[0].stop == int(i['r2']) - max(int(base['r1']), 1) + 1
            and result[1].start == max(i['n1'], 1) - max(base['n1'], 1)
            and result[1].stop == i['n2'] - max(base['n1'], 1) + 1
            and result[0].step is None and result[1].step is None)


@c_gii.canary('canary:zero-origin')
def _(base, i, result):
    return result[0].start == int(i['r1']) - int(base['r1'])


# ------------------------------------------------------------------------------------ _shape
c_shape = Contract('formulas.ranges:_shape', dict(n1=IntT(), n2=IntT(), r1=DecT(None), r2=DecT(None), kw=ConstT({})),
                   'C06', name='_shape')
CONTRACTS.append(c_shape)


@c_shape.requires
def _(n1, n2, r1, r2):
    return wf_rect({'n1': n1, 'n2': n2, 'r1': r1, 'r2': r2}) and whole_form_only({'n1': n1, 'n2': n2, 'r1': r1, 'r2': r2})


@c_shape.ensures('shape-is-rows-by-columns', 'P')
def _(n1, n2, r1, r2, result):
    return result == (int(r2) - max(int(r1), 1) + 1, n2 - max(n1, 1) + 1)


@c_shape.canary('canary:no-whole-row-convention')
def _(n1, n2, r1, r2, result):
    return result == (int(r2) - int(r1) + 1, n2 - n1 + 1)


PROPERTIES = {
    'C06': dict(
        level='proof',
        explanation=(
            'Contracts on the real formulas/ranges.py functions, cell-set postconditions over symbolic '
            'coordinates of the whole 16384x1048576 grid, discharged per path by z3/cvc5. Bounded stages '
            '(values, formula-level operators) are reported under coverage.bounded and never counted as proved.'),
        assumptions=[
            'rows are canonical decimal text (kind DecStr): int(str(n)) == n, str injective',
            'range2parts[FR] (coordinates preserved, a name added) is proved in C04 and used here by contract',
        ],
        not_proved=[],
    ),
}


# ====================================================================================
# Ranges methods: operands with <= 2 areas each, coordinates fully symbolic
# (complete by unwinding for that area count; the bound is stated in the evidence).
import schedula as _sh
from pyvc.contract import ObjT


def _fr_returns(ctx, name, loc):
    """range2parts[FR] result: the keyword arguments themselves plus the computed text fields."""
    d = dict(loc['inputs'])
    for k in ('name', 'ref', 'c1', 'c2'):
        d[k] = StrT().make(ctx, '%s.%s' % (name, k))
    return d


c_fr.returns = _fr_returns


def areas(*ns):
    return OneOf(*[TupleT(*[RectNamed] * n) for n in ns])


def RangesT(*ns):
    return ObjT('formulas.ranges:Ranges', {'ranges': areas(*ns), 'values': ConstT({}), '_value': ConstT(_sh.NONE)})


def wf_all(rs):
    return all(wf_rect(x) for x in rs)


def covered(rs, c, r, sheet):
    return any(x['sheet_id'] == sheet and in_rect(x, c, r) for x in rs)


# ------------------------------------------------------------------------------------ __add__  (':' operator)
c_add = Contract('formulas.ranges:Ranges.__add__', dict(self=RangesT(1, 2, 3), other=RangesT(1, 2, 3)), 'C06',
                 name='Ranges.__add__', use=['range2parts[FR]'])
CONTRACTS.append(c_add)
c_add.bound = 'operands with 1..3 areas each'


@c_add.requires
def _(self, other):
    return wf_all(self.ranges) and wf_all(other.ranges)


def one_sheet(self, other):
    return all(x['sheet_id'] == self.ranges[0]['sheet_id'] for x in self.ranges + other.ranges)


@c_add.ensures('bounding-rectangle-covers-every-operand-area', 'P')
def _(self, other, result):
    b = result.ranges[0]
    return len(result.ranges) == 1 and one_sheet(self, other) and forall_cells(
        lambda c, r: implies(any(in_rect(x, c, r) for x in self.ranges + other.ranges), in_rect(b, c, r)),
        list(self.ranges + other.ranges) + [b])


@c_add.ensures('bounding-rectangle-is-least', 'P')
def _(self, other, result):
    b = result.ranges[0]
    ops = self.ranges + other.ranges
    return (any(x['n1'] == b['n1'] for x in ops) and any(x['n2'] == b['n2'] for x in ops)
            and any(int(x['r1']) == int(b['r1']) for x in ops) and any(int(x['r2']) == int(b['r2']) for x in ops)
            and b['sheet_id'] == self.ranges[0]['sheet_id'])


from formulas.errors import InvalidRangeError as _IRE


@c_add.raises(_IRE, 'different-sheets-is-an-error', 'P')
def _(self, other, exc):
    return not one_sheet(self, other)


@c_add.ensures('result-area-well-formed', 'P')
def _(self, other, result):
    b = result.ranges[0]
    return wf_rect(b) and is_canonical_decimal(b['r1']) and is_canonical_decimal(b['r2'])


@c_add.canary('canary:first-area-only')
def _(self, other, result):
    return result.ranges[0]['n2'] == max(self.ranges[0]['n2'], other.ranges[0]['n2'])


# ------------------------------------------------------------------------------------ __or__ (',' operator)
c_or = Contract('formulas.ranges:Ranges.__or__', dict(self=RangesT(0, 1, 2, 3), other=RangesT(0, 1, 2, 3)), 'C06',
                name='Ranges.__or__')
CONTRACTS.append(c_or)


@c_or.ensures('union-keeps-every-area-in-order', 'P')
def _(self, other, result):
    return result.ranges == self.ranges + other.ranges


@c_or.canary('canary:drops-right')
def _(self, other, result):
    return result.ranges == self.ranges


# ------------------------------------------------------------------------------------ intersect / __and__ (' ' operator)
c_and = Contract('formulas.ranges:Ranges.__and__', dict(self=RangesT(0, 1, 2), other=RangesT(0, 1, 2)), 'C06',
                 name='Ranges.__and__', use=['range2parts[FR]', '_intersect'])
c_and_d = Contract('formulas.ranges:Ranges.__and__', dict(self=RangesT(1, 2), other=RangesT(1)), 'C06',
                   name='Ranges.__and__[direct]', use=['range2parts[FR]'])
c_and3 = Contract('formulas.ranges:Ranges.__and__', dict(self=RangesT(3), other=RangesT(1, 2, 3)), 'C06',
                  name='Ranges.__and__[3 areas]', use=['range2parts[FR]', '_intersect'])
c_and3.thorough_only = True          # about 10 minutes: explored in the thorough tier only
for _c in (c_and, c_and_d, c_and3):
    CONTRACTS.append(_c)

    @_c.requires
    def _(self, other):
        return wf_all(self.ranges) and wf_all(other.ranges)

    @_c.ensures('areas-are-the-nonempty-pairwise-intersections-in-order', 'P')
    def _(self, other, result):
        # k-th result area = k-th non-empty (o, s) pair in other-major order; stated cell-wise per pair
        pairs = [(o, s) for o in other.ranges for s in self.ranges]
        ne = [same_sheet(o, s) and max(o['n1'], s['n1'], 1) <= min(o['n2'], s['n2'])
              and max(int(o['r1']), int(s['r1']), 1) <= min(int(o['r2']), int(s['r2'])) for o, s in pairs]
        idx = [sum(1 for b in ne[:i] if b) for i in range(len(pairs))]
        return (len(result.ranges) == sum(1 for b in ne if b) and forall_cells(
            lambda c, r: all((not ne[i]) or (
                in_rect(result.ranges[idx[i]], c, r) == (in_rect(pairs[i][0], c, r) and in_rect(pairs[i][1], c, r))
                and result.ranges[idx[i]]['sheet_id'] == pairs[i][0]['sheet_id'])
                for i in range(len(pairs))),
            list(self.ranges + other.ranges + result.ranges)))

    @_c.canary('canary:self-major-order')
    def _(self, other, result):
        return len(result.ranges) < 2 or forall_cells(
            lambda c, r: implies(in_rect(result.ranges[1], c, r), in_rect(self.ranges[0], c, r)),
            list(self.ranges + other.ranges + result.ranges))


# ------------------------------------------------------------------------------------ __sub__
def _split_returns(ctx, name, loc):
    k = ctx.choice(6)
    if k == 5:
        return (loc['rng'],)
    return tuple(RectNamed.make(ctx, '%s.%d' % (name, i)) for i in range(k))


c_split.returns = _split_returns


@c_split.ensures('same-object-when-disjoint', 'S')
def _(base, rng, result):
    return bool(same_sheet(base, rng) and max(base['n1'], rng['n1'], 1) <= min(base['n2'], rng['n2'])
                and max(int(base['r1']), int(rng['r1']), 1) <= min(int(base['r2']), int(rng['r2']))) \
        or (len(result) == 1 and same_object(result[0], rng))


c_sub = Contract('formulas.ranges:Ranges.__sub__', dict(self=RangesT(0, 1), other=RangesT(0, 1)), 'C06',
                 name='Ranges.__sub__', use=['_split'])
CONTRACTS.append(c_sub)
c_sub.bound = 'operands with 0..1 areas each (multi-area operands: bounded stage)'


@c_sub.requires
def _(self, other):
    return wf_all(self.ranges) and wf_all(other.ranges)


@c_sub.ensures('difference-covers-self-minus-other', 'P')
def _(self, other, result):
    return forall_cells(
        lambda c, r: any(in_rect(p, c, r) for p in result.ranges) == (
            any(in_rect(s, c, r) and not any(same_sheet(o, s) and in_rect(o, c, r) for o in other.ranges)
                for s in self.ranges)),
        list(self.ranges + other.ranges + result.ranges))


@c_sub.ensures('difference-areas-pairwise-disjoint', 'P')
def _(self, other, result):
    return forall_cells(
        lambda c, r: all(not (in_rect(p, c, r) and in_rect(q, c, r))
                         for i, p in enumerate(result.ranges) for q in result.ranges[i + 1:]),
        list(self.ranges + other.ranges + result.ranges))


@c_sub.ensures('difference-areas-well-formed', 'P')
def _(self, other, result):
    return all(wf_rect(p) for p in result.ranges)


@c_sub.known_region('KF-C06-1', 'difference-areas-well-formed')
def _(self, other):
    return any(same_sheet(o, s) and ((s['n1'] == 0 and o['n1'] == 1) or (int(s['r1']) == 0 and int(o['r1']) == 1))
               for s in self.ranges for o in other.ranges)


@c_sub.canary('canary:nothing-removed')
def _(self, other, result):
    return result.ranges == self.ranges


# ====================================================================================
# bounded stage B1: operators on Ranges objects with values, against finite sets of grid cells
from pyvc.bounded import Stage
import itertools as _it


def _rects(n):
    out = []
    for c1 in range(1, n + 1):
        for c2 in range(c1, n + 1):
            for r1 in range(1, n + 1):
                for r2 in range(r1, n + 1):
                    out.append((c1, r1, c2, r2))
    return out


def _name(rc, sheet=''):
    c1, r1, c2, r2 = rc
    a, b = '%s%d' % ('ABCDEFG'[c1 - 1], r1), '%s%d' % ('ABCDEFG'[c2 - 1], r2)
    return (sheet + '!' if sheet else '') + (a if a == b else a + ':' + b)


def _cells(rc):
    c1, r1, c2, r2 = rc
    return {(c, r) for c in range(c1, c2 + 1) for r in range(r1, r2 + 1)}


def _val(c, r):
    return 100 * r + c


def _mkr(rcs, sheet=''):
    import numpy as np
    from formulas.ranges import Ranges
    rng = Ranges()
    for rc in rcs:
        c1, r1, c2, r2 = rc
        rng.push(_name(rc, sheet), np.asarray([[_val(c, r) for c in range(c1, c2 + 1)] for r in range(r1, r2 + 1)], object))
    return rng


def _area_cells(area):
    n1, n2 = max(int(area['n1']), 1), int(area['n2'])
    r1, r2 = max(int(area['r1']), 1), int(area['r2'])
    return [(c, r) for r in range(r1, r2 + 1) for c in range(n1, n2 + 1)]


def _check_ops_on_sheets(case):
    """Operands whose areas lie on two sheets (A and B are tuples of (sheet, rectangle)): cells are (sheet id, column, row)."""
    from formulas.ranges import Ranges
    kind, A, B = case

    def mk(X):
        out = Ranges()
        for sheet, rc in X:
            out.ranges += _mkr((rc,), sheet).ranges
        return out

    def cells_of(X):
        return {(sheet.upper(), c, r) for sheet, rc in X for c, r in _cells(rc)}
    a2, b2 = mk(A), mk(B)
    try:
        res = a2.simplify() if kind == 'simplify@' else a2 - b2
    except Exception as ex:
        return '%s of %s, %s raised %s: %s' % (kind, a2, b2, type(ex).__name__, str(ex)[:80])
    want = cells_of(A) if kind == 'simplify@' else cells_of(A) - cells_of(B)
    got = [(z['sheet_id'], c, r) for z in res.ranges for c, r in _area_cells(z)]
    if len(got) != len(set(got)):
        return '%s of %s, %s = %s covers a cell twice' % (kind, a2, b2, res)
    if set(got) != want:
        return '%s of %s, %s = %s covers %r, expected %r' % (kind, a2, b2, res, sorted(set(got)), sorted(want))
    return None


def _check_ops(case):
    import numpy as np
    from formulas.ranges import Ranges
    if case[0].endswith('@'):
        return _check_ops_on_sheets(case)
    from formulas.errors import InvalidRangeError
    from formulas.tokens.operand import NULL
    kind, A, B = case
    a, b = _mkr(A), _mkr(B)
    ca = [c for rc in A for c in sorted(_cells(rc))]
    cb = [c for rc in B for c in sorted(_cells(rc))]
    sa, sb = set(ca), set(cb)
    try:
        if kind == 'and':
            res = a & b
            want = [sorted(_cells(x) & _cells(y), key=lambda t: (t[1], t[0])) for y in B for x in A if _cells(x) & _cells(y)]
            got = [_area_cells(z) for z in res.ranges]
            if got != want:
                return '%s & %s covers %r, the common cells per pair of areas are %r' % (a, b, got, want)
            v = res.value
            if not want:
                if not (v.shape == (1, 1) and v[0, 0] is NULL):
                    return 'empty intersection %s & %s has value %r, expected #NULL!' % (a, b, v.tolist())
            else:
                flat = [x for w in want for x in w]
                exp = [_val(c, r) for c, r in flat]
                gotv = np.asarray(v, object).ravel().tolist()
                if sorted(gotv) != sorted(exp) or (len(want) == 1 and gotv != exp):
                    return 'values of %s & %s are %r, the cells hold %r' % (a, b, gotv, exp)
        elif kind == 'add':
            res = a + b
            cs = [c for c, r in sa | sb]
            rs = [r for c, r in sa | sb]
            box = (min(cs), min(rs), max(cs), max(rs))
            got = [_area_cells(z) for z in res.ranges]
            want = [sorted(_cells(box), key=lambda t: (t[1], t[0]))]
            if got != want or res.ranges[0]['name'] != _name(box):
                return '%s : %s is %s, the bounding rectangle is %s' % (a, b, res, _name(box))
            v = np.asarray(res.value, object)
            for (c, r) in want[0]:
                x = v[r - box[1], c - box[0]]
                if (c, r) in sa | sb:
                    if x != _val(c, r):
                        return 'value of cell %s%d through %s : %s is %r, the cell holds %r' % ('ABCDEFG'[c - 1], r, a, b, x, _val(c, r))
        elif kind == 'or':
            res = a | b
            got = [_area_cells(z) for z in res.ranges]
            want = [sorted(_cells(x), key=lambda t: (t[1], t[0])) for x in list(A) + list(B)]
            if got != want:
                return '%s , %s has areas %r, expected every operand area in order %r' % (a, b, got, want)
            gotv = sorted(np.asarray(res.value, object).ravel().tolist())
            exp = sorted(_val(c, r) for w in want for c, r in w)
            if gotv != exp:
                return 'values of %s , %s are %r, each cell once per covering area gives %r' % (a, b, gotv, exp)
        elif kind == 'sub':
            res = a - b
            got = [x for z in res.ranges for x in _area_cells(z)]
            if len(got) != len(set(got)):
                return '%s - %s = %s covers a cell twice' % (a, b, res)
            if set(got) != sa - sb:
                return '%s - %s = %s covers %r, expected %r' % (a, b, res, sorted(set(got)), sorted(sa - sb))
            for z in res.ranges:
                back = Ranges.get_range(z['name'])
                if _area_cells(back) != _area_cells(z):
                    return '%s - %s = %s: area named %r reads back as other cells' % (a, b, res, z['name'])
        elif kind == 'simplify':
            res = a.simplify()
            got = [x for z in res.ranges for x in _area_cells(z)]
            if len(got) != len(set(got)):
                return 'simplify(%s) = %s covers a cell twice' % (a, res)
            if set(got) != sa:
                return 'simplify(%s) = %s covers %r, expected %r' % (a, res, sorted(set(got)), sorted(sa))
    except InvalidRangeError:
        return 'raised InvalidRangeError on one sheet'
    except Exception as ex:
        return '%s of %r, %r raised %s: %s' % (kind, A, B, type(ex).__name__, str(ex)[:80])
    return None


def _ops_cases(tier, rng):
    n = 4 if tier == 'quick' else 6
    R = _rects(n)
    cases = []
    pairs = list(_it.product(R, R))
    if tier == 'quick':
        pairs = pairs[::3]
    for x, y in pairs:
        for kind in ('and', 'add', 'or', 'sub'):
            cases.append((kind, (x,), (y,)))
    k = 1500 if tier == 'quick' else 150000
    for _ in range(k):
        A = tuple(rng.choice(R) for _ in range(rng.randrange(1, 4)))
        B = tuple(rng.choice(R) for _ in range(rng.randrange(1, 4)))
        cases.append((rng.choice(['and', 'add', 'or', 'sub', 'simplify']), A, B))
    for _ in range(k // 5):       # reference sets spread over two sheets (sheet-qualified areas)
        A = tuple((rng.choice(['S1', 'S2']), rng.choice(R)) for _ in range(rng.randrange(1, 4)))
        B = tuple((rng.choice(['S1', 'S2']), rng.choice(R)) for _ in range(rng.randrange(1, 4)))
        cases.append((rng.choice(['simplify@', 'sub@']), A, B))
    return cases


def _formula_cases(tier, rng):
    R = _rects(3)
    out = []
    for _ in range(150 if tier == 'quick' else 15000):
        out.append(('formula', rng.choice(R), rng.choice(R), rng.choice([' ', ':', ','])))
    return out


def _check_formula(case):
    """=SUM(a op b) through the parser and the compiled function, cells given as inputs."""
    import numpy as np
    import formulas
    from formulas.tokens.operand import NULL
    _, x, y, op = case
    if op == ',':
        text = '=SUM((%s,%s))' % (_name(x), _name(y))
    elif op == ':':
        if x[:2] == x[2:]:
            return None        # 'B3:A3' would be one (possibly reversed) range token for the lexer, not the ':' operator
        text = '=SUM(%s:%s)' % (_name(x), _name(y))
    else:
        text = '=SUM(%s %s)' % (_name(x), _name(y))
    cx, cy = _cells(x), _cells(y)
    if op == ' ':
        cells = sorted(cx & cy)
        want = float(sum(_val(c, r) for c, r in cells)) if cells else NULL
    elif op == ':':
        cs = [c for c, r in cx | cy]
        rs = [r for c, r in cx | cy]
        cells = sorted(_cells((min(cs), min(rs), max(cs), max(rs))))
        want = float(sum(_val(c, r) for c, r in cells))
    else:
        want = float(sum(_val(c, r) for c, r in sorted(cx)) + sum(_val(c, r) for c, r in sorted(cy)))
    try:
        f = formulas.Parser().ast(text)[1].compile()
        from formulas.ranges import Ranges
        args = []
        for k, rng_ in f.inputs.items():
            inp = Ranges()
            for area in rng_.ranges:
                rows = {}
                for c, r in _area_cells(area):
                    rows.setdefault(r, []).append(_val(c, r))
                inp.push(area['name'], np.asarray([rows[r] for r in sorted(rows)], object))
            args.append(inp)
        got = np.asarray(f(*args), object).ravel()[0]
    except Exception as ex:
        return '%s raised %s: %s' % (text, type(ex).__name__, str(ex)[:80])
    ok = (got is want) if want is NULL else (not isinstance(got, str) and float(got) == want)
    return None if ok else '%s = %r, the cells of the combined reference sum to %r' % (text, got, want)


# ---- nested reference expressions: operators applied to the results of operators, with values ------------------------
def _nested_tree(rng, R, depth):
    if depth == 0 or rng.random() < 0.25:
        return ('leaf', rng.choice(R))
    return (rng.choice(['and', 'add', 'or', 'sub', 'and', 'add']), _nested_tree(rng, R, depth - 1), _nested_tree(rng, R, depth - 1))


def _nested_cases(tier, rng):
    R = _rects(4)
    out = []
    singles = [x for x in R if x[:2] == x[2:]]
    # the family (P Q):S — the range operator applied to an intersection
    for _ in range(1500 if tier == 'quick' else 100000):
        out.append(('add', ('and', ('leaf', rng.choice(R)), ('leaf', rng.choice(R))), ('leaf', rng.choice(singles))))
    # an area intersected with a union (and with a union of intersections): the result may be ONE area whose cells come from several
    # value arrays (the defect repaired by 69d732a showed only on such inputs)
    out.append(('and', ('leaf', (4, 2, 4, 4)), ('or', ('and', ('leaf', (3, 2, 3, 4)), ('leaf', (1, 1, 4, 2))), ('leaf', (1, 1, 4, 3)))))
    for _ in range(800 if tier == 'quick' else 50000):
        u = ('or', ('leaf', rng.choice(R)), ('leaf', rng.choice(R)))
        if rng.random() < 0.4:
            u = ('or', ('and', ('leaf', rng.choice(R)), ('leaf', rng.choice(R))), ('leaf', rng.choice(R)))
        out.append(('and', ('leaf', rng.choice(R)), u) if rng.random() < 0.5 else ('and', u, ('leaf', rng.choice(R))))
    for _ in range(2500 if tier == 'quick' else 300000):
        t = _nested_tree(rng, R, 2 if rng.random() < 0.7 else 3)
        if t[0] != 'leaf':
            out.append(t)
    return out


def _tree_text(t):
    if t[0] == 'leaf':
        return _name(t[1])
    return '(%s %s %s)' % (_tree_text(t[1]), {'and': '&', 'add': ':', 'or': ',', 'sub': '-'}[t[0]], _tree_text(t[2]))


class _Empty(Exception):
    pass


def _nested_spec(t):
    """-> (areas, loose): areas = list of {cell: value or None (not settled by the statement)}; loose = the split into
    areas is not settled (a difference was taken), only the covered cells are."""
    if t[0] == 'leaf':
        return [{c: _val(*c) for c in _cells(t[1])}], False
    (A, la), (B, lb) = _nested_spec(t[1]), _nested_spec(t[2])
    loose = la or lb
    if t[0] == 'and':
        out = []
        for y in B:
            for x in A:
                common = set(x) & set(y)
                if common:
                    out.append({c: (x[c] if x[c] is not None else y[c]) for c in common})
        return out, loose
    if t[0] == 'or':
        return A + B, loose
    if t[0] == 'add':
        cells = [c for x in A + B for c in x]
        if not cells:
            raise _Empty()
        box = (min(c for c, r in cells), min(r for c, r in cells), max(c for c, r in cells), max(r for c, r in cells))
        area = {c: None for c in _cells(box)}
        for x in A + B:
            for c, v in x.items():
                if v is not None:
                    area[c] = v
        return [area], False
    if t[0] == 'sub':
        gone = {c for y in B for c in y}
        keep = {}
        for x in A:
            for c, v in x.items():
                if c not in gone:
                    keep[c] = v if keep.get(c) is None else keep[c]
        return ([keep] if keep else []), True
    raise ValueError(t)


def _nested_eval(t):
    if t[0] == 'leaf':
        return _mkr((t[1],))
    a, b = _nested_eval(t[1]), _nested_eval(t[2])
    if not a.ranges or not b.ranges:
        raise _Empty()          # an operator applied to the empty reference (#NULL!): not settled by the statement
    return {'and': lambda: a & b, 'add': lambda: a + b, 'or': lambda: a | b, 'sub': lambda: a - b}[t[0]]()


def _has_inner_range_op(t, top=True):
    """The expression applies an operator to the result of a range operator (:)."""
    if t[0] == 'leaf':
        return False
    if t[0] == 'add' and not top:
        return True
    return _has_inner_range_op(t[1], False) or _has_inner_range_op(t[2], False)


def _classify_nested(case, detail):
    return 'KF-C06-2' if detail.startswith('gap-filler: ') else None


def _check_nested(t):
    import numpy as np
    from formulas.tokens.operand import NULL
    text = _tree_text(t)
    try:
        spec, loose = _nested_spec(t)
        res = _nested_eval(t)
    except _Empty:
        return None
    except Exception as ex:
        return '%s raised %s: %s' % (text, type(ex).__name__, str(ex)[:80])
    try:
        got = [_area_cells(z) for z in res.ranges]
        if loose:
            gs, ws = {c for g in got for c in g}, {c for x in spec for c in x}
            if gs != ws:
                return '%s covers %r, expected %r' % (text, sorted(gs), sorted(ws))
            if t[0] == 'sub' and len([c for g in got for c in g]) != len(gs):
                return '%s covers a cell twice' % text
            return None
        want = [sorted(x, key=lambda c: (c[1], c[0])) for x in spec]
        if got != want:
            return '%s has areas %r, expected %r' % (text, got, want)
        v = res.value
        if not want:
            if not (v.shape == (1, 1) and v[0, 0] is NULL):
                return 'empty reference %s has value %r, expected #NULL!' % (text, v.tolist())
            return None
        if len(want) == 1:
            v = np.asarray(v, object)
            c0, r0 = min(c for c, r in want[0]), min(r for c, r in want[0])
            bad = [(c, r, v[r - r0, c - c0], spec[0][(c, r)]) for (c, r) in want[0]
                   if spec[0][(c, r)] is not None and v[r - r0, c - c0] != spec[0][(c, r)]]
            if bad:
                c, r, x, e = bad[0]
                filler = all(isinstance(b[2], str) and b[2] == '' for b in bad) and _has_inner_range_op(t)
                return '%scell %s%d seen through %s shows %r, the cell holds %r' % (
                    'gap-filler: ' if filler else '', 'ABCDEFG'[c - 1], r, text, x, e)
        elif all(e is not None for x in spec for e in x.values()):
            gotv = np.asarray(v, object).ravel().tolist()
            exp = [e for x in spec for e in x.values()]
            gi, ei = sorted(x for x in gotv if x != ''), sorted(exp)
            if len(gotv) != len(exp) or sorted(map(repr, gotv)) != sorted(map(repr, exp)):
                import collections
                missing = collections.Counter(ei) - collections.Counter(gi)
                extra = collections.Counter(gi) - collections.Counter(ei)
                filler = (len(gotv) == len(exp) and not extra and sum(missing.values()) == gotv.count('')
                          and _has_inner_range_op(t))
                return '%svalues of %s are %r, each cell once per covering area gives %r' % (
                    'gap-filler: ' if filler else '', text, gotv, sorted(exp))
    except Exception as ex:
        return 'value of %s raised %s: %s' % (text, type(ex).__name__, str(ex)[:80])
    return None



BOUNDED = [
    Stage('B1:reference-operators-on-a-small-grid', 'C06', _ops_cases, _check_ops,
          'intersection, range, union and difference for every 3rd (quick) / every (thorough) ordered pair of rectangles of a 4x4 / 6x6 grid '
          '(100 / 441 rectangles), plus random multi-area operands (1..3 areas each; also simplify): covered cells against finite cell sets, '
          'values position by position / once per covering area, #NULL! for an empty intersection, read-back of the area names',
          max_report=20),
    Stage('B1:reference-operators-in-formulas', 'C06', _formula_cases, _check_formula,
          '=SUM(a op b) for random rectangle pairs of a 3x3 grid and the three reference operators through Parser / compile (150 quick / 15000 thorough)',
          max_report=20),
    Stage('B1:nested-reference-expressions', 'C06', _nested_cases, _check_nested,
          'operators applied to the results of operators: (P Q):S for random rectangles P, Q and cells S of a 4x4 grid (1500 quick / 100000 '
          'thorough) and random expression trees of depth 2-3 over & : , - (2500 / 300000): areas, covered cells and the values seen '
          'position by position against finite cell maps', max_report=20, classify=_classify_nested),
]
