"""C06 — reference operators as cell sets: contracts on formulas/ranges.py (DESIGN §4 C06, A.1)."""
from pyvc.contract import Contract, RecordT, IntT, DecT, StrT, OneOf, ConstT, TupleT
from pyvc.spec import forall_cells, implies, iff

MAXCOL, MAXROW = 16384, 1048576

Rect = RecordT({'sheet_id': StrT(), 'n1': IntT(), 'n2': IntT(), 'r1': DecT(None), 'r2': DecT(None)})
RectNamed = RecordT({'sheet_id': StrT(), 'n1': IntT(), 'n2': IntT(), 'r1': DecT(None), 'r2': DecT(None),
                     'name': StrT()})


def wf_rect(x):
    return (0 <= x['n1'] <= x['n2'] <= MAXCOL and x['n2'] >= 1
            and 0 <= int(x['r1']) <= int(x['r2']) <= MAXROW and int(x['r2']) >= 1
            and (x['n1'] != 0 or x['n2'] == MAXCOL) and (int(x['r1']) != 0 or int(x['r2']) == MAXROW))


def in_rect(x, c, r):
    return (max(x['n1'], 1) <= c <= x['n2']) and (max(int(x['r1']), 1) <= r <= int(x['r2']))


def same_sheet(x, y):
    return x['sheet_id'] == y['sheet_id']


CONTRACTS = []

# ------------------------------------------------------------------------------------ _intersect
c_intersect = Contract('formulas.ranges:_intersect', dict(x=Rect, y=Rect), 'C06',
                       returns=OneOf(ConstT({}), Rect), name='_intersect')
CONTRACTS.append(c_intersect)


@c_intersect.requires
def _(x, y):
    return wf_rect(x) and wf_rect(y)


@c_intersect.ensures('cells-are-common-cells', 'P')
def _(x, y, result):
    return forall_cells(
        lambda c, r: (bool(result) and in_rect(result, c, r)) == (same_sheet(x, y) and in_rect(x, c, r) and in_rect(y, c, r)),
        [x, y, result])


@c_intersect.ensures('empty-iff-no-common-cell', 'P')
def _(x, y, result):
    return bool(result) == (same_sheet(x, y)
                            and max(x['n1'], y['n1'], 1) <= min(x['n2'], y['n2'])
                            and max(int(x['r1']), int(y['r1']), 1) <= min(int(x['r2']), int(y['r2'])))


@c_intersect.ensures('result-well-formed', 'S')
def _(x, y, result):
    return (not result) or (result['sheet_id'] == x['sheet_id']
                            and result['n1'] <= result['n2'] and int(result['r1']) <= int(result['r2'])
                            and set(result) == {'sheet_id', 'n1', 'n2', 'r1', 'r2'})


@c_intersect.ensures('result-coordinates', 'S')
def _(x, y, result):
    # representation chosen by the code (0 = "from the first row/column" is kept); callers rely on it
    return (not result) or (result['n1'] == max(x['n1'], y['n1']) and result['n2'] == min(x['n2'], y['n2'])
                            and int(result['r1']) == max(int(x['r1']), int(y['r1']))
                            and int(result['r2']) == min(int(x['r2']), int(y['r2'])))


@c_intersect.canary('canary:min-for-max')
def _(x, y, result):
    return (not result) or result['n1'] == min(x['n1'], y['n1'])

# ------------------------------------------------------------------------------------ range2parts (FR)
# Contract under which ranges.py calls the formatter (kwargs exactly sheet_id,n1,n2,r1,r2).  Proved
# against the real range2parts/fast_range2parts_v4 body in contracts/c04_refs.py.
FRInputs = RecordT({'sheet_id': StrT(), 'n1': IntT(), 'n2': IntT(), 'r1': DecT(None), 'r2': DecT(None)})
FRResult = RecordT({'sheet_id': StrT(), 'n1': IntT(), 'n2': IntT(), 'r1': DecT(None), 'r2': DecT(None),
                    'name': StrT(), 'ref': StrT(), 'c1': StrT(), 'c2': StrT()})
c_fr = Contract('formulas.tokens.operand:range2parts', dict(outputs=ConstT(('name', 'n1', 'n2')), inputs=FRInputs),
                'C06', returns=FRResult, name='range2parts[FR]')
c_fr.proved_in = 'C04'   # verified against the real body by contracts/c04_refs.py, used here by contract
CONTRACTS.append(c_fr)


@c_fr.requires
def _(outputs, inputs):
    return 0 <= inputs['n1'] <= inputs['n2'] <= MAXCOL and 0 <= int(inputs['r1']) and 0 <= int(inputs['r2']) <= MAXROW


@c_fr.ensures('coordinates-preserved', 'S')
def _(outputs, inputs, result):
    return (result['sheet_id'] == inputs['sheet_id'] and result['n1'] == inputs['n1']
            and result['n2'] == inputs['n2'] and result['r1'] == inputs['r1'] and result['r2'] == inputs['r2'])


# ------------------------------------------------------------------------------------ _split
c_split = Contract('formulas.ranges:_split',
                   dict(base=Rect, rng=Rect, intersect=OneOf(ConstT(None), ConstT({}))), 'C06',
                   frame=('intersect',), name='_split', use=['_intersect', 'range2parts[FR]'])
c_split_inl = Contract('formulas.ranges:_split',
                       dict(base=Rect, rng=Rect, intersect=OneOf(ConstT(None), ConstT({}))), 'C06',
                       frame=('intersect',), name='_split[direct]', use=['range2parts[FR]'])
for _c in (c_split, c_split_inl):
    CONTRACTS.append(_c)

    @_c.requires
    def _(base, rng, intersect):
        return wf_rect(base) and wf_rect(rng)

    @_c.ensures('pieces-cover-rng-minus-base', 'P')
    def _(base, rng, result):
        return forall_cells(
            lambda c, r: any(in_rect(p, c, r) for p in result) == (
                in_rect(rng, c, r) and not (same_sheet(base, rng) and in_rect(base, c, r))),
            [base, rng] + list(result))

    @_c.ensures('pieces-pairwise-disjoint', 'P')
    def _(base, rng, result):
        return forall_cells(
            lambda c, r: all(not (in_rect(p, c, r) and in_rect(q, c, r))
                             for i, p in enumerate(result) for q in result[i + 1:]),
            [base, rng] + list(result))

    @_c.ensures('intersect-updated-to-common-cells', 'P')
    def _(base, rng, intersect, result):
        return intersect is None or forall_cells(
            lambda c, r: (bool(intersect) and in_rect(intersect, c, r)) == (
                same_sheet(base, rng) and in_rect(base, c, r) and in_rect(rng, c, r)),
            [base, rng, intersect])

    @_c.ensures('pieces-on-rng-sheet-at-most-4', 'S')
    def _(base, rng, result):
        return len(result) <= 4 and all(p['sheet_id'] == rng['sheet_id'] for p in result)

    @_c.canary('canary:pieces-cover-rng')
    def _(base, rng, result):
        return forall_cells(lambda c, r: any(in_rect(p, c, r) for p in result) == in_rect(rng, c, r),
                            [base, rng] + list(result))


# ------------------------------------------------------------------------------------ _merge_*_update
def key_le(a, b):
    return (a['n1'], int(a['r1']), -a['n2'], -int(a['r2'])) <= (b['n1'], int(b['r1']), -b['n2'], -int(b['r2']))


c_mraw = Contract('formulas.ranges:_merge_raw_update', dict(base=Rect, rng=Rect), 'C06',
                  frame=('base',), name='_merge_raw_update', returns=OneOf(ConstT(True), ConstT(None)))
CONTRACTS.append(c_mraw)


@c_mraw.requires
def _(base, rng):
    # call site (_merge after the per-column split of simplify): single-column areas in key order
    return (wf_rect(base) and wf_rect(rng) and base['n1'] == base['n2'] and rng['n1'] == rng['n2']
            and key_le(base, rng))


@c_mraw.ensures('merged-is-union', 'P')
def _(base, rng, result, old):
    return (not result) or forall_cells(
        lambda c, r: in_rect(base, c, r) == (in_rect(old['base'], c, r) or in_rect(rng, c, r)),
        [base, rng, old['base']])


@c_mraw.ensures('not-merged-unchanged', 'P')
def _(base, rng, result, old):
    return bool(result) or base == old['base']


@c_mraw.ensures('only-r2-changes', 'S')
def _(base, rng, result, old):
    return all(base[k] == old['base'][k] for k in ('sheet_id', 'n1', 'n2', 'r1')) and set(base) == set(old['base'])


@c_mraw.canary('canary:never-merges')
def _(base, rng, result):
    return not result


c_mcol = Contract('formulas.ranges:_merge_col_update', dict(base=Rect, rng=Rect), 'C06',
                  frame=('base',), name='_merge_col_update', returns=OneOf(ConstT(True), ConstT(None)))
CONTRACTS.append(c_mcol)


@c_mcol.requires
def _(base, rng):
    return wf_rect(base) and wf_rect(rng)


@c_mcol.ensures('merged-is-union', 'P')
def _(base, rng, result, old):
    return (not result) or forall_cells(
        lambda c, r: in_rect(base, c, r) == (in_rect(old['base'], c, r) or in_rect(rng, c, r)),
        [base, rng, old['base']])


@c_mcol.ensures('not-merged-unchanged', 'P')
def _(base, rng, result, old):
    return bool(result) or base == old['base']


@c_mcol.ensures('only-n2-changes', 'S')
def _(base, rng, result, old):
    return all(base[k] == old['base'][k] for k in ('sheet_id', 'n1', 'r1', 'r2')) and set(base) == set(old['base'])


@c_mcol.canary('canary:never-merges')
def _(base, rng, result):
    return not result


# ------------------------------------------------------------------------------------ _get_indices_intersection
c_gii = Contract('formulas.ranges:_get_indices_intersection', dict(base=Rect, i=Rect), 'C06',
                 name='_get_indices_intersection')
CONTRACTS.append(c_gii)


@c_gii.requires
def _(base, i):
    return wf_rect(base) and wf_rect(i)


@c_gii.ensures('slices-address-cells-relative-to-base-origin', 'P')
def _(base, i, result):
    # cell (c, r) of i sits at [r - R1(base), c - N1(base)] of base's value array
    return (result[0].start == max(int(i['r1']), 1) - max(int(base['r1']), 1)
            and result[0].stop == int(i['r2']) - max(int(base['r1']), 1) + 1
            and result[1].start == max(i['n1'], 1) - max(base['n1'], 1)
            and result[1].stop == i['n2'] - max(base['n1'], 1) + 1
            and result[0].step is None and result[1].step is None)


@c_gii.canary('canary:zero-origin')
def _(base, i, result):
    return result[0].start == int(i['r1']) - int(base['r1'])


# ------------------------------------------------------------------------------------ _shape
c_shape = Contract('formulas.ranges:_shape', dict(n1=IntT(), n2=IntT(), r1=DecT(None), r2=DecT(None), kw=ConstT({})),
                   'C06', name='_shape')
CONTRACTS.append(c_shape)


@c_shape.requires
def _(n1, n2, r1, r2):
    return wf_rect({'n1': n1, 'n2': n2, 'r1': r1, 'r2': r2})


@c_shape.ensures('shape-is-rows-by-columns', 'P')
def _(n1, n2, r1, r2, result):
    return result == (int(r2) - max(int(r1), 1) + 1, n2 - max(n1, 1) + 1)


@c_shape.canary('canary:no-whole-row-convention')
def _(n1, n2, r1, r2, result):
    return result == (int(r2) - int(r1) + 1, n2 - n1 + 1)


PROPERTIES = {
    'C06': dict(
        level='proof',
        explanation=(
            'Contracts on the real formulas/ranges.py functions, cell-set postconditions over symbolic '
            'coordinates of the whole 16384x1048576 grid, discharged per path by z3/cvc5. Bounded stages '
            '(values, formula-level operators) are reported under coverage.bounded and never counted as proved.'),
        assumptions=[
            'rows are canonical decimal text (kind DecStr): int(str(n)) == n, str injective',
            'range2parts[FR] (coordinates preserved, a name added) is proved in C04 and used here by contract',
        ],
        not_proved=[],
    ),
}
