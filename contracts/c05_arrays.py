"""C05 — array evaluation is the scalar rule lifted element-wise and fitted (DESIGN §4 C05)."""
import itertools
import schedula as sh
from pyvc.contract import Contract, IntT
from pyvc.bounded import Stage

CONTRACTS = []

# ------------------------------------------------------------------------------------ proved: get_shape
c_gs = Contract('formulas.functions:get_shape', dict(r=IntT(1), c=IntT(1)), 'C05', name='get_shape', use=[])
CONTRACTS.append(c_gs)


@c_gs.ensures('a-dimension-of-one-stretches', 'P')
def _(r, c, result):
    return result == (None if r == 1 else r, None if c == 1 else c)


@c_gs.canary('canary:never-stretches')
def _(r, c, result):
    return result == (r, c)


# ------------------------------------------------------------------------------------ bounded: fitting
SHAPES = [(1, 1)] + [(1, n) for n in (2, 3, 4)] + [(m, 1) for m in (2, 3, 4)] + [(m, n) for m in (2, 3, 4) for n in (2, 3, 4)]


def _mk(shape, base=0):
    import numpy as np
    m, n = shape
    return np.asarray([[base + 10 * i + j + 1 for j in range(n)] for i in range(m)], object)


def spec_fit(value, dest):
    """Excel: a scalar fills; a single row / column repeats along the other dimension; surplus is dropped;
    cells the value does not reach receive #N/A."""
    from formulas.tokens.operand import NA
    vm, vn = len(value), len(value[0])
    out = []
    for i in range(dest[0]):
        row = []
        for j in range(dest[1]):
            ii = 0 if vm == 1 else i
            jj = 0 if vn == 1 else j
            row.append(value[ii][jj] if ii < vm and jj < vn else NA)
        out.append(row)
    return out


def _same_grid(got, want):
    import numpy as np
    got = np.asarray(got, object)
    if got.shape != (len(want), len(want[0])):
        return False
    return all(got[i, j] is want[i][j] or got[i, j] == want[i][j] for i in range(len(want)) for j in range(len(want[0])))


def _check_fit(case):
    import numpy as np
    from formulas.ranges import Ranges, _reshape_array_as_excel
    from formulas.functions import Array
    kind, vshape, dshape = case
    ref = 'A1:%s%d' % ('ABCD'[dshape[1] - 1], dshape[0])
    if kind.startswith('scalar:'):
        # a result without axes: a formula made of scalars only (its last operator / function returns a 0-d Array) fills the range
        import formulas
        text, v = {'scalar:operator': ('=1+2', 3.0), 'scalar:function': ('=ABS(-3)', 3.0), 'scalar:text': ('="a"&"b"', 'ab'),
                   'scalar:logical': ('=2>1', True), 'scalar:0d-array': (None, 7)}[kind]
        want = [[v] * dshape[1] for _ in range(dshape[0])]
        try:
            if text is None:
                got = Ranges().push(ref, np.asarray(7, object).view(Array)).value
            else:
                cell = formulas.cell.Cell(ref, text).compile()
                dsp = sh.Dispatcher()
                cell.add(dsp)
                got = dsp({})[cell.output].value
        except Exception as ex:
            return '%s into %dx%d raised %s: %s' % (kind, dshape[0], dshape[1], type(ex).__name__, str(ex)[:80])
        return None if _same_grid(got, want) else '%s (%s) stored into %dx%d gives %s, expected %s everywhere' % (
            kind, text, dshape[0], dshape[1], np.asarray(got, object).tolist(), v)
    value = _mk(vshape)
    want = spec_fit(value.tolist(), dshape)
    try:
        if kind == 'reshape_array_as_excel':
            got = _reshape_array_as_excel(value.copy(), dshape)
        elif kind == 'Array.reshape':
            got = value.copy().view(Array).reshape(dshape)
        elif kind == 'Ranges.set_value(array)':
            got = Ranges().push(ref, value.copy()).value
        elif kind == 'Ranges.set_value(Array)':
            got = Ranges().push(ref, value.copy().view(Array)).value
        else:
            import formulas
            lit = '{%s}' % ';'.join(','.join(str(x) for x in row) for row in value.tolist())
            cell = formulas.cell.Cell(ref, '=%s' % lit).compile()
            dsp = sh.Dispatcher()
            cell.add(dsp)
            got = dsp({})[cell.output].value
    except Exception as ex:
        return '%s: %dx%d value into %dx%d raised %s: %s' % (kind, vshape[0], vshape[1], dshape[0], dshape[1], type(ex).__name__, str(ex)[:80])
    return None if _same_grid(got, want) else '%s: %dx%d value stored into %dx%d gives %s, expected %s' % (
        kind, vshape[0], vshape[1], dshape[0], dshape[1], np.asarray(got, object).tolist(), want)


def _fit_cases(tier, rng):
    import formulas.cell     # noqa: F401
    # results of formulas are Array views; plain ndarrays pushed as *inputs* get #VALUE! on a shape mismatch by design
    kinds = ['Array.reshape', 'Ranges.set_value(Array)', 'cell-formula']
    out = [(k, v, d) for k in kinds for v in SHAPES for d in SHAPES]
    # a plain array pushed as an input is fitted like a result as long as nothing has to be dropped
    out += [('Ranges.set_value(array)', v, d) for v in SHAPES for d in SHAPES if v[0] <= d[0] and v[1] <= d[1]]
    out += [(k, (), d) for k in ('scalar:operator', 'scalar:function', 'scalar:text', 'scalar:logical', 'scalar:0d-array') for d in SHAPES]
    return out


def _classify_fit(case, detail):
    kind, v, d = case
    if not v:
        return None
    # np.reshape succeeds silently when the element counts agree (e.g. 1x4 into 2x2, 2x3 into 3x2): not Excel's fitting
    if v != d and v[0] * v[1] == d[0] * d[1]:
        return 'KF-C05-1'
    return None


# ------------------------------------------------------------------------------------ bounded: lifting
def _scalar(v):
    import numpy as np
    v = np.asarray(v, object)
    return v.ravel()[0]


def _eq(a, b):
    import numpy as np
    from formulas.tokens.operand import XlError
    a = bool(a) if isinstance(a, np.bool_) else a
    b = bool(b) if isinstance(b, np.bool_) else b
    if isinstance(a, XlError) or isinstance(b, XlError):
        return a is b
    if isinstance(a, float) and isinstance(b, float) and a != a and b != b:
        return True
    return type(a) is type(b) and a == b or (not isinstance(a, (bool, str)) and not isinstance(b, (bool, str)) and a == b)


POOL = None


def _pool():
    from formulas.tokens.operand import Error
    E = Error.errors
    return [0, 1, -2.5, 3, 'a', '4', '', True, False, sh.EMPTY, E['#N/A'], E['#DIV/0!'], 7.25]


def _special_pool(name):
    # kernels whose results leave the usual number ranges: exact integers beyond 64 bits (FACT(25)) and beyond the float range
    # (FACT(171)), text in a foreign base - the element-wise rule must survive whatever happens to one element
    from formulas.tokens.operand import Error
    E = Error.errors
    return {'FACT': [3, 20, 21, 25, 170, 171, 200, -1, 'a', True, E['#N/A'], 0, 2.9],
            'DECIMAL': ['10', 'ZZ', 'Z' * 300, 'z1', '', 7, True, E['#DIV/0!'], '-1', 'G']}.get(name)


def _mkvals(shape, rng_seed, name=None, position=0):
    import random
    import numpy as np
    r = random.Random(rng_seed)
    P = _pool()
    sp = _special_pool(name)
    if sp is not None and position == 0:
        P = sp
    elif name == 'DECIMAL':
        P = [36, 16, 2, 10]
    return np.asarray([[r.choice(P) for _ in range(shape[1])] for _ in range(shape[0])], object)


def _bshape(shapes):
    m = max(s[0] for s in shapes)
    n = max(s[1] for s in shapes)
    for s in shapes:
        if s[0] not in (1, m) or s[1] not in (1, n):
            return None
    return (m, n)


def _call(name, args):
    import formulas
    from formulas.functions.operators import OPERATORS
    f = OPERATORS[name] if name in OPERATORS else formulas.get_functions()[name]
    if isinstance(f, dict):
        f = f['function']
    return f(*args)


def _check_lift(case):
    import numpy as np
    name, shapes, seed = case
    out_shape = _bshape(shapes)
    if out_shape is None:
        return None
    arrays = [_mkvals(s, seed + 31 * k, name, k) for k, s in enumerate(shapes)]
    if seed % 2:
        # the same values in column-major memory order (what TRANSPOSE and sliced ranges produce): positions must not depend on it
        arrays = [np.asfortranarray(a) for a in arrays]
    args = [a if a.shape != (1, 1) or (seed + k) % 2 else a[0, 0] for k, a in enumerate(arrays)]
    try:
        got = np.asarray(_call(name, args), object)
        if got.shape == ():
            got = got.reshape(1, 1)
    except Exception as ex:
        return '%s over shapes %r raised %s: %s' % (name, shapes, type(ex).__name__, str(ex)[:80])
    if got.shape != out_shape and not (got.size == 1 and out_shape == (1, 1)):
        return '%s over shapes %r gives shape %r, expected %r (args %r)' % (name, shapes, got.shape, out_shape, [a.tolist() for a in arrays])
    got = got.reshape(out_shape)
    for i in range(out_shape[0]):
        for j in range(out_shape[1]):
            elems = [a[i if a.shape[0] > 1 else 0, j if a.shape[1] > 1 else 0] for a in arrays]
            want = _scalar(_call(name, elems))
            if not _eq(got[i, j], want):
                return '%s over shapes %r: element [%d,%d] is %r, the scalar rule on %r gives %r' % (name, shapes, i, j, got[i, j], elems, want)
    return None


ELEMENTWISE = ['+', '-', '*', '/', '&', '=', '<', 'ABS', 'ROUND', 'IF', 'CONCATENATE', 'LEFT', 'MOD', 'POWER', 'DATE', 'DAY', 'WEEKDAY', 'FACT', 'DECIMAL',
               'ISNUMBER', 'ISTEXT', 'ISNONTEXT', 'ISLOGICAL', 'ISBLANK', 'ISNA', 'ISERR', 'ISERROR']
ARITY = {'ISNUMBER': (1,), 'ISTEXT': (1,), 'ISNONTEXT': (1,), 'ISLOGICAL': (1,), 'ISBLANK': (1,), 'ISNA': (1,), 'ISERR': (1,), 'ISERROR': (1,), 'FACT': (1,), 'DECIMAL': (2,), 'DATE': (3,), 'DAY': (1,), 'WEEKDAY': (1, 2), 'ABS': (1,), 'ROUND': (2,), 'IF': (3,), 'CONCATENATE': (1, 2, 3, 5, 31, 32, 33, 40), 'LEFT': (2,), 'MOD': (2,), 'POWER': (2,)}


def _lift_cases(tier, rng):
    out = []
    base = [(1, 1), (1, 3), (3, 1), (3, 3), (2, 4), (1, 4), (2, 1), (4, 4)]
    for name in ELEMENTWISE:
        for n in ARITY.get(name, (2,)):
            if n <= 3:
                for shapes in itertools.product(base, repeat=n):
                    if _bshape(shapes):
                        out.append((name, shapes, rng.randrange(1 << 20)))
            else:
                for _ in range(12 if tier == 'quick' else 120):
                    top = rng.choice(base)
                    shapes = tuple(rng.choice([(1, 1), top, (1, top[1]), (top[0], 1)]) for _ in range(n))
                    out.append((name, shapes, rng.randrange(1 << 20)))
    if tier == 'thorough':
        out = out + [(n, s, rng.randrange(1 << 20)) for n, s, _ in out]
    return out


def _has_plain_text(case):
    name, shapes, seed = case
    for k, sh_ in enumerate(shapes):
        for v in _mkvals(sh_, seed + 31 * k, name, k).ravel().tolist():
            if isinstance(v, str) and type(v) is str:
                try:
                    float(v)
                except ValueError:
                    return True
    return False


def _classify_lift(case, detail):
    name, shapes, seed = case
    if len(shapes) >= 32:
        return 'KF-C05-2'
    if name in ('DAY', 'WEEKDAY', 'DATE') and 'gives shape (1, 1)' in detail and _has_plain_text(case):
        return 'KF-C05-3'
    return None


BOUNDED = [
    Stage('B1:fitting-a-value-into-a-destination-range', 'C05', _fit_cases, _check_fit,
          'all 16x16 combinations of value / destination shapes (scalar, 1xn, mx1, mxn, m,n <= 4) through 3 routes '
          '(Array.reshape, Ranges.set_value with an Array, a cell formula stored into a range)',
          classify=_classify_fit, exhaustive=True, max_report=400),
    Stage('B2:lifting-the-scalar-rule-element-wise', 'C05', _lift_cases, _check_lift,
          '27 operators / element-wise functions (the eight IS... functions, which have a loop of their own; every second case with its arrays in column-major memory order; incl. kernels that signal errors by exception, and FACT / DECIMAL whose exact integer results leave the 64-bit and the float range); all broadcastable shape combinations of 8 shapes for arity <= 3; CONCATENATE with '
          '1..40 arguments (both sides of the 32-argument split); element values of every kind; compared position by position with the '
          'same function applied to the broadcast scalars', classify=_classify_lift, max_report=400),
]

PROPERTIES = {
    'C05': dict(
        level='other',
        explanation=('Proved: fitting - Array.reshape on the real body for 8 source shapes x 9 destination shapes (68 pairs; numpy executed as the '
                     'container, all element values): a scalar fills, a single row / column repeats along the other dimension, surplus is dropped, '
                     'unreached cells hold #N/A; get_shape (and _shape under C06). Bounded: fitting of every value shape into every destination '
                     'shape (m,n <= 4) through four routes, and element-wise lifting of 14 operators / functions over all broadcastable shape '
                     'combinations and argument counts 1..40, against the scalar rule applied per position.'),
        assumptions=['numpy slicing / broadcast assignment / resize behave as in the installed numpy (they are executed, not modelled)'],
        not_proved=['lifting through np.vectorize and the >= 32-argument path; Ranges.set_value / _reshape_array_as_excel routes: bounded stage only',
                    'pairs of equal element count and different shape are the known finding KF-C05-1 (no contract is generated for them)'],
        bounded_rule='(route, value shape, destination shape) and (function, argument shapes, seed) cases',
    ),
}


# ====================================================================================
# proved: fitting a result into a destination shape (Array.reshape on the real body; numpy is the container, run
# natively, the elements are opaque cell values).  One contract per (source shape, destination shape): for ALL element
# values the destination holds, position by position, what the statement prescribes.  Pairs whose element counts are equal
# but whose shapes differ are the known finding KF-C05-1 (numpy's reshape re-flows them) and are left to the bounded stage.
from pyvc.contract import TypeGen, OpaqueT, ConstT
from pyvc.spec import same_object
from formulas.tokens.operand import NA as _NA

FIT_SRC = [(1, 1), (1, 2), (1, 3), (2, 1), (3, 1), (2, 2), (2, 3), (3, 2)]
FIT_DST = [(1, 1), (1, 2), (2, 1), (2, 2), (1, 3), (3, 1), (3, 3), (2, 4), (4, 2)]


class _ArrayT(TypeGen):
    """A formulas Array (ndarray subclass) of the given shape holding opaque cell values."""

    def __init__(self, shape):
        self.shape = shape

    def make(self, ctx, name):
        import numpy as np
        from formulas.functions import Array
        m, n = self.shape
        out = np.empty((m, n), object)
        for i in range(m):
            for j in range(n):
                out[i, j] = OpaqueT().make(ctx, '%s.%d.%d' % (name, i, j))
        return out.view(Array)


def lemma_fit(value, shape):
    from formulas.functions import Array
    return Array.reshape(value, shape)


def _fit_contract(src, dst):
    c = Contract(lambda: lemma_fit, dict(value=_ArrayT(src), shape=ConstT(dst)), 'C05',
                 name='Array.reshape[%dx%d into %dx%d]' % (src + dst), use=[])
    CONTRACTS.append(c)

    @c.ensures('scalar-fills-a-row-or-column-repeats-surplus-is-dropped-the-rest-is-NA', 'P')
    def _(value, shape, result):
        if result.shape != tuple(shape):
            return False
        ok = True
        for i in range(shape[0]):
            for j in range(shape[1]):
                ii = 0 if value.shape[0] == 1 else i
                jj = 0 if value.shape[1] == 1 else j
                if ii < value.shape[0] and jj < value.shape[1]:
                    ok = ok and same_object(result[i, j], value[ii, jj])
                else:
                    ok = ok and (result[i, j] is _NA)
        return ok

    @c.canary('canary:nothing-but-NA')
    def _(value, shape, result):
        return all(result[i, j] is _NA for i in range(shape[0]) for j in range(shape[1]))
    return c


for _s in FIT_SRC:
    for _d in FIT_DST:
        if _s[0] * _s[1] == _d[0] * _d[1] and _s != _d:
            continue                                  # KF-C05-1: equal counts, different shapes
        _fit_contract(_s, _d)


# a result WITHOUT axes (what an operator or an element-wise function returns for scalar operands: a 0-d Array) fills the destination
class _Array0dT(TypeGen):
    def make(self, ctx, name):
        import numpy as np
        from formulas.functions import Array
        out = np.empty((), object)
        out[()] = OpaqueT().make(ctx, name + '.item')
        return out.view(Array)


def _fit0d_contract(dst):
    c = Contract(lambda: lemma_fit, dict(value=_Array0dT(), shape=ConstT(dst)), 'C05',
                 name='Array.reshape[0-d into %dx%d]' % dst, use=[])
    CONTRACTS.append(c)

    @c.ensures('a-result-without-axes-fills-the-destination', 'P')
    def _(value, shape, result):
        if result.shape != tuple(shape):
            return False
        ok = True
        for i in range(shape[0]):
            for j in range(shape[1]):
                ok = ok and same_object(result[i, j], value[()])
        return ok

    @c.canary('canary:nothing-but-NA')
    def _(value, shape, result):
        return all(result[i, j] is _NA for i in range(shape[0]) for j in range(shape[1]))
    return c


for _d in FIT_DST:
    _fit0d_contract(_d)
