"""C14 — unresolvable functions and references degrade locally to error values (partial): DESIGN §4 C14."""
import ast as _ast
import schedula as sh
from pyvc.contract import Contract, FnT, OpaqueT, OneOf, ConstT, ObjT, TupleT
from pyvc.spec import n_calls, returned_by, raised_by
import itertools
from formulas.tokens.operand import NAME, REF
from formulas import errors as _E

CONTRACTS = []

# ------------------------------------------------------------------------------------ not_implemented
c_ni = Contract('formulas.functions:not_implemented', dict(args=TupleT(OpaqueT()), kwargs=ConstT({})), 'C14',
                name='not_implemented', use=[])
CONTRACTS.append(c_ni)


@c_ni.raises(NotImplementedError, 'always-raises-NotImplementedError', 'P')
def _(exc):
    return True


@c_ni.ensures('never-returns', 'P')
def _(result):
    return False


# ------------------------------------------------------------------------------------ the formula dispatcher's raises predicate
def _raises_predicate():
    from formulas.builder import AstBuilder
    return AstBuilder().dsp.raises


def _exc(cls):
    return ObjT(cls, {})


c_rp = Contract(_raises_predicate,
                dict(e=OneOf(_exc(NotImplementedError), _exc(_E.RangeValueError), _exc(_E.InvalidRangeError), _exc(ValueError),
                             _exc(KeyError), _exc(_E.FoundError), _exc(_E.BroadcastError), _exc(ZeroDivisionError))),
                'C14', name='AstBuilder.dsp.raises', use=[])
CONTRACTS.append(c_rp)
c_rp.no_native = True


@c_rp.ensures('unimplemented-function-and-missing-range-do-not-abort-the-dispatch', 'P')
def _(e, result):
    return result == (not isinstance(e, (NotImplementedError, _E.RangeValueError, _E.InvalidRangeError)))


@c_rp.canary('canary:nothing-aborts')
def _(e, result):
    return result is False


# ------------------------------------------------------------------------------------ CellWrapper.__call__
def _ident_args(*a):
    return a


def _ident_kwargs(**kw):
    return kw


DispErr = (sh.DispatcherError, {'ex': OneOf(_exc(NotImplementedError), _exc(ValueError), _exc(_E.RangeValueError))})
CellFn = FnT([DispErr, (ValueError, {}), (_E.RangeValueError, {}), (KeyError, {})])

c_cw = Contract('formulas.cell:CellWrapper.__call__',
                dict(self=ObjT('formulas.cell:CellWrapper', {'func': CellFn, 'parse_args': ConstT(_ident_args),
                                                              'parse_kwargs': ConstT(_ident_kwargs)}),
                     args=TupleT(OpaqueT()), kwargs=ConstT({})), 'C14', name='CellWrapper.__call__', use=[])
CONTRACTS.append(c_cw)
c_cw.no_native = True


@c_cw.ensures('an-unimplemented-function-gives-NAME-otherwise-the-cell-value', 'P')
def _(self, result):
    k, o = self.func.calls[0][2]
    if k == 'return':
        return result is o
    return isinstance(o, sh.DispatcherError) and isinstance(o.ex, NotImplementedError) and result is NAME


@c_cw.raises(Exception, 'every-other-failure-propagates-unchanged', 'P')
def _(self, exc):
    k, o = self.func.calls[0][2]
    return k == 'raise' and exc is o and not (isinstance(o, sh.DispatcherError) and isinstance(o.ex, NotImplementedError))


@c_cw.canary('canary:never-NAME')
def _(self, result):
    return result is not NAME


# ------------------------------------------------------------------------------------ tables
class _Table:
    def __init__(self, name, prop, fn):
        self.name, self.prop, self.fn = name, prop, fn

    def run(self):
        return self.fn()


def _function_table_default():
    import formulas
    from formulas.functions import not_implemented
    F = formulas.get_functions()
    import collections
    out = [dict(name='T:get_functions/unknown-name-maps-to-not_implemented', kind='P',
                ok=isinstance(F, collections.defaultdict) and F.default_factory is not None and F.default_factory() is not_implemented,
                detail='get_functions() must be a defaultdict whose factory returns not_implemented', witness='=NOSUCHFUNCTION(1)')]
    from formulas.functions.operators import OPERATORS
    out.append(dict(name='T:OPERATORS/unknown-operator-maps-to-not_implemented', kind='S',
                    ok=OPERATORS.default_factory is not None and OPERATORS.default_factory() is not_implemented, detail=''))
    return out


def _complete_handler_table():
    """Ground facts about the real ExcelModel.complete (behavioural, independent of how its handlers are written): whatever
    exception opening a linked workbook or sheet raises, completion continues and the node becomes a #REF! cell; a node whose
    name is no reference becomes a #REF! reference."""
    import logging
    import zipfile
    import xml.etree.ElementTree as ET
    import formulas
    from formulas.tokens.operand import XlError
    out = []
    logging.disable(logging.CRITICAL)
    try:
        kinds = [OSError('gone'), KeyError('Sheet9'), ValueError('bad'), zipfile.BadZipFile('not a zip'), ET.ParseError('xml'),
                 RuntimeError('x'), ZeroDivisionError(), AttributeError('a'), IndexError('i')]
        bad = []
        for exc in kinds:
            class M(formulas.ExcelModel):
                def add_book(self, book=None, context=None, data_only=False):
                    raise exc
            m = M()
            node = "'[gone.xlsx]SHEET1'!A1"
            other = "'[main.xlsx]S'!B1"
            try:
                m.from_dict({other: "=%s+1" % node, "'[main.xlsx]S'!C1": 5}, assemble=False)
                m.complete()
                m.finish(complete=False)
                sol = m.calculate()
                v = sol[node].value[0, 0] if node in sol else None
                w = sol[other].value[0, 0]
                c = sol["'[main.xlsx]S'!C1"].value[0, 0]
                if not (isinstance(v, XlError) and str(v) == '#REF!' and isinstance(w, XlError) and c == 5):
                    bad.append('%s: node %r dependent %r other %r' % (type(exc).__name__, v, w, c))
            except Exception as ex:
                bad.append('%s escaped as %s' % (type(exc).__name__, type(ex).__name__))
        out.append(dict(name='T:complete/missing-book-or-sheet-becomes-REF-and-completion-continues', ok=not bad, kind='P',
                        detail='opening the linked workbook failed with %d kinds of exception; not recovered: %s' % (len(kinds), bad[:4]),
                        witness="a cell referring to ='[gone.xlsx]Sheet1'!A1"))
        try:
            m = formulas.ExcelModel()
            m.from_dict({"'[main.xlsx]S'!B1": "=UNDEFINED_NAME+1", "'[main.xlsx]S'!C1": 5})
            sol = m.calculate()
            w, c = sol["'[main.xlsx]S'!B1"].value[0, 0], sol["'[main.xlsx]S'!C1"].value[0, 0]
            ok_ref, detail = isinstance(w, XlError) and c == 5, 'dependent %r other %r' % (w, c)
        except Exception as ex:
            ok_ref, detail = False, 'raised %s' % type(ex).__name__
        out.append(dict(name='T:complete/unparsable-reference-becomes-REF-and-completion-continues', ok=ok_ref, kind='P',
                        detail='a cell referring to an undefined name: ' + detail, witness='a cell referring to an undefined name'))
    finally:
        logging.disable(logging.NOTSET)
    return out


def _unknown_spellings_table():
    """Ground facts through the real Function token: a name that is not registered - a registered name with one extra
    leading character from the prefix alphabet, with or without the _xlfn. prefix, in either case - compiles to not_implemented."""
    import formulas
    from formulas.functions import not_implemented
    from formulas.tokens.function import Function
    F = formulas.get_functions()
    names = sorted(k for k in F if not k.startswith('_') and k.replace('.', '').isalnum())
    bad, n = [], 0
    for name in names:
        for extra in 'XLFN':
            for spelled in ('_xlfn.%s%s' % (extra, name), '_XLFN.%s%s' % (extra, name.lower()), '%s%s' % (extra, name)):
                key = spelled.upper()
                if key in F or key.replace('_XLFN.', '') in F and False:
                    continue
                n += 1
                try:
                    f = Function(spelled + '(').compile()
                except Exception as ex:
                    bad.append('%s: %s' % (spelled, type(ex).__name__))
                    continue
                if f is not not_implemented:
                    bad.append(spelled)
    return [dict(name='T:unknown-function-spellings-compile-to-not_implemented', kind='P', ok=not bad,
                 detail='%d of %d unregistered spellings are dispatched to an implemented function: %s' % (len(bad), n, bad[:6]),
                 witness='=%s(...)' % (bad[0] if bad else '_xlfn.XMATCH'))]


TABLES = [_Table('T:function-table-default', 'C14', _function_table_default), _Table('T:complete-handlers', 'C14', _complete_handler_table),
          _Table('T:unknown-function-spellings', 'C14', _unknown_spellings_table)]

# ------------------------------------------------------------------------------------ bounded: single formulas
from pyvc.bounded import Stage


def _scalar(v):
    import numpy as np
    if hasattr(v, 'value'):
        v = v.value
    return np.asarray(v, object).ravel()[0]


def _check_formula(case):
    """Unknown functions give #NAME?, undefined names #REF!, and IFERROR / ISERROR can intercept both; the parts of
    the formula that do not depend on the unresolved item keep their value."""
    from formulas.cell import Cell
    text, refs, want = case
    try:
        cell = Cell('A1', text).compile()
        dsp = sh.Dispatcher()
        cell.add(dsp)
        got = _scalar(dsp(dict(refs))[cell.output])
    except Exception as ex:
        return '%s raised %s: %s' % (text, type(ex).__name__, str(ex)[:100])
    ok = (got is want) if hasattr(want, 'startswith') and str(want).startswith('#') else (got == want)
    return None if ok else '%s = %r, expected %r' % (text, got, want)


def _formula_cases(tier, rng):
    return [
        ('=NOSUCHFUNCTION(1)', {}, NAME), ('=_xlfn.NOSUCHFUNCTION(1,2)', {}, NAME), ('=1+NOSUCHFUNCTION()', {}, NAME),
        ('=_xlfn.XMATCH(2,{1,2,3})', {}, NAME), ('=_xlfn.FSUM(1,2)', {}, NAME), ('=_xlfn.xxor(TRUE,TRUE)', {}, NAME), ('=INDEX({1,2,3},_xlfn.XMATCH(2,{1,2,3}))', {}, NAME),
        # not demanded: interception *inside* the same formula (=IFERROR(NOSUCH(1),5)): the statement says a formula
        # using an unimplemented function evaluates to #NAME?, which is what the whole-formula wrapper does
        ('=IFERROR(NOSUCHFUNCTION(1),5)', {}, NAME), ('=SUM(1,2)+NOSUCH(3)', {}, NAME),
        ('=UNDEFINED_NAME', {}, REF), ('=UNDEFINED_NAME+1', {}, REF), ('=IFERROR(UNDEFINED_NAME,9)', {}, 9),
        ('=ISERROR(UNDEF_A)', {}, True), ('=IF(ISERROR(UNDEF_A),1,2)+IF(ISERROR(UNDEF_B),10,20)', {}, 11),
        ('=IFERROR(UNDEF_A,1)+IFERROR(UNDEF_B,1)', {}, 2), ('=IF(FALSE,UNDEF_A,UNDEF_B)', {}, REF),
        ('=#REF!+1', {}, REF), ('=IFERROR(#REF!,4)', {}, 4), ('=ISERROR(#REF!)', {}, True),
        # undefined names that begin with a letter outside ASCII
        ('=übersicht*2', {}, REF), ('=IFERROR(Été_2024,7)', {}, 7), ('=ISERROR(α_rate)', {}, True), ('=ñame+1', {}, REF),
        # references into a deleted sheet, as Excel rewrites them
        ('=#REF!A1+1', {}, REF), ('=IFERROR(#REF!$A$1,4)', {}, 4), ('=SUM(#REF!A1:B2)', {}, REF), ('=ISERROR(#REF!A:A)', {}, True),
    ]


# ------------------------------------------------------------------------------------ bounded: faults injected into a workbook
HEALTHY = {'A1': 7, 'A2': 3, 'C1': '=A1+A2', 'C2': '=A1+DATA!Z99', 'C3': "='[ext.xlsx]DATA'!A1+1", 'C4': '=SUM(A1:A2)', 'C5': '=IF(A1>5,"big","small")'}
FAULTS = [
    ("='Nope'!A1", ('#REF!',)),                      # absent sheet of the main workbook
    ("='[ext.xlsx]Zed'!A1", ('#REF!',)),             # absent sheet of a readable linked workbook
    ("='[gone.xlsx]S'!A1", ('#REF!',)),              # absent workbook file
    ('=NOSUCHFN(A1)', ('#NAME?',)),                  # unknown function
    ('=_xlfn.FUTUREFN(A1,2)', ('#NAME?',)),          # unknown function with the _xlfn. prefix
    ('=UNDEFINED_NAME+1', ('#REF!', '#NAME?')),      # undefined name
    ("='[bad.xlsx]S'!A1", ('#REF!',)),               # workbook file present but unreadable (not a zip archive)
    ('=#REF!A1+1', ('#REF!',)),                      # reference into a deleted sheet, as Excel rewrites it
]


def _fault_cases(tier, rng):
    n = len(FAULTS)
    return [('faults', mask) for mask in range(1 << n)]


_BASELINE = {}


def _run_book(mask):
    import logging
    import os
    import shutil
    import tempfile
    import numpy as np
    import openpyxl
    import formulas
    logging.disable(logging.CRITICAL)
    d = tempfile.mkdtemp(prefix='verif_c14_')
    try:
        ext = openpyxl.Workbook()
        ext.active.title = 'DATA'
        ext.active['A1'] = 42
        ext.save(os.path.join(d, 'ext.xlsx'))
        with open(os.path.join(d, 'bad.xlsx'), 'wb') as f:
            f.write(b'this is not a workbook')
        wb = openpyxl.Workbook()
        ws = wb.active
        ws.title = 'DATA'
        for ref, v in HEALTHY.items():
            ws[ref] = v
        for k, (text, _) in enumerate(FAULTS):
            if mask >> k & 1:
                ws['F%d' % (k + 1)] = text
                ws['G%d' % (k + 1)] = '=IFERROR(F%d,"caught")' % (k + 1)
                ws['H%d' % (k + 1)] = '=ISERROR(F%d)' % (k + 1)
                ws['I%d' % (k + 1)] = '=F%d+A1' % (k + 1)
        path = os.path.join(d, 'main.xlsx')
        wb.save(path)
        m = formulas.ExcelModel().loads(path).finish()
        sol = m.calculate()
        vals = {}
        for k, v in sol.items():
            ks = str(k).upper()
            if ks.startswith("'[MAIN.XLSX]DATA'!") and hasattr(v, 'value') and ':' not in ks.split('!')[-1]:
                vals[ks.split('!')[-1]] = np.asarray(v.value, object).ravel()[0]
        return vals
    finally:
        logging.disable(logging.NOTSET)
        shutil.rmtree(d, ignore_errors=True)


def _check_faults(case):
    """Every subset of the six faults injected into one workbook: loading, completion and calculation succeed; the cells
    that do not depend on a fault keep the value they have in the fault-free workbook; a faulty cell holds an ordinary error
    value which IFERROR / ISERROR intercept and which propagates through arithmetic."""
    from formulas.tokens.operand import XlError
    _, mask = case
    try:
        if 0 not in _BASELINE:
            _BASELINE[0] = _run_book(0)
        base = _BASELINE[0]
        vals = base if mask == 0 else _run_book(mask)
    except Exception as ex:
        return 'faults %s: loading / calculation raised %s: %s' % (_names(mask), type(ex).__name__, str(ex)[:120])
    want = {'C1': 10, 'C2': 7, 'C3': 43, 'C4': 10, 'C5': 'big'}
    for ref, w in want.items():
        g = vals.get(ref)
        if isinstance(g, XlError) or g is None or not (g == w):
            return 'faults %s: healthy cell %s = %s shows %r, without the faults it is %r' % (_names(mask), ref, HEALTHY[ref], g, w)
    for k, (text, errs) in enumerate(FAULTS):
        if not (mask >> k & 1):
            continue
        f, g, h, i_ = (vals.get('%s%d' % (c, k + 1)) for c in 'FGHI')
        if not (isinstance(f, XlError) and str(f) in errs):
            return 'faults %s: %s evaluates to %r, expected %s' % (_names(mask), text, f, ' or '.join(errs))
        if g != 'caught' or h is not True and h != True:
            return 'faults %s: IFERROR / ISERROR over %s give %r / %r' % (_names(mask), text, g, h)
        if not isinstance(i_, XlError):
            return 'faults %s: %s + A1 is %r, expected the error to propagate' % (_names(mask), text, i_)
    return None


def _names(mask):
    return [FAULTS[k][0] for k in range(len(FAULTS)) if mask >> k & 1]


# ------------------------------------------------------------------------------------ bounded: numbered links ([n]Sheet!A1)
# A workbook whose link table (as Excel numbers it) mixes readable .xlsx workbooks, absent .xlsx workbooks and workbooks of other
# formats: the index n denotes the n-th entry of the table whatever the other entries are.
_LINK_TARGETS = {'ok': 'data.xlsx', 'absent': 'gone.xlsx', 'xls': 'legacy.xls', 'xlsm': 'macro.xlsm'}


def _link_cases(tier, rng):
    kinds = list(_LINK_TARGETS)
    out = []
    for n in (1, 2, 3):
        for combo in itertools.product(kinds, repeat=n):
            if combo.count('ok') <= 1 and combo.count('absent') <= 1 and combo.count('xls') <= 1 and combo.count('xlsm') <= 1:
                out.append(('links', combo))
    return out


def _check_links(case):
    import logging
    import os
    import shutil
    import tempfile
    import numpy as np
    import openpyxl
    import formulas
    from openpyxl.packaging.relationship import Relationship
    from openpyxl.workbook.external_link.external import ExternalLink, ExternalBook, ExternalSheetNames
    from formulas.tokens.operand import XlError
    _, combo = case
    logging.disable(logging.CRITICAL)
    d = tempfile.mkdtemp(prefix='verif_c14l_')
    try:
        data = openpyxl.Workbook()
        data.active.title = 'S'
        data.active['A1'], data.active['A2'] = 42, 8
        data.save(os.path.join(d, 'data.xlsx'))
        wb = openpyxl.Workbook()
        ws = wb.active
        ws.title = 'S'
        ws['A1'], ws['A2'], ws['A3'] = 7, 3, '=A1+A2'
        for i, kind in enumerate(combo):
            ws['F%d' % (i + 1)] = '=[%d]S!A1' % (i + 1)
            ws['G%d' % (i + 1)] = '=IFERROR([%d]S!A1,"gone")' % (i + 1)
            ws['H%d' % (i + 1)] = '=SUM([%d]S!A1:A2)' % (i + 1)
            el = ExternalLink(externalBook=ExternalBook(sheetNames=ExternalSheetNames(sheetName=['S'])))
            el.file_link = Relationship(type='externalLinkPath', Target=_LINK_TARGETS[kind], TargetMode='External')
            wb._external_links.append(el)
        path = os.path.join(d, 'main.xlsx')
        wb.save(path)
        try:
            sol = formulas.ExcelModel().loads(path).finish().calculate()
        except Exception as ex:
            return 'links %r: loading / calculation raised %s: %s' % (combo, type(ex).__name__, str(ex)[:100])

        def val(ref):
            k = "'[main.xlsx]S'!%s" % ref
            v = sol.get(k)
            return np.asarray(v.value, object).ravel()[0] if v is not None else None
        if val('A3') != 10:
            return 'links %r: the healthy cell A3 = A1+A2 shows %r' % (combo, val('A3'))
        for i, kind in enumerate(combo):
            f, g, h = val('F%d' % (i + 1)), val('G%d' % (i + 1)), val('H%d' % (i + 1))
            if kind == 'ok':
                if isinstance(f, XlError) or f != 42 or g != 42 or h != 50:
                    return 'links %r: [%d] is the readable workbook, but [%d]S!A1 = %r, IFERROR = %r, SUM = %r (42, 42, 50)' % (combo, i + 1, i + 1, f, g, h)
            else:
                if not (isinstance(f, XlError) and str(f) in ('#REF!', '#NAME?')) or g != 'gone' or not isinstance(h, XlError):
                    return 'links %r: [%d] is %s, but [%d]S!A1 = %r, IFERROR = %r, SUM = %r (expected #REF!, "gone", an error)' % (
                        combo, i + 1, _LINK_TARGETS[kind], i + 1, f, g, h)
        return None
    finally:
        logging.disable(logging.NOTSET)
        shutil.rmtree(d, ignore_errors=True)


# ------------------------------------------------------------------------------------ bounded: a workbook that disappears between two loads
def _vanish_cases(tier, rng):
    return [('vanish', how) for how in ('deleted', 'overwritten-with-garbage', 'renamed', 'replaced-by-another-workbook')]


def _check_vanish(case):
    """One process, one directory: a model is loaded while the linked workbook is there (value 43), the linked file is then removed /
    damaged / replaced, and a NEW model is loaded: what it shows is the state of the files now, whatever was loaded before."""
    import logging
    import os
    import shutil
    import tempfile
    import numpy as np
    import openpyxl
    import formulas
    from formulas.tokens.operand import XlError
    _, how = case
    logging.disable(logging.CRITICAL)
    d = tempfile.mkdtemp(prefix='verif_c14v_')
    try:
        def book(path, v):
            wb = openpyxl.Workbook()
            wb.active.title = 'DATA'
            wb.active['A1'] = v
            wb.save(path)
        ext = os.path.join(d, 'ext.xlsx')
        book(ext, 42)
        wb = openpyxl.Workbook()
        ws = wb.active
        ws.title = 'S'
        ws['A1'], ws['A2'] = 7, '=A1+1'
        ws['B1'] = "='[ext.xlsx]DATA'!A1+1"
        ws['B2'] = "=IFERROR('[ext.xlsx]DATA'!A1,\"gone\")"
        main = os.path.join(d, 'main.xlsx')
        wb.save(main)

        def run():
            sol = formulas.ExcelModel().loads(main).finish().calculate()
            return {r: np.asarray(sol["'[main.xlsx]S'!%s" % r].value, object).ravel()[0] for r in ('A2', 'B1', 'B2')}
        first = run()
        if first != {'A2': 8, 'B1': 43, 'B2': 42}:
            return 'with the linked workbook present the cells are %r' % (first,)
        if how == 'deleted':
            os.remove(ext)
        elif how == 'renamed':
            os.rename(ext, os.path.join(d, 'moved.xlsx'))
        elif how == 'overwritten-with-garbage':
            with open(ext, 'wb') as f:
                f.write(b'not a workbook any more')
        else:
            os.remove(ext)
            book(ext, 100)
        try:
            second = run()
        except Exception as ex:
            return 'linked workbook %s after a first load: loading raised %s: %s' % (how, type(ex).__name__, str(ex)[:100])
        if second['A2'] != 8:
            return 'linked workbook %s: the independent cell A2 shows %r' % (how, second['A2'])
        if how == 'replaced-by-another-workbook':
            ok = second['B1'] == 101 and second['B2'] == 100
        else:
            ok = isinstance(second['B1'], XlError) and second['B2'] == 'gone'
        return None if ok else 'linked workbook %s after it had been loaded once in this process: B1 = %r, IFERROR = %r (the files now say %s)' % (
            how, second['B1'], second['B2'], '101 / 100' if how.startswith('replaced') else '#REF! / "gone"')
    finally:
        logging.disable(logging.NOTSET)
        shutil.rmtree(d, ignore_errors=True)


BOUNDED = [
    Stage('B4:a-linked-workbook-that-disappears-between-two-loads', 'C14', _vanish_cases, _check_vanish,
          'a linked workbook is loaded once, then deleted / renamed / overwritten with garbage / replaced, and a new model is loaded in the same '
          'process: the missing workbook gives #REF! (intercepted by IFERROR), a replaced one its new values, independent cells keep theirs',
          parallel=False),
    Stage('B3:numbered-links-denote-the-entries-of-the-link-table', 'C14', _link_cases, _check_links,
          'workbooks with 1..3 numbered external links, each a readable .xlsx, an absent .xlsx, an .xls or an .xlsm workbook (every arrangement with '
          'distinct kinds): [n]S!A1 is the value of the n-th linked workbook or #REF!, intercepted by IFERROR, and the other cells keep their values',
          parallel=True, weight=lambda c: 1),
    Stage('B2:every-subset-of-faults-injected-into-a-workbook', 'C14', _fault_cases, _check_faults,
          'all 256 subsets of 8 faults (absent sheet, absent sheet of a readable linked workbook, absent file, unreadable file, unknown '
          'function, _xlfn. function, undefined name) injected into a workbook with a linked workbook: loads and calculates, healthy cells keep their values, '
          'faulty cells hold an error that IFERROR / ISERROR intercept and arithmetic propagates', parallel=True, weight=lambda c: 1),
    Stage('B1:single-formulas-with-unresolved-items', 'C14', _formula_cases, _check_formula,
          '27 formulas with unknown functions (incl. _xlfn.), undefined names (also with letters outside ASCII) and #REF! literals, bare and under IFERROR / ISERROR / IF',
          parallel=False),
]

PROPERTIES = {
    'C14': dict(
        level='other',
        explanation=(
            'Partial. Proved: an unknown name maps to a callable that always raises NotImplementedError; the formula dispatcher lets '
            'exactly NotImplementedError / RangeValueError / InvalidRangeError pass; the cell wrapper turns a dispatcher error caused by '
            'NotImplementedError into #NAME? and propagates everything else unchanged. Tables: the default of the function table, the '
            'two recovery paths of ExcelModel.complete (the real method run with add_book failing in nine ways). Bounded: single formulas with unresolved items; every subset of eight '
            'faults (absent sheet, absent sheet of a linked workbook, absent file, unreadable file, unknown function, _xlfn. function, undefined name) injected '
            'into one workbook: it loads and calculates, healthy cells keep their fault-free values, faulty cells hold interceptable errors.'),
        assumptions=['schedula wraps an exception of a node function into DispatcherError(ex=...) when raises(ex) is true (assumed)'],
        not_proved=['locality across the workbook (every unaffected cell keeps its value): whole-model - bounded stage B2 only (one workbook shape, 256 fault subsets)'],
    ),
}
