"""C18 — the parser is total: it returns a formula or its syntax error, only (DESIGN §4 C18, A.8)."""
import itertools
from pyvc.bounded import Stage
from contracts import specparser as SP

CONTRACTS = []

ALPHABET = [('num', '1'), ('num', '2.5'), ('num', '007'), ('num', '1E+3'), ('ref', 'A1'), ('ref', 'B2'), ('str', 'x'), ('err', '#N/A'),
            ('op', '+'), ('op', '-'), ('op', '*'), ('op', '/'), ('op', '^'), ('op', '&'), ('op', '='), ('op', '<>'), ('op', '<'),
            ('op', '>='), ('pct', '%'), ('lpar', '('), ('rpar', ')'), ('comma', ','), ('fn', 'SUM'), ('fn', 'IF'), ('lbrace', '{'),
            ('rbrace', '}'), ('semi', ';'), ('ref', 'x1'), ('num', '.5'), ('str', '')]


def _run(text):
    """-> ('ok', exported text) | ('syntax', '') | ('foreign', exception description)"""
    import formulas
    from formulas.errors import FormulaError
    try:
        b = formulas.Parser().ast(text)[1]
        return 'ok', b[-1].get_expr
    except FormulaError:
        return 'syntax', ''
    except Exception as ex:
        return 'foreign', '%s: %s' % (type(ex).__name__, str(ex)[:80])


def _check_soup(case):
    toks = [ALPHABET[i] for i in case]
    text = SP.text_of(toks)
    kind, detail = _run(text)
    if kind == 'foreign':
        return '%r raised %s instead of the formula-syntax error' % (text, detail)
    tree = SP.accepts(toks)
    if tree is None and kind == 'ok':
        return '%r is outside the grammar but was accepted and read as %s' % (text, detail)
    return None


WORDLIKE = {'num', 'ref', 'str', 'err', 'fn'}


def _separable(case):
    """Adjacent word-like tokens would merge into one lexeme when concatenated ('1' '1' -> '11'): such
    token strings have no faithful spelling and are skipped."""
    kinds = [ALPHABET[i][0] for i in case]
    if any(a == 'ref' and b == 'lpar' for a, b in zip(kinds, kinds[1:])):
        return False          # 'A1' '(' spells the function call A1(
    texts = [ALPHABET[i][1] for i in case]
    cmp_ = {'=', '<>', '<', '>='}
    if any(a in cmp_ and b in cmp_ for a, b in zip(texts, texts[1:])):
        return False          # '<' '=' spells the operator <=
    return not any(a in WORDLIKE and b in WORDLIKE for a, b in zip(kinds, kinds[1:]))


def _soup_cases(tier, rng):
    n = len(ALPHABET)
    out = []
    for k in (1, 2, 3):
        out.extend(c for c in itertools.product(range(n), repeat=k) if _separable(c))
    if tier == 'thorough':
        out.extend(c for c in itertools.product(range(n), repeat=4) if _separable(c))
    else:
        for _ in range(30000):
            c = tuple(rng.randrange(n) for _ in range(rng.choice([4, 5, 6])))
            if _separable(c):
                out.append(c)
    return out


def _shape(kinds, texts=None):
    """Token-pattern facts used to recognise the known acceptance defects."""
    facts = set()
    stack = []
    prev = None
    texts = texts or [None] * len(kinds)
    for k, tx in zip(kinds, texts):
        if k == 'op' and tx not in ('+', '-') and prev in (None, 'lpar', 'fn', 'comma', 'lbrace', 'semi', 'op'):
            facts.add('binary-operator-without-left-operand')
        if prev == 'op' and k in ('rpar', 'rbrace', 'comma', 'semi'):
            facts.add('operator-without-right-operand')
        if k in ('lpar', 'fn', 'lbrace'):
            stack.append(k)
        elif k == 'rpar':
            if not stack:
                facts.add('close-without-open')
            elif stack.pop() == 'lbrace':
                facts.add('bracket-kind-mismatch')
        elif k == 'rbrace':
            if prev in ('comma', 'semi', 'lbrace') and stack and stack[-1] == 'lbrace':
                facts.add('empty-array-element')
            if not stack:
                facts.add('close-without-open')
            elif stack.pop() != 'lbrace':
                facts.add('bracket-kind-mismatch')
        elif k == 'comma' and (not stack or stack[-1] == 'lpar'):
            facts.add('top-level-comma')        # a separator outside any function / array
        elif k == 'semi' and (not stack or stack[-1] != 'lbrace'):
            facts.add('semi-outside-braces')
        if k == 'pct' and prev in (None, 'comma', 'lpar', 'fn', 'op', 'lbrace', 'semi'):
            facts.add('percent-without-operand')
        if prev in ('rpar', 'rbrace') and k in ('num', 'ref', 'str', 'err', 'lpar', 'fn', 'lbrace'):
            facts.add('operand-after-close')
        if prev in ('num', 'ref', 'str', 'err', 'pct') and k in ('lpar', 'lbrace'):
            facts.add('open-after-operand')
        if prev == 'pct' and k in ('num', 'ref', 'str', 'err', 'fn', 'lpar', 'lbrace'):
            facts.add('operand-after-percent')
        if stack and stack[-1] == 'lbrace' and k in ('comma', 'semi') and prev in ('lbrace', 'comma', 'semi'):
            facts.add('empty-array-element')
        if k == 'rbrace' and prev in ('comma', 'semi', 'lbrace'):
            facts.add('empty-array-element')
        prev = k
    return facts


def _classify_soup(case, detail):
    toks = [ALPHABET[i] for i in case]
    kinds = [k for k, _ in toks]
    if 'Invalid output id' in detail or 'is not a data node' in detail or 'ValueError: Invalid data id' in detail:
        return 'KF-C18-1'
    if 'outside the grammar' in detail:
        f = _shape(kinds, [t for _, t in toks])
        if f & {'close-without-open', 'operand-after-close', 'open-after-operand'}:
            return 'KF-C18-2'
        if f & {'percent-without-operand', 'operand-after-percent'}:
            return 'KF-C18-3'
        if 'top-level-comma' in f:
            return 'KF-C18-4'
        if f & {'bracket-kind-mismatch', 'semi-outside-braces'}:
            return 'KF-C18-5'
        if 'empty-array-element' in f:
            return 'KF-C18-7'
        if f & {'binary-operator-without-left-operand', 'operator-without-right-operand'}:
            return 'KF-C18-8'
    return None


# ---- single-edit mutations of valid formulas and random printable strings: no foreign exception escapes ----
VALID = ['=1+2*3', '=SUM(A1:B2,3)', '=IF(A1>=-1,"y",0)', '={1,2;3,4}', '=-A1%', '="a"&"b"""', '=(1+2)*3^2', '=SUM(1,,3)', "='My Sheet'!A1+1",
         '=A1:B2 B1:C3', '=MAX(1,IF(TRUE,2,3))%', '=1E+5/.5', '=#N/A', '=TRUE=FALSE']
PIECES = ['(', ')', ',', ';', '{', '}', '+', '-', '*', '%', '"', "'", '!', ':', ' ', '1', 'A1', 'SUM(', '#REF!', '.', 'E', '$', '\t', '=', '<', '&', '^', '~', '@']


def _edit_cases(tier, rng):
    out = set()
    for f in VALID:
        for i in range(1, len(f) + 1):
            out.add(f[:i - 1] + f[i:]) if i > 1 else None
            for p in PIECES:
                out.add(f[:i] + p + f[i:])
                if i < len(f):
                    out.add(f[:i] + p + f[i + 1:])
    n = 3000 if tier == 'quick' else 300000
    alphabet = ''.join(chr(c) for c in range(32, 127)) + '\t\n'
    for _ in range(n):
        out.add('=' + ''.join(rng.choice(alphabet) for _ in range(rng.randrange(0, 12))))
    for _ in range(n // 3):
        out.add(''.join(rng.choice(alphabet) for _ in range(rng.randrange(0, 8))))
    # very long numeric literals (CPython refuses to convert more than 4300 digits to an int: KF-C18-11)
    out.add('=' + '1' * 5000)
    out.add('=1+' + '7' * 4301)
    out.add('=' + '1' * 4000)
    return sorted(out)


def _check_text(text):
    kind, detail = _run(text)
    if kind == 'foreign':
        return '%r raised %s instead of the formula-syntax error' % (text, detail)
    return None


def _classify_text(case, detail):
    if 'Invalid output id' in detail or 'is not a data node' in detail or 'ValueError: Invalid data id' in detail:
        return 'KF-C18-1'
    if "KeyError: '\\t'" in detail and '\t' in case:
        return 'KF-C18-6'
    if len(case) > 4300 and 'ValueError' in detail and 'integer string conversion' in detail:
        return 'KF-C18-11'
    return None


def _literal_cases(tier, rng):
    out = []
    for i in range(0, 40):
        out.append('%d' % i)
        out.append('%03d' % i)
        out.append('%d.%d' % (i, i))
        out.append('.%d' % (i + 1))
        out.append('0%d.50' % i)
        out.append('%dE+%d' % (i, i % 7))
        out.append('%d.5E-%d' % (i, i % 5))
        out.append('%de+2' % i)
    for e in ERROR_LITERALS:
        out += [e, e.lower(), e.capitalize()]
    return out


ERROR_LITERALS = ['#NULL!', '#DIV/0!', '#VALUE!', '#REF!', '#NUM!', '#NAME?', '#N/A']


def _check_literal(lit):
    import formulas
    if lit.startswith('#'):
        # error literals in any letter case denote the error value (and never raise a foreign exception)
        import numpy as np
        from formulas.tokens.operand import XlError
        for text in ('=' + lit, '=' + lit + '+1', '=ISERROR(' + lit + ')'):
            try:
                v = np.asarray(formulas.Parser().ast(text)[1].compile()(), object).ravel()[0]
            except Exception as ex:
                return 'error literal in %r raised %s' % (text, type(ex).__name__)
            want = True if text.startswith('=ISERROR') else lit.upper()
            if not ((v is True or v == True) if want is True else (isinstance(v, XlError) and str(v) == want)):   # noqa: E712
                return 'error literal in %r evaluates to %r' % (text, v)
        return None
    try:
        v = formulas.Parser().ast('=' + lit)[1].compile()()
        import numpy as np
        v = np.asarray(v, object).ravel()[0]
    except Exception as ex:
        return 'numeric literal %r raised %s' % (lit, type(ex).__name__)
    return None if float(v) == float(lit) else 'numeric literal %r has value %r' % (lit, v)


def _array_cases(tier, rng):
    out = []
    for nrows in (1, 2, 3, 4):
        for lens in itertools.product((1, 2, 3), repeat=nrows):
            out.append(lens)
    return out


def _check_array(lens):
    body = ';'.join(','.join(str(i + 1) for i in range(n)) for n in lens)
    rect = len(set(lens)) == 1
    for text in ('={%s}' % body, '=SUM({%s})' % body, '=1+{%s}*2' % body):
        kind, detail = _run(text)
        if kind == 'foreign':
            return '%r raised %s' % (text, detail)
        if rect and kind != 'ok':
            return 'rectangular array literal %r was rejected' % text
        if not rect and kind == 'ok':
            return 'ragged array literal %r was accepted and read as %s' % (text, detail)
    return None


# ---- listed texts outside the grammar that no generator above spells (each must be rejected with the syntax error) ----
LISTED_MALFORMED = ['=ANCHORARRAY(A1:B2)', '=ANCHORARRAY(A1:B2)+1', '=1< >2', '=1<  =2', '=1> =2', '=A1< >B1', '={1))', '=(1}', '={1)', '=1 2',
                    '="a" "b"', '=SUM("" 2)', '=SUM(""2)', '=SUM(2 "")', '=IF(A1,"" "x")', '={"" 1,2}', '=COUNTA("" A1)', '="" 2', '=SUM(1 "")', '=1+', '=*2', '=SUM(1', '=SUM 1)', '=1)', '=((1)', '={1,2;3}', '=#REF', '=1..2', '=1E', '=1e+']


def _check_listed(text):
    kind, detail = _run(text)
    if kind == 'foreign':
        return '%r raised %s instead of the formula-syntax error' % (text, detail)
    if kind == 'ok':
        return '%r is outside the grammar but was accepted and read as %s' % (text, detail)
    return None


def _classify_listed(text, detail):
    if 'ANCHORARRAY' in text and 'DispatcherError' in detail:
        return 'KF-C18-9'
    if 'accepted' in detail and any(x in text.replace('  ', ' ') for x in ('< >', '< =', '> =')):
        return 'KF-C18-10'
    if text == '={1))' and 'accepted' in detail:
        return 'KF-C18-5'
    return None


BOUNDED = [
    Stage('B1:listed-malformed-texts', 'C18', lambda tier, rng: list(LISTED_MALFORMED), _check_listed,
          '%d listed texts outside the grammar (spill operator on a range, blanks inside a two-character operator, mixed brackets, missing '
          'operands, truncated literals): each is rejected with the syntax error' % len(LISTED_MALFORMED), parallel=False,
          classify=_classify_listed, case_timeout=5.0),
    Stage('B1:array-literal-shapes', 'C18', _array_cases, _check_array,
          'array literals with 1..4 rows of every combination of lengths 1..3 (120 shapes) in three contexts: rectangular accepted, ragged rejected',
          exhaustive=True, parallel=False, case_timeout=5.0),
    Stage('B1:token-soups', 'C18', _soup_cases, _check_soup,
          'all token strings of length <= 3 over a 30-token alphabet (27 930) plus 20 000 random of length 4..6 (quick) / all of length 4 '
          '(810 000, thorough): only the formula-syntax error escapes; text outside the grammar (spec recogniser) is rejected',
          classify=_classify_soup, max_report=30, exact_file='known_findings_data/C18_token_soups.json',
          exact_applies=lambda case: len(case) <= 4, case_key=lambda case: SP.text_of([ALPHABET[i] for i in case]), case_timeout=5.0),
    Stage('B1:single-edits-and-random-strings', 'C18', _edit_cases, _check_text,
          'every single delete / insert / replace of 29 pieces in 14 valid formulas, plus random printable strings (4000 quick / 80 000 '
          'thorough): only the formula-syntax error escapes', classify=_classify_text, max_report=30, case_timeout=5.0),
    Stage('B1:numeric-literals', 'C18', _literal_cases, _check_literal,
          '320 numeric literals (leading zeros, decimals, exponents): accepted with their numeric value; the 7 error literals in 3 letter cases denote their error value', parallel=False, case_timeout=5.0),
]

PROPERTIES = {
    'C18': dict(
        level='other',
        explanation=(
            'Bounded stand-in in this version: token strings over a 30-token alphabet (exhaustive to length 3 quick / 4 thorough), single edits '
            'of valid formulas and random printable strings through the real Parser.ast: only the formula-syntax error may escape, and text the '
            'spec recogniser rejects must be rejected; numeric literals (leading zeros, decimals, exponents) are accepted with their value. '
            'Table obligation: the error-class hierarchy.'),
        assumptions=['the spec recogniser in contracts/specparser.py is the grammar of the statement'],
        not_proved=['termination of the tokeniser loop (variant len(expr)) and the handlers\' exception sets: pending loop-invariant support'],
        bounded_rule='token strings / edited formulas / random strings; distinct = distinct texts',
    ),
}


class _Table:
    def __init__(self, name, prop, fn):
        self.name, self.prop, self.fn = name, prop, fn

    def run(self):
        return self.fn()


def _hierarchy():
    from formulas import errors as E
    out = []
    for c in ('TokenError', 'ParenthesesError', 'FunctionError'):
        out.append(dict(name='T:errors/%s-is-a-FormulaError' % c, kind='P', ok=issubclass(getattr(E, c), E.FormulaError),
                        detail='%s must derive from FormulaError (the parser\'s only escaping error)' % c, witness='=(1'))
    out.append(dict(name='T:errors/FormulaError-is-a-BaseError', kind='S', ok=issubclass(E.FormulaError, E.BaseError), detail=''))
    return out


TABLES = [_Table('T:error-hierarchy', 'C18', _hierarchy)]


# ====================================================================================
# proved part: progress of the tokeniser.  Token.__init__ (shared by every token class in Parser.filters; none overrides it)
# either raises TokenError or has consumed at least one character, whatever the class's regex matches and whatever its
# process() extracts (both abstract here).  With the loop-shape facts below, len(expr) strictly decreases in every iteration
# of Parser.ast's main loop, so the parser terminates on every input.
from pyvc.contract import Contract, ObjT, FnT, OneOf, ConstT, IntT, StrT, RecordT, TypeGen, OpaqueT
from pyvc.values import Obj as _Obj


from formulas.errors import TokenError as _TokenError


class _MatchT(TypeGen):
    """A regex match object: only end(0) is used, an integer between 0 and the length of the subject (assumed of `regex`)."""

    def make(self, ctx, name):
        import formulas.tokens as _T
        o = _Obj(_FakeMatch, {})
        o.method_overrides = {'end': FnT([], result=IntT(0, 10 ** 6)).make(ctx, name + '.end')}
        return o


class _FakeMatch:
    pass


class _TokenT(ObjT):
    def __init__(self, cls):
        super().__init__(cls, {})

    def make(self, ctx, name):
        o = super().make(ctx, name)
        o.method_overrides = {
            'match': FnT([], result=OneOf(ConstT(None), _MatchT())).make(ctx, name + '.match'),
            'process': FnT([], result=OneOf(ConstT({}), RecordT({'name': StrT()}))).make(ctx, name + '.process'),
        }
        return o


def lemma_token_init(self, s):
    from formulas.tokens import Token
    Token.__init__(self, s)
    return self.end_match


c_tok = Contract(lambda: lemma_token_init, dict(self=_TokenT('formulas.tokens.operand:Number'), s=StrT()), 'C18',
                 name='Token.__init__', use=[], frame=('self',))
CONTRACTS.append(c_tok)


@c_tok.ensures('a-constructed-token-has-consumed-at-least-one-character', 'P')
def _(self, s, result):
    return isinstance(result, int) and result >= 1 and len(self.attr) > 0


@c_tok.raises(_TokenError, 'only-the-token-error-signals-no-match', 'P')
def _(self, s, exc):
    return True


@c_tok.canary('canary:may-consume-nothing')
def _(self, s, result):
    return result == 0


def _loop_shape():
    """Ground facts about the AST of Parser.ast (kind S): the main loop is `while expr:`; every normal completion of one
    iteration goes through `expr = expr[token.end_match:]`; the for-else raises; no filter class overrides __init__."""
    import ast as _ast
    from pyvc.interp import file_ast
    import formulas.parser as P
    from formulas.tokens import Token
    tree = file_ast(P.__file__)[0]
    fn = next(n for n in _ast.walk(tree) if isinstance(n, _ast.FunctionDef) and n.name == 'ast')
    loops = [n for n in _ast.walk(fn) if isinstance(n, _ast.While)]

    def shrinks(node, var):
        """node is `var = var[<x>.end_match:]` (any names)"""
        return (isinstance(node, _ast.Assign) and len(node.targets) == 1 and isinstance(node.targets[0], _ast.Name) and node.targets[0].id == var
                and isinstance(node.value, _ast.Subscript) and isinstance(node.value.value, _ast.Name) and node.value.value.id == var
                and isinstance(node.value.slice, _ast.Slice) and node.value.slice.upper is None and node.value.slice.step is None
                and isinstance(node.value.slice.lower, _ast.Attribute) and node.value.slice.lower.attr == 'end_match')
    # the tokeniser loop: `while <text>:` whose body consumes a prefix of <text> (the variable may have any name)
    main = [w for w in loops if isinstance(w.test, _ast.Name) and any(shrinks(n, w.test.id) for n in _ast.walk(w))]
    out = [dict(name='T:loop/main-loop-is-while-expr', kind='S', ok=len(main) == 1, detail='tokeniser loops found: %d' % len(main), witness=None)]
    if len(main) == 1:
        w = main[0]
        var = w.test.id
        body_ok = len(w.body) == 1 and isinstance(w.body[0], _ast.For) and bool(w.body[0].orelse) and \
            isinstance(w.body[0].orelse[-1], _ast.Raise)
        out.append(dict(name='T:loop/body-is-for-over-filters-whose-else-raises', kind='S', ok=body_ok, detail=_ast.dump(w.body[0])[:200], witness=None))
        assigns = [n for n in _ast.walk(w) if isinstance(n, (_ast.Assign, _ast.AugAssign)) and any(
            isinstance(t, _ast.Name) and t.id == var for t in (n.targets if isinstance(n, _ast.Assign) else [n.target]))]
        shrink = [a for a in assigns if shrinks(a, var)]
        out.append(dict(name='T:loop/expr-only-changes-by-dropping-the-consumed-prefix', kind='S', ok=len(assigns) == len(shrink) == 1,
                        detail='assignments to the text variable in the loop: %r' % [_ast.unparse(a) for a in assigns], witness=None))
        tries = [n for n in _ast.walk(w) if isinstance(n, _ast.Try)]
        brk_ok = False
        if len(tries) == 1:
            body = tries[0].body
            pos = [i for i, x in enumerate(body) if shrinks(x, var)]
            brk_ok = bool(pos) and pos[0] > 0 and isinstance(body[-1], _ast.Break)
        out.append(dict(name='T:loop/break-only-after-the-prefix-was-dropped', kind='S', ok=brk_ok, detail=repr([_ast.unparse(x) for t in tries for x in t.body])[:300], witness=None))
    bad = [f.__name__ for f in P.Parser.filters if f.__init__ is not Token.__init__]
    out.append(dict(name='T:loop/no-filter-class-overrides-the-constructor', kind='S', ok=not bad, detail='overriding: %r' % bad, witness=None))
    return out


TABLES.append(_Table('T:tokeniser-loop-shape', 'C18', _loop_shape))
PROPERTIES['C18']['explanation'] = (
    'Proved: every token constructor either raises TokenError or consumes at least one character (Token.__init__ on the real body, regex '
    'match and process() abstract); ground facts on the AST of Parser.ast: the main loop only continues after dropping the consumed prefix '
    'and its for-else raises - hence len(expr) strictly decreases and the tokeniser terminates on every input.  ' + PROPERTIES['C18']['explanation'])
PROPERTIES['C18']['not_proved'] = ['the handlers\' exception sets (only the formula-syntax error escapes) and rejection of malformed text: bounded stages only',
                                   'termination of the regex engine itself and of schedula graph construction in AstBuilder']
PROPERTIES['C18']['assumptions'] = PROPERTIES['C18']['assumptions'] + [
    'a regex match object reports an end position >= 0 (third-party `regex`); a class-specific process() returns a dict']


# ------------------------------------------------------------------------------------ numeric literals keep their value
from pyvc.spec import in_re as _in_re
from pyvc.contract import TupleT as _TupleT

_LIT = r'([0-9]+(\.[0-9]+)?|\.[0-9]+)(E[+\-][0-9]+)?|TRUE|FALSE'


def lemma_number_value(self):
    return self.compile()


class _NumberT(ObjT):
    def __init__(self):
        super().__init__('formulas.tokens.operand:Number', {'attr': RecordT({'name': StrT(caseless=True)}), 'source': ConstT('')})


c_num = Contract(lambda: lemma_number_value, dict(self=_NumberT()), 'C18', name='Number.compile', use=[], float_mode='real')
CONTRACTS.append(c_num)


@c_num.requires
def _(self):
    return _in_re(self.attr['name'], _LIT)


@c_num.ensures('a-numeric-literal-is-accepted-with-its-numeric-value', 'P')
def _(self, result):
    name = self.attr['name']
    if name == 'TRUE' or name == 'FALSE':
        return result is (name == 'TRUE')
    if _in_re(name, '[0-9]+'):
        return isinstance(result, int) and not isinstance(result, bool) and result == int(name)      # leading zeros included
    return isinstance(result, float) and result == float(name)


@c_num.canary('canary:always-an-integer')
def _(self, result):
    return isinstance(result, int)


# ------------------------------------------------------------------------------------ handlers that reject malformed text
# Operand.ast: two adjacent operands are rejected; Parenthesis.ast: a closing parenthesis without its opening one, or an
# empty pair, is rejected.  Token objects are built directly (their regex constructors are covered by Token.__init__ above);
# `builder` is any object with append (a list here).
from pyvc.contract import ListT as _ListT, BoolT as _BoolT


def _tk(cls, **attr):
    return ObjT(cls, {'attr': RecordT({k: (v if isinstance(v, TypeGen) else ConstT(v)) for k, v in attr.items()}), 'source': ConstT('')})


def _n_args_of(t):
    return t.n_args


class _OpenParT(ObjT):
    """An opening parenthesis on the stack with its argument counter."""

    def __init__(self):
        super().__init__('formulas.tokens.parenthesis:Parenthesis',
                         {'attr': RecordT({'name': ConstT('('), 'start': ConstT('('), 'check_n': ConstT(_n_args_of)}), 'source': ConstT(''),
                          'n_args': OneOf(ConstT(0), ConstT(1), ConstT(2), ConstT(3))})


PrevToken = OneOf(_tk('formulas.tokens.operand:Number', name='1'), _tk('formulas.tokens.operand:String', name='a'),
                  _tk('formulas.tokens.operator:OperatorToken', name='+'), _tk('formulas.tokens.operator:OperatorToken', name='%'),
                  _tk('formulas.tokens.parenthesis:Parenthesis', name='(', start='('),
                  _tk('formulas.tokens.parenthesis:Parenthesis', name=')', end=')'))


def lemma_operand_ast(self, tokens, stack, builder):
    self.ast(tokens, stack, builder)
    return tokens, stack, builder


c_opd = Contract(lambda: lemma_operand_ast,
                 dict(self=_tk('formulas.tokens.operand:Number', name='2'), tokens=OneOf(ConstT([]), _ListT(PrevToken)),
                      stack=OneOf(ConstT([]), _ListT(_OpenParT())), builder=ConstT([])),
                 'C18', name='Operand.ast', use=[], frame=('tokens', 'stack', 'builder'))
CONTRACTS.append(c_opd)


def _is_operand(t):
    from formulas.tokens.operand import Operand
    return isinstance(t, Operand)


@c_opd.ensures('an-operand-after-a-non-operand-is-recorded-and-counted-as-an-argument', 'P')
def _(self, tokens, stack, builder, result, old):
    return ((not old['tokens']) or not _is_operand(old['tokens'][-1])) and len(tokens) == len(old['tokens']) + 1 and tokens[-1] is self \
        and len(builder) == 1 and builder[0] is self and ((not stack) or stack[-1].n_args == old['stack'][-1].n_args + 1)


@c_opd.raises(_TokenError, 'two-adjacent-operands-are-rejected', 'P')
def _(self, tokens, stack, builder, exc, old):
    return bool(old['tokens']) and _is_operand(old['tokens'][-1]) and len(builder) == 0


@c_opd.canary('canary:argument-counter-untouched')
def _(self, tokens, stack, builder, result, old):
    return (not stack) or stack[-1].n_args == old['stack'][-1].n_args


def lemma_close_par(self, tokens, stack, builder):
    self.ast(tokens, stack, builder)
    return tokens, stack, builder


from formulas.errors import ParenthesesError as _ParErr
c_cpar = Contract(lambda: lemma_close_par,
                  dict(self=_tk('formulas.tokens.parenthesis:Parenthesis', name=')', end=')'), tokens=_ListT(PrevToken),
                       stack=OneOf(ConstT([]), _ListT(_tk('formulas.tokens.operator:OperatorToken', name='+')), _ListT(_OpenParT()),
                                   _ListT(_OpenParT(), _tk('formulas.tokens.operator:OperatorToken', name='*'))),
                       builder=ConstT([])),
                  'C18', name='Parenthesis.ast[closing]', use=[], frame=('self', 'tokens', 'stack', 'builder'))
CONTRACTS.append(c_cpar)


def _has_open(stack):
    from formulas.tokens.parenthesis import Parenthesis
    return any(isinstance(t, Parenthesis) and 'start' in t.attr for t in stack)


@c_cpar.ensures('a-closing-parenthesis-is-accepted-only-with-its-non-empty-opening-one', 'P')
def _(self, tokens, stack, builder, result, old):
    # accepted => there was an opening parenthesis holding at least one argument; it and everything above it left the stack
    return _has_open(old['stack']) and old['stack'][0].n_args >= 1 and len(stack) == 0 and tokens[-1] is self


@c_cpar.raises(_ParErr, 'unbalanced-or-empty-parentheses-raise-the-parentheses-error', 'P')
def _(self, tokens, stack, builder, exc, old):
    return (not _has_open(old['stack'])) or old['stack'][0].n_args == 0


@c_cpar.canary('canary:stack-untouched')
def _(self, tokens, stack, builder, result, old):
    return len(stack) == len(old['stack'])


def lemma_open_par(self, tokens, stack, builder):
    self.ast(tokens, stack, builder)
    return tokens, stack, builder


c_opar = Contract(lambda: lemma_open_par,
                  dict(self=_tk('formulas.tokens.parenthesis:Parenthesis', name='(', start='('), tokens=OneOf(ConstT([]), _ListT(PrevToken)),
                       stack=OneOf(ConstT([]), _ListT(_OpenParT())), builder=ConstT([])),
                  'C18', name='Parenthesis.ast[opening]', use=[], frame=('self', 'tokens', 'stack', 'builder'))
CONTRACTS.append(c_opar)


@c_opar.ensures('an-opening-parenthesis-after-a-non-operand-is-pushed', 'P')
def _(self, tokens, stack, builder, result, old):
    return ((not old['tokens']) or not _is_operand(old['tokens'][-1])) and len(stack) == len(old['stack']) + 1 and stack[-1] is self \
        and tokens[-1] is self and len(builder) == 0


@c_opar.raises(_TokenError, 'an-operand-directly-followed-by-an-opening-parenthesis-is-rejected', 'P')
def _(self, tokens, stack, builder, exc, old):
    return bool(old['tokens']) and _is_operand(old['tokens'][-1])


@c_opar.canary('canary:never-pushed')
def _(self, tokens, stack, builder, result, old):
    return len(stack) == len(old['stack'])


PROPERTIES['C18']['explanation'] = PROPERTIES['C18']['explanation'].replace(
    'hence len(expr) strictly decreases and the tokeniser terminates on every input.',
    'hence len(expr) strictly decreases and the tokeniser terminates on every input; every numeric literal of the grammar is accepted with '
    'its value and type (Number.compile; the regular-language inclusion is decided by regauto); the handlers reject two adjacent operands, an '
    'operand directly followed by an opening parenthesis, a closing parenthesis without its opening one and an empty pair (Operand.ast, '
    'Parenthesis.ast on stacks of depth <= 2).')
