"""C18 — the parser is total: it returns a formula or its syntax error, only (DESIGN §4 C18, A.8)."""
import itertools
from pyvc.bounded import Stage
from contracts import specparser as SP

CONTRACTS = []

ALPHABET = [('num', '1'), ('num', '2.5'), ('num', '007'), ('num', '1E+3'), ('ref', 'A1'), ('ref', 'B2'), ('str', 'x'), ('err', '#N/A'),
            ('op', '+'), ('op', '-'), ('op', '*'), ('op', '/'), ('op', '^'), ('op', '&'), ('op', '='), ('op', '<>'), ('op', '<'),
            ('op', '>='), ('pct', '%'), ('lpar', '('), ('rpar', ')'), ('comma', ','), ('fn', 'SUM'), ('fn', 'IF'), ('lbrace', '{'),
            ('rbrace', '}'), ('semi', ';'), ('ref', 'x1'), ('num', '.5'), ('str', '')]


def _run(text):
    """-> ('ok', exported text) | ('syntax', '') | ('foreign', exception description)"""
    import formulas
    from formulas.errors import FormulaError
    try:
        b = formulas.Parser().ast(text)[1]
        return 'ok', b[-1].get_expr
    except FormulaError:
        return 'syntax', ''
    except Exception as ex:
        return 'foreign', '%s: %s' % (type(ex).__name__, str(ex)[:80])


def _check_soup(case):
    toks = [ALPHABET[i] for i in case]
    text = SP.text_of(toks)
    kind, detail = _run(text)
    if kind == 'foreign':
        return '%r raised %s instead of the formula-syntax error' % (text, detail)
    tree = SP.accepts(toks)
    if tree is None and kind == 'ok':
        return '%r is outside the grammar but was accepted and read as %s' % (text, detail)
    return None


WORDLIKE = {'num', 'ref', 'str', 'err', 'fn'}


def _separable(case):
    """Adjacent word-like tokens would merge into one lexeme when concatenated ('1' '1' -> '11'): such
    token strings have no faithful spelling and are skipped."""
    kinds = [ALPHABET[i][0] for i in case]
    if any(a == 'ref' and b == 'lpar' for a, b in zip(kinds, kinds[1:])):
        return False          # 'A1' '(' spells the function call A1(
    texts = [ALPHABET[i][1] for i in case]
    cmp_ = {'=', '<>', '<', '>='}
    if any(a in cmp_ and b in cmp_ for a, b in zip(texts, texts[1:])):
        return False          # '<' '=' spells the operator <=
    return not any(a in WORDLIKE and b in WORDLIKE for a, b in zip(kinds, kinds[1:]))


def _soup_cases(tier, rng):
    n = len(ALPHABET)
    out = []
    for k in (1, 2, 3):
        out.extend(c for c in itertools.product(range(n), repeat=k) if _separable(c))
    if tier == 'thorough':
        out.extend(c for c in itertools.product(range(n), repeat=4) if _separable(c))
    else:
        for _ in range(30000):
            c = tuple(rng.randrange(n) for _ in range(rng.choice([4, 5, 6])))
            if _separable(c):
                out.append(c)
    return out


def _shape(kinds, texts=None):
    """Token-pattern facts used to recognise the known acceptance defects."""
    facts = set()
    stack = []
    prev = None
    texts = texts or [None] * len(kinds)
    for k, tx in zip(kinds, texts):
        if k == 'op' and tx not in ('+', '-') and prev in (None, 'lpar', 'fn', 'comma', 'lbrace', 'semi', 'op'):
            facts.add('binary-operator-without-left-operand')
        if prev == 'op' and k in ('rpar', 'rbrace', 'comma', 'semi'):
            facts.add('operator-without-right-operand')
        if k in ('lpar', 'fn', 'lbrace'):
            stack.append(k)
        elif k == 'rpar':
            if not stack:
                facts.add('close-without-open')
            elif stack.pop() == 'lbrace':
                facts.add('bracket-kind-mismatch')
        elif k == 'rbrace':
            if prev in ('comma', 'semi', 'lbrace') and stack and stack[-1] == 'lbrace':
                facts.add('empty-array-element')
            if not stack:
                facts.add('close-without-open')
            elif stack.pop() != 'lbrace':
                facts.add('bracket-kind-mismatch')
        elif k == 'comma' and (not stack or stack[-1] == 'lpar'):
            facts.add('top-level-comma')        # a separator outside any function / array
        elif k == 'semi' and (not stack or stack[-1] != 'lbrace'):
            facts.add('semi-outside-braces')
        if k == 'pct' and prev in (None, 'comma', 'lpar', 'fn', 'op', 'lbrace', 'semi'):
            facts.add('percent-without-operand')
        if prev in ('rpar', 'rbrace') and k in ('num', 'ref', 'str', 'err', 'lpar', 'fn', 'lbrace'):
            facts.add('operand-after-close')
        if prev in ('num', 'ref', 'str', 'err', 'pct') and k in ('lpar', 'lbrace'):
            facts.add('open-after-operand')
        if prev == 'pct' and k in ('num', 'ref', 'str', 'err', 'fn', 'lpar', 'lbrace'):
            facts.add('operand-after-percent')
        if stack and stack[-1] == 'lbrace' and k in ('comma', 'semi') and prev in ('lbrace', 'comma', 'semi'):
            facts.add('empty-array-element')
        if k == 'rbrace' and prev in ('comma', 'semi', 'lbrace'):
            facts.add('empty-array-element')
        prev = k
    return facts


def _classify_soup(case, detail):
    toks = [ALPHABET[i] for i in case]
    kinds = [k for k, _ in toks]
    if 'Invalid output id' in detail or 'is not a data node' in detail or 'ValueError: Invalid data id' in detail:
        return 'KF-C18-1'
    if 'outside the grammar' in detail:
        f = _shape(kinds, [t for _, t in toks])
        if f & {'close-without-open', 'operand-after-close', 'open-after-operand'}:
            return 'KF-C18-2'
        if f & {'percent-without-operand', 'operand-after-percent'}:
            return 'KF-C18-3'
        if 'top-level-comma' in f:
            return 'KF-C18-4'
        if f & {'bracket-kind-mismatch', 'semi-outside-braces'}:
            return 'KF-C18-5'
        if 'empty-array-element' in f:
            return 'KF-C18-7'
        if f & {'binary-operator-without-left-operand', 'operator-without-right-operand'}:
            return 'KF-C18-8'
    return None


# ---- single-edit mutations of valid formulas and random printable strings: no foreign exception escapes ----
VALID = ['=1+2*3', '=SUM(A1:B2,3)', '=IF(A1>=-1,"y",0)', '={1,2;3,4}', '=-A1%', '="a"&"b"""', '=(1+2)*3^2', '=SUM(1,,3)', "='My Sheet'!A1+1",
         '=A1:B2 B1:C3', '=MAX(1,IF(TRUE,2,3))%', '=1E+5/.5', '=#N/A', '=TRUE=FALSE']
PIECES = ['(', ')', ',', ';', '{', '}', '+', '-', '*', '%', '"', "'", '!', ':', ' ', '1', 'A1', 'SUM(', '#REF!', '.', 'E', '$', '\t', '=', '<', '&', '^', '~', '@']


def _edit_cases(tier, rng):
    out = set()
    for f in VALID:
        for i in range(1, len(f) + 1):
            out.add(f[:i - 1] + f[i:]) if i > 1 else None
            for p in PIECES:
                out.add(f[:i] + p + f[i:])
                if i < len(f):
                    out.add(f[:i] + p + f[i + 1:])
    n = 3000 if tier == 'quick' else 60000
    alphabet = ''.join(chr(c) for c in range(32, 127)) + '\t\n'
    for _ in range(n):
        out.add('=' + ''.join(rng.choice(alphabet) for _ in range(rng.randrange(0, 12))))
    for _ in range(n // 3):
        out.add(''.join(rng.choice(alphabet) for _ in range(rng.randrange(0, 8))))
    return sorted(out)


def _check_text(text):
    kind, detail = _run(text)
    if kind == 'foreign':
        return '%r raised %s instead of the formula-syntax error' % (text, detail)
    return None


def _classify_text(case, detail):
    if 'Invalid output id' in detail or 'is not a data node' in detail or 'ValueError: Invalid data id' in detail:
        return 'KF-C18-1'
    if "KeyError: '\\t'" in detail and '\t' in case:
        return 'KF-C18-6'
    return None


def _literal_cases(tier, rng):
    out = []
    for i in range(0, 40):
        out.append('%d' % i)
        out.append('%03d' % i)
        out.append('%d.%d' % (i, i))
        out.append('.%d' % (i + 1))
        out.append('0%d.50' % i)
        out.append('%dE+%d' % (i, i % 7))
        out.append('%d.5E-%d' % (i, i % 5))
        out.append('%de+2' % i)
    return out


def _check_literal(lit):
    import formulas
    try:
        v = formulas.Parser().ast('=' + lit)[1].compile()()
        import numpy as np
        v = np.asarray(v, object).ravel()[0]
    except Exception as ex:
        return 'numeric literal %r raised %s' % (lit, type(ex).__name__)
    return None if float(v) == float(lit) else 'numeric literal %r has value %r' % (lit, v)


def _array_cases(tier, rng):
    out = []
    for nrows in (1, 2, 3, 4):
        for lens in itertools.product((1, 2, 3), repeat=nrows):
            out.append(lens)
    return out


def _check_array(lens):
    body = ';'.join(','.join(str(i + 1) for i in range(n)) for n in lens)
    rect = len(set(lens)) == 1
    for text in ('={%s}' % body, '=SUM({%s})' % body, '=1+{%s}*2' % body):
        kind, detail = _run(text)
        if kind == 'foreign':
            return '%r raised %s' % (text, detail)
        if rect and kind != 'ok':
            return 'rectangular array literal %r was rejected' % text
        if not rect and kind == 'ok':
            return 'ragged array literal %r was accepted and read as %s' % (text, detail)
    return None


BOUNDED = [
    Stage('B1:array-literal-shapes', 'C18', _array_cases, _check_array,
          'array literals with 1..4 rows of every combination of lengths 1..3 (120 shapes) in three contexts: rectangular accepted, ragged rejected',
          exhaustive=True, parallel=False),
    Stage('B1:token-soups', 'C18', _soup_cases, _check_soup,
          'all token strings of length <= 3 over a 30-token alphabet (27 930) plus 20 000 random of length 4..6 (quick) / all of length 4 '
          '(810 000, thorough): only the formula-syntax error escapes; text outside the grammar (spec recogniser) is rejected',
          classify=_classify_soup, max_report=30, exact_file='known_findings_data/C18_token_soups.json',
          exact_applies=lambda case: len(case) <= 4, case_key=lambda case: SP.text_of([ALPHABET[i] for i in case])),
    Stage('B1:single-edits-and-random-strings', 'C18', _edit_cases, _check_text,
          'every single delete / insert / replace of 29 pieces in 14 valid formulas, plus random printable strings (4000 quick / 80 000 '
          'thorough): only the formula-syntax error escapes', classify=_classify_text, max_report=30),
    Stage('B1:numeric-literals', 'C18', _literal_cases, _check_literal,
          '320 numeric literals (leading zeros, decimals, exponents): accepted with their numeric value', parallel=False),
]

PROPERTIES = {
    'C18': dict(
        level='other',
        explanation=(
            'Bounded stand-in in this version: token strings over a 30-token alphabet (exhaustive to length 3 quick / 4 thorough), single edits '
            'of valid formulas and random printable strings through the real Parser.ast: only the formula-syntax error may escape, and text the '
            'spec recogniser rejects must be rejected; numeric literals (leading zeros, decimals, exponents) are accepted with their value. '
            'Table obligation: the error-class hierarchy.'),
        assumptions=['the spec recogniser in contracts/specparser.py is the grammar of the statement'],
        not_proved=['termination of the tokeniser loop (variant len(expr)) and the handlers\' exception sets: pending loop-invariant support'],
        bounded_rule='token strings / edited formulas / random strings; distinct = distinct texts',
    ),
}


class _Table:
    def __init__(self, name, prop, fn):
        self.name, self.prop, self.fn = name, prop, fn

    def run(self):
        return self.fn()


def _hierarchy():
    from formulas import errors as E
    out = []
    for c in ('TokenError', 'ParenthesesError', 'FunctionError'):
        out.append(dict(name='T:errors/%s-is-a-FormulaError' % c, kind='P', ok=issubclass(getattr(E, c), E.FormulaError),
                        detail='%s must derive from FormulaError (the parser\'s only escaping error)' % c, witness='=(1'))
    out.append(dict(name='T:errors/FormulaError-is-a-BaseError', kind='S', ok=issubclass(E.FormulaError, E.BaseError), detail=''))
    return out


TABLES = [_Table('T:error-hierarchy', 'C18', _hierarchy)]
