"""C20 — calendar and number-system conversions (DESIGN §4 C20, A.3)."""
from pyvc.contract import Contract, IntT, OneOf, ConstT, TupleT
from pyvc.spec import implies
from formulas.tokens.operand import NUM

MAXSERIAL = 2958465
MODES = (1, 2, 3, 11, 12, 13, 14, 15, 16, 17)

CONTRACTS = []

# ------------------------------------------------------------------------------------ WEEKDAY


def first_day(n):
    """Serial-number residue (mod 7) of the day numbered `1` in mode n (mode 3: numbered 0)."""
    # Excel: serial 1 (1 Jan 1900) is a Sunday.  mode 1/17: Sunday=1; 2/11: Monday=1; 3: Monday=0;
    # 12: Tuesday=1 ... 16: Saturday=1
    return {1: 1, 17: 1, 2: 2, 11: 2, 3: 2, 12: 3, 13: 4, 14: 5, 15: 6, 16: 0}[n]


def spec_weekday(s, n):
    k = (s - first_day(n)) % 7
    return k if n == 3 else k + 1


c_wd = Contract('formulas.functions.date:xweekday', dict(serial_number=IntT(), n=IntT()), 'C20',
                name='xweekday', returns=OneOf(IntT(), ConstT(NUM)))
CONTRACTS.append(c_wd)


@c_wd.ensures('in-domain-result-is-the-excel-day-number', 'P')
def _(serial_number, n, result):
    return (not (0 <= serial_number <= MAXSERIAL and n in MODES)) or result == spec_weekday(serial_number, n)


@c_wd.ensures('out-of-domain-is-NUM', 'P')
def _(serial_number, n, result):
    return (0 <= serial_number <= MAXSERIAL and n in MODES) or result is NUM


@c_wd.canary('canary:mode-3-numbered-from-1')
def _(serial_number, n, result):
    return result is NUM or 1 <= result <= 7


def lemma_weekday_step(s, n):
    from formulas.functions.date import xweekday
    return xweekday(s, n), xweekday(s + 1, n)


c_wd_step = Contract(lambda: lemma_weekday_step, dict(s=IntT(0, MAXSERIAL - 1), n=IntT()), 'C20',
                     name='lemma:weekday-advances-by-one-per-day', use=[])
CONTRACTS.append(c_wd_step)


@c_wd_step.requires
def _(s, n):
    return n in MODES


@c_wd_step.ensures('step-law', 'P')
def _(s, n, result):
    a, b = result
    return (b == a % 7 + 1 and 1 <= a <= 7) if n != 3 else (b == (a + 1) % 7 and 0 <= a <= 6)


@c_wd_step.canary('canary:never-wraps')
def _(s, n, result):
    return result[1] == result[0] + 1


PROPERTIES = {
    'C20': dict(
        level='proof',
        explanation=(
            'WEEKDAY: functional contract and step law for all serials and modes (linear integer arithmetic) '
            'on the real xweekday body.'),
        assumptions=[],
        not_proved=[],
    ),
}


# ------------------------------------------------------------------------------------ DEC <-> BIN/OCT/HEX
from pyvc.contract import StrT
from pyvc.spec import in_re
from formulas.tokens.operand import VALUE

WIDTH = {2: 10, 8: 30, 16: 40}
DIGITS = {2: '[01]+', 8: '[0-7]+', 16: '[0-9A-Fa-f]+'}
BaseT = OneOf(ConstT(2), ConstT(8), ConstT(16))
ASCII = '[ -~\t\n\x0b\x0c\r]*'

c_dec2x = Contract('formulas.functions.eng:_dec2x', dict(x=IntT(), places=OneOf(ConstT(None), IntT()), base=BaseT),
                   'C20', name='_dec2x')
CONTRACTS.append(c_dec2x)


@c_dec2x.ensures('outside-the-twos-complement-range-is-NUM', 'P')
def _(x, places, base, result):
    y = 2 ** (WIDTH[base] - 1)
    return (-y <= x < y) or result is NUM


@c_dec2x.ensures('in-range-gives-at-most-10-uppercase-digits', 'P')
def _(x, places, base, result):
    y = 2 ** (WIDTH[base] - 1)
    return (not (-y <= x < y and places is None)) or (
        isinstance(result, str) and result is not NUM and 1 <= len(result) <= 10
        and in_re(result, {2: '[01]+', 8: '[0-7]+', 16: '[0-9A-F]+'}[base]))


@c_dec2x.ensures('in-range-text-denotes-x-modulo-2^w', 'P')
def _(x, places, base, result):
    y = 2 ** (WIDTH[base] - 1)
    return (not (-y <= x < y and places is None)) or int(result, base) == (x if x >= 0 else x + 2 * y)


@c_dec2x.ensures('places-pads-with-zeros-or-is-NUM', 'P')
def _(x, places, base, result):
    y = 2 ** (WIDTH[base] - 1)
    if not (-y <= x < y) or places is None:
        return True
    d = {2: bin, 8: oct, 16: hex}[base](x if x >= 0 else x + 2 * y)[2:].upper()
    return (result is NUM) if places < len(d) else result == '0' * (places - len(d)) + d


@c_dec2x.canary('canary:never-NUM')
def _(x, places, base, result):
    return result is not NUM


c_x2dec = Contract('formulas.functions.eng:_x2dec', dict(x=StrT(), base=BaseT), 'C20', name='_x2dec')
CONTRACTS.append(c_x2dec)


@c_x2dec.requires
def _(x, base):
    return in_re(x, ASCII) and len(x) <= 10          # what _parseX lets through (text of <= 10 characters)


@c_x2dec.ensures('digit-text-gives-its-twos-complement-value', 'P')
def _(x, base, result):
    y = 2 ** (WIDTH[base] - 1)
    if not in_re(x, DIGITS[base]):
        return True
    m = int(x, base)
    return result == (m if m < y else m - 2 * y)


@c_x2dec.ensures('anything-else-is-NUM', 'P')
def _(x, base, result):
    return in_re(x, DIGITS[base]) or result is NUM


WS = r'[ \t\n\x0b\x0c\r]*'
PY_INT = {2: WS + r'[+-]?(0[bB]_?)?[01]+(_[01]+)*' + WS, 8: WS + r'[+-]?(0[oO]_?)?[0-7]+(_[0-7]+)*' + WS,
          16: WS + r'[+-]?(0[xX]_?)?[0-9a-fA-F]+(_[0-9a-fA-F]+)*' + WS}


@c_x2dec.known_region('KF-C20-1', 'anything-else-is-NUM')
def _(x, base):
    # exactly the text CPython's int(s, base) accepts beyond plain digits: sign, blanks, 0x/0o/0b prefix, '_'
    return in_re(x, PY_INT[base]) and not in_re(x, DIGITS[base])


@c_x2dec.canary('canary:always-non-negative')
def _(x, base, result):
    return result is NUM or result >= 0


def lemma_dec_roundtrip(n, base):
    from formulas.functions.eng import _dec2x, _x2dec, _parseX
    return _x2dec(_parseX(_dec2x(n, None, base)), base)


c_rt = Contract(lambda: lemma_dec_roundtrip, dict(n=IntT(), base=BaseT), 'C20', name='lemma:x2dec-inverts-dec2x', use=[])
CONTRACTS.append(c_rt)


@c_rt.requires
def _(n, base):
    return -2 ** (WIDTH[base] - 1) <= n < 2 ** (WIDTH[base] - 1)


@c_rt.ensures('roundtrip', 'P')
def _(n, base, result):
    return result == n


@c_rt.canary('canary:roundtrip-unsigned')
def _(n, base, result):
    return result == n + 2 ** WIDTH[base]


def lemma_text_roundtrip(m, base):
    from formulas.functions.eng import _dec2x, _x2dec, _parseX
    text = {2: bin, 8: oct, 16: hex}[base](m)[2:].upper()
    return text, _dec2x(_x2dec(_parseX(text), base), None, base)


c_rt2 = Contract(lambda: lemma_text_roundtrip, dict(m=IntT(0), base=BaseT), 'C20', name='lemma:dec2x-inverts-x2dec', use=[])
CONTRACTS.append(c_rt2)


@c_rt2.requires
def _(m, base):
    return m < 2 ** WIDTH[base]


@c_rt2.ensures('roundtrip', 'P')
def _(m, base, result):
    return result[1] == result[0]

PROPERTIES['C20']['explanation'] += (
    ' DEC<->BIN/OCT/HEX: contracts on the real _dec2x/_x2dec/_parseX kernels over the whole 10/30/40-bit '
    'two\'s-complement domains with CPython\'s bin/oct/hex/int(s,base) axiomatised (sampled against the interpreter).')
PROPERTIES['C20']['assumptions'] += [
    'CPython digit-string axioms: int(render_b(n), b) == n; len(render_b(n)) <= k <=> n < b**k; int(s,b) accepts exactly the ASCII literal grammar',
    'the schedula pipe chaining two kernels (e.g. HEX2BIN = HEX->DEC->BIN) evaluates them as wired (assumed; exercised by the exhaustive-by-execution stage)',
]


# ------------------------------------------------------------------------------------ serial <-> date
from formulas.errors import FoundError as _FoundError

c_i2d = Contract('formulas.functions.date:_int2date', dict(serial_number=IntT()), 'C20', name='_int2date',
                 float_mode='real')
CONTRACTS.append(c_i2d)


@c_i2d.ensures('in-range-returns-the-date-excel-shows', 'P')
def _(serial_number, result):
    n = serial_number
    y, m, d = result
    if n == 0:
        return (y, m, d) == (1900, 1, 0)
    if n == 60:
        return (y, m, d) == (1900, 2, 29)
    # a real calendar day: 1 <= n < 60 is n days after 1899-12-31, n > 60 is n - 1 days after it
    k = n if n < 60 else n - 1
    return (1900 <= y <= 9999 and 1 <= m <= 12 and 1 <= d <= days_in_month(y, m)
            and ordinal(y, m, d) - ordinal(1899, 12, 31) == k)


@c_i2d.raises(_FoundError, 'out-of-range-is-NUM', 'P')
def _(serial_number, exc):
    return (serial_number < 0 or serial_number > MAXSERIAL) and exc.err is NUM


@c_i2d.canary('canary:no-fictitious-leap-day')
def _(serial_number, result):
    return ordinal(result[0], result[1], result[2]) - ordinal(1899, 12, 31) == serial_number


def is_leap(y):
    return y % 4 == 0 and (y % 100 != 0 or y % 400 == 0)


def days_in_month(y, m):
    return (29 if is_leap(y) else 28) if m == 2 else (30 if m in (4, 6, 9, 11) else 31)


def ordinal(y, m, d):
    y1 = y - 1
    return (y1 * 365 + y1 // 4 - y1 // 100 + y1 // 400
            + (0, 31, 59, 90, 120, 151, 181, 212, 243, 273, 304, 334)[m - 1] + (1 if m > 2 and is_leap(y) else 0) + d)


def lemma_date_roundtrip(n):
    from formulas.functions.date import xdate, _int2date
    return xdate(*_int2date(n))


c_drt = Contract(lambda: lemma_date_roundtrip, dict(n=IntT(0, MAXSERIAL)), 'C20', name='lemma:DATE-inverts-serial-to-date',
                 use=[], float_mode='real')
CONTRACTS.append(c_drt)


@c_drt.ensures('DATE-of-the-parts-returns-the-serial', 'P')
def _(n, result):
    return result == n


@c_drt.canary('canary:off-by-one-after-feb-1900')
def _(n, result):
    return result == n - 1


def lemma_parts_roundtrip(y, m, d):
    from formulas.functions.date import xdate, _int2date
    return _int2date(xdate(y, m, d))


c_prt = Contract(lambda: lemma_parts_roundtrip, dict(y=IntT(1900, 9999), m=IntT(1, 12), d=IntT(1, 31)), 'C20',
                 name='lemma:serial-to-date-inverts-DATE', use=[], float_mode='real')
CONTRACTS.append(c_prt)


@c_prt.requires
def _(y, m, d):
    return d <= days_in_month(y, m) or (y, m, d) == (1900, 2, 29)


@c_prt.ensures('parts-come-back', 'P')
def _(y, m, d, result):
    return result == (y, m, d)


# ====================================================================================
# bounded / exhaustive-by-execution stages (labelled bounded; never counted as proved)
from pyvc.bounded import Stage


def _val(v):
    import numpy as np
    if isinstance(v, np.ndarray):
        v = v.ravel()[0] if v.size == 1 else v.tolist()
    return v


def _chunks(lo, hi, size):
    return [(a, min(a + size, hi)) for a in range(lo, hi, size)]


def _check_serial_chunk(case):
    from formulas.functions.date import xdate, _int2date
    lo, hi = case
    for n in range(lo, hi):
        try:
            parts = _int2date(n)
            back = xdate(*parts)
        except Exception as ex:
            return 'serial %d: %s' % (n, type(ex).__name__)
        if back != n:
            return 'serial %d -> %r -> DATE = %r' % (n, parts, back)
        if n not in (0, 60):
            k = n if n < 60 else n - 1
            if ordinal(*parts) - ordinal(1899, 12, 31) != k:
                return 'serial %d shows %r' % (n, parts)
    return None


def _check_serial_functions(case):
    from formulas import get_functions
    F = get_functions()
    lo, hi = case
    for n in range(lo, hi):
        y, m, d = (_val(F[k](n)) for k in ('YEAR', 'MONTH', 'DAY'))
        if _val(F['DATE'](y, m, d)) != n:
            return 'DATE(YEAR(%d),MONTH,DAY) = %r (parts %r)' % (n, _val(F['DATE'](y, m, d)), (y, m, d))
    return None


def _serial_cases(tier, rng):
    return _chunks(0, MAXSERIAL + 1, 20000)


def _serial_fn_cases(tier, rng):
    if tier == 'thorough':
        return _chunks(0, MAXSERIAL + 1, 20000)
    edges = [(0, 800), (36000, 37000), (MAXSERIAL - 800, MAXSERIAL + 1)]
    return edges + [(s, s + 40) for s in (rng.randrange(0, MAXSERIAL - 40) for _ in range(300))]


def _check_time_chunk(case):
    from formulas.functions.date import xtime, _n2time
    from formulas import get_functions
    F = get_functions()
    lo, hi = case
    for s in range(lo, hi):
        h, m, sec = s // 3600, s // 60 % 60, s % 60
        if _n2time(xtime(h, m, sec)) != (h, m, sec):
            return 'kernels: TIME(%d,%d,%d) -> %r' % (h, m, sec, _n2time(xtime(h, m, sec)))
        t = F['TIME'](h, m, sec)
        got = tuple(_val(F[k](t)) for k in ('HOUR', 'MINUTE', 'SECOND'))
        if got != (h, m, sec):
            return 'HOUR/MINUTE/SECOND(TIME(%d,%d,%d)) = %r' % (h, m, sec, got)
    return None


def _check_roman(case):
    from formulas import get_functions
    F = get_functions()
    lo, hi = case
    for n in range(lo, hi):
        for f in range(5):
            r = _val(F['ROMAN'](n, f))
            if not isinstance(r, str) or type(r).__name__ == 'XlError':
                return 'ROMAN(%d,%d) = %r' % (n, f, r)
            a = _val(F['ARABIC'](r))
            if a != n:
                return 'ARABIC(ROMAN(%d,%d)=%r) = %r' % (n, f, r, a)
    return None


def _check_roman_outside(case):
    from formulas import get_functions
    from formulas.tokens.operand import XlError
    F = get_functions()
    n, f = case
    r = _val(F['ROMAN'](n, f))
    return None if isinstance(r, XlError) else 'ROMAN(%d,%d) = %r, expected an error value' % (n, f, r)


def _check_base(case):
    from formulas import get_functions
    from formulas.tokens.operand import XlError
    F = get_functions()
    name, n = case
    b = {'BIN': 2, 'OCT': 8, 'HEX': 16}[name]
    y = 2 ** (WIDTH[b] - 1)
    t = _val(F['DEC2' + name](n))
    if not (-y <= n < y):
        return None if t is NUM else 'DEC2%s(%d) = %r, expected #NUM!' % (name, n, t)
    if isinstance(t, XlError) or not isinstance(t, str) or len(t) > 10:
        return 'DEC2%s(%d) = %r' % (name, n, t)
    back = _val(F[name + '2DEC'](t))
    if back != n:
        return '%s2DEC(DEC2%s(%d)=%r) = %r' % (name, name, n, t, back)
    if _val(F['DEC2' + name](back)) != t:
        return 'DEC2%s(%s2DEC(%r)) differs' % (name, name, t)
    for other in ('BIN', 'OCT', 'HEX'):
        if other == name:
            continue
        direct, via = _val(F['%s2%s' % (name, other)](t)), _val(F['DEC2' + other](n))
        if direct != via and not (isinstance(direct, XlError) and isinstance(via, XlError)):
            return '%s2%s(%r) = %r but DEC2%s(%d) = %r' % (name, other, t, direct, other, n, via)
    return None


def _base_cases(tier, rng):
    cases = [('BIN', n) for n in range(-520, 520)]
    for name, b in (('OCT', 8), ('HEX', 16)):
        y = 2 ** (WIDTH[b] - 1)
        edge = [-y - 2, -y - 1, -y, -y + 1, -1, 0, 1, y - 2, y - 1, y, y + 1, 511, 512, -512, -513]
        cases += [(name, n) for n in edge]
        cases += [(name, rng.randrange(-y, y)) for _ in range(3000 if tier == 'quick' else 60000)]
        cases += [(name, rng.randrange(-600, 600)) for _ in range(500)]
    return cases


def _check_axioms_chunk(case):
    import datetime
    import calendar
    kind, lo, hi = case
    if kind == 'ord':
        for k in range(lo, hi):
            d = datetime.date.fromordinal(k)
            if not (1 <= d.month <= 12 and 1 <= d.day <= days_in_month(d.year, d.month)) or ordinal(d.year, d.month, d.day) != k \
                    or datetime.datetime(d.year, d.month, d.day).toordinal() != k:
                return 'D1/D3 fail at ordinal %d' % k
        return None
    if kind == 'dim':
        for y in range(lo, hi):
            for m in range(1, 13):
                if calendar.monthrange(y, m)[1] != days_in_month(y, m):
                    return 'D2 fails at %d-%d' % (y, m)
        return None


def _axiom_cases(tier, rng):
    import datetime
    lo, hi = datetime.date(1899, 12, 31).toordinal(), datetime.date.max.toordinal() + 1
    return [('ord', a, b) for a, b in _chunks(lo, hi, 20000)] + [('dim', a, b) for a, b in _chunks(1, 10000, 500)]


def _check_digit_axioms(case):
    import re
    from pyvc.models import py_int_literal_re
    kind, v = case
    if kind == 'render':
        b, n = v
        s = {2: bin, 8: oct, 16: hex}[b](n)[2:].upper()
        if int(s, b) != n or not all((len(s) <= k) == (n < b ** k) for k in range(1, 13)) or (n > 0 and s[0] == '0'):
            return 'digit-string axiom fails for base %d, n=%d' % (b, n)
        return None
    b, s = v
    try:
        int(s, b)
        ok = True
    except ValueError:
        ok = False
    pat = {2: r'[ \t\n\x0b\x0c\r]*[+-]?(0[bB]_?)?[01]+(_[01]+)*[ \t\n\x0b\x0c\r]*',
           8: r'[ \t\n\x0b\x0c\r]*[+-]?(0[oO]_?)?[0-7]+(_[0-7]+)*[ \t\n\x0b\x0c\r]*',
           16: r'[ \t\n\x0b\x0c\r]*[+-]?(0[xX]_?)?[0-9a-fA-F]+(_[0-9a-fA-F]+)*[ \t\n\x0b\x0c\r]*'}[b]
    if ok != (re.fullmatch(pat, s) is not None):
        return 'int(%r, %d) acceptance differs from the assumed literal grammar' % (s, b)
    return None


def _digit_cases(tier, rng):
    out = []
    for b in (2, 8, 16):
        out += [('render', (b, n)) for n in list(range(0, 70)) + [b ** k + d for k in range(1, 12) for d in (-1, 0, 1)]]
        out += [('render', (b, rng.randrange(0, 2 ** 41))) for _ in range(2000)]
        alpha = '0123456789abcdefABCDEF xXoObB_+-\t'
        n = 6000 if tier == 'quick' else 60000
        out += [('accept', (b, ''.join(rng.choice(alpha) for _ in range(rng.randrange(0, 7))))) for _ in range(n)]
    return out


BOUNDED = [
    Stage('E:serial-date-roundtrip(kernels)', 'C20', _serial_cases, _check_serial_chunk,
          'all 2 958 466 serials through _int2date / xdate (exhaustive by execution)', exhaustive=True,
          weight=lambda c: c[1] - c[0]),
    Stage('E:serial-date-roundtrip(functions)', 'C20', _serial_fn_cases, _check_serial_functions,
          'YEAR/MONTH/DAY/DATE worksheet functions: thorough = all serials; quick = boundaries + 300 random windows of 40',
          weight=lambda c: c[1] - c[0]),
    Stage('E:time-roundtrip', 'C20', lambda tier, rng: _chunks(0, 86400, 2000), _check_time_chunk,
          'all 86 400 seconds of a day, kernels and worksheet functions (exhaustive by execution)', exhaustive=True,
          weight=lambda c: c[1] - c[0]),
    Stage('E:roman-arabic', 'C20', lambda tier, rng: _chunks(0, 4000, 250), _check_roman,
          'ARABIC(ROMAN(n, f)) == n for 0 <= n < 4000, f in 0..4 (exhaustive by execution)', exhaustive=True,
          weight=lambda c: 5 * (c[1] - c[0])),
    Stage('E:roman-outside-domain', 'C20', lambda tier, rng: [(n, f) for n in (-1, 4000, 4001, 10 ** 6) for f in range(5)],
          _check_roman_outside, 'ROMAN outside 0..3999 gives an error value (code gives #VALUE!; statement reads "an error")'),
    Stage('E:base-conversions', 'C20', _base_cases, _check_base,
          'all 10-bit values; octal/hex boundaries + random samples (3000 quick / 60000 thorough per base); cross conversions through the schedula pipe'),
    Stage('A:library-axioms(datetime,calendar)', 'C20', _axiom_cases, _check_axioms_chunk,
          'D1-D3 for every ordinal 1899-12-31..9999-12-31 and every (year, month) 1..9999 (exhaustive by execution)',
          exhaustive=True, weight=lambda c: c[2] - c[1]),
    Stage('A:digit-string-axioms(int,bin,oct,hex)', 'C20', _digit_cases, _check_digit_axioms,
          'render/parse axioms at boundaries and 2000 random values per base; int(s, base) acceptance on random ASCII strings (6000 quick / 60000 thorough per base)'),
]

PROPERTIES['C20']['explanation'] += (
    ' Serial<->date: the quirk logic of _int2date / xdate / _date (day 0, fictitious 29 Feb 1900, the 60/61 shift) is '
    'proved inverse for all serials under datetime/calendar axioms D1-D3, which a bounded stage validates exhaustively by execution. '
    'TIME/HOUR/MINUTE/SECOND and ROMAN/ARABIC are decided exhaustively by execution (bounded stage, not proof).')
PROPERTIES['C20']['assumptions'] += [
    'D1 date.toordinal() = closed form ORD; D2 calendar.monthrange = DIM; D3 date.fromordinal has valid parts with ORD(parts) = k (validated exhaustively every run)',
    'float arithmetic treated as real arithmetic for math.floor((m - 1) / 12) in _date',
]
PROPERTIES['C20']['not_proved'] = ['TIME/HOUR/MINUTE/SECOND inverse (float fudge terms): exhaustive by execution only',
                                   'ROMAN/ARABIC inverse: exhaustive by execution only']
PROPERTIES['C20']['bounded_rule'] = 'exhaustive-by-execution / sampled stages listed in coverage.bounded; distinct = distinct cases'
