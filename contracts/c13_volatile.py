"""C13 — volatile functions are never frozen (partial): DESIGN §4 C13, A.7."""
import ast as _ast
import schedula as sh
from pyvc.contract import Contract, FnT, OpaqueT, OneOf, ConstT, IntT, RealT, BoolT
from pyvc.spec import n_calls, returned_by, raised_by
from formulas.tokens.operand import NUM, VALUE

CONTRACTS = []


# ------------------------------------------------------------------------------------ impure wrapper
def lemma_impure(func, compiling, a):
    from formulas.functions import wrap_impure_func
    return wrap_impure_func(func)(compiling, a)


c_imp = Contract(lambda: lemma_impure,
                 dict(func=FnT([(ValueError, {})]), compiling=OneOf(ConstT(True), ConstT(False), BoolT()), a=OpaqueT()),
                 'C13', name='wrap_impure_func.wrapper', use=[])
CONTRACTS.append(c_imp)


@c_imp.ensures('while-compiling-no-value-is-produced-and-the-function-is-not-called', 'P')
def _(func, compiling, a, result):
    return (not compiling) or (result is sh.NONE and n_calls(func) == 0)


@c_imp.ensures('otherwise-the-function-is-called-afresh-and-its-result-returned', 'P')
def _(func, compiling, a, result):
    return bool(compiling) or (n_calls(func) == 1 and returned_by(result, func))


@c_imp.raises(ValueError, 'exceptions-of-the-function-propagate', 'S')
def _(func, compiling, a, exc):
    return raised_by(exc, func) and not compiling


@c_imp.canary('canary:always-evaluates')
def _(func, compiling, a, result):
    return n_calls(func) == 1


# ------------------------------------------------------------------------------------ RANDBETWEEN / RAND ranges
c_rb = Contract('formulas.functions.math:xrandbetween',
                dict(bottom=OneOf(IntT(-10 ** 9, 10 ** 9), RealT()), top=OneOf(IntT(-10 ** 9, 10 ** 9), RealT())), 'C13',
                name='xrandbetween', use=[], float_mode='real')
CONTRACTS.append(c_rb)


@c_rb.requires
def _(bottom, top):
    return -10 ** 9 <= bottom <= 10 ** 9 and -10 ** 9 <= top <= 10 ** 9


@c_rb.ensures('an-integer-within-the-bounds-or-NUM', 'P')
def _(bottom, top, result):
    if result is NUM:
        return True
    return isinstance(result, int) and not isinstance(result, bool) and bottom <= result <= top


@c_rb.ensures('NUM-only-when-no-integer-lies-between-the-bounds', 'P')
def _(bottom, top, result):
    import math
    return (result is NUM) == (math.ceil(bottom) > math.floor(top))


@c_rb.canary('canary:always-the-lower-bound')
def _(bottom, top, result):
    return result is NUM or result == bottom


# ------------------------------------------------------------------------------------ tables
class _Table:
    def __init__(self, name, prop, fn):
        self.name, self.prop, self.fn = name, prop, fn

    def run(self):
        return self.fn()


VOLATILE = ('NOW', 'TODAY', 'RAND', 'RANDBETWEEN')


def _volatile_table():
    import formulas
    from formulas.functions import COMPILING
    from contracts.c11_functions import wrapper_chain
    F = formulas.get_functions()
    out = []
    for name in VOLATILE:
        f = F[name]
        ok = (isinstance(f, dict) and COMPILING in f.get('extra_inputs', {}) and f['extra_inputs'][COMPILING] is False
              and wrapper_chain(f)[:1] == ['wrap_impure_func.<locals>.wrapper'])
        out.append(dict(name='T:volatile-registration/%s' % name, ok=ok, kind='P',
                        detail='%s is not registered as {extra_inputs: {COMPILING: False}, function: wrap_impure_func(...)}: '
                               'its value is computed once when a formula is compiled and frozen' % name,
                        witness='=%s compiled once and called twice' % ('RANDBETWEEN(1,1000000)' if name == 'RANDBETWEEN' else name + '()')))
    for name in sorted(F):
        if name in VOLATILE:
            continue
        f = F[name]
        if isinstance(f, dict) and COMPILING in f.get('extra_inputs', {}):
            out.append(dict(name='T:volatile-registration/only-the-four/%s' % name, ok=True, kind='S', detail=''))
    return out


def _compile_flag_table():
    """Ground facts about the real compilation paths (behavioural, independent of statement order): while a formula is compiled the
    volatile functions are called with the compiling flag set (or not at all), and every call of the compiled function passes it
    unset - observed by registering a spy function with the same `extra_inputs` declaration as NOW / RAND."""
    import collections
    import formulas
    from formulas.functions import COMPILING
    F = formulas.get_functions()
    seen = []

    def spy(compiling, *a):
        seen.append(compiling)
        return sh.NONE if compiling else 42.0
    F['VERIFSPY'] = {'extra_inputs': collections.OrderedDict([(COMPILING, False)]), 'function': spy}
    out = []
    try:
        for label, text in (('bare', '=VERIFSPY()'), ('nested', '=1+IF(TRUE,VERIFSPY(),0)'), ('with-input', '=A1+VERIFSPY()')):
            del seen[:]
            try:
                f = formulas.Parser().ast(text)[1].compile()
                during = list(seen)
                del seen[:]
                args = [1.0] * len(f.inputs)
                v1 = f(*args)
                v2 = f(*args)
                after = list(seen)
                ok = all(c is True for c in during) and len(after) == 2 and all(c is False for c in after)
                detail = 'flag values seen while compiling %r, on two calls %r (results %r, %r)' % (during, after, v1, v2)
            except Exception as ex:
                ok, detail = False, 'raised %s: %s' % (type(ex).__name__, str(ex)[:80])
            out.append(dict(name='T:compile/volatile-calls-see-the-compiling-flag-only-while-compiling/%s' % label, ok=ok, kind='P', detail=detail,
                            witness='%s compiled once, called twice' % text.replace('VERIFSPY', 'NOW')))
    finally:
        F.pop('VERIFSPY', None)
    return out


TABLES = [_Table('T:volatile-registration', 'C13', _volatile_table), _Table('T:compile-flag', 'C13', _compile_flag_table)]


# ------------------------------------------------------------------------------------ bounded: compiled formulas re-evaluate
from pyvc.bounded import Stage


def _check_fresh(case):
    """A formula containing a volatile call at some depth, compiled once, must re-evaluate the call on every
    call of the compiled function (clock / random source replaced by a counter)."""
    import datetime
    import numpy as np
    import formulas
    import formulas.functions.date as fd
    kind, text = case
    counter = {'n': 0}

    class _DT(datetime.datetime):
        @classmethod
        def now(cls, tz=None):
            counter['n'] += 1
            return datetime.datetime(2030, 1, 1) + datetime.timedelta(days=counter['n'], seconds=counter['n'])
    real_dt, real_rand = fd.datetime.datetime, np.random.rand
    fd.datetime.datetime = _DT

    def fake_rand(*a):
        counter['n'] += 1
        return (counter['n'] * 0.137) % 1.0
    np.random.rand = fake_rand
    try:
        f = formulas.Parser().ast(text)[1].compile()
        vals = []
        for _ in range(3):
            v = f()
            v = np.asarray(v, object).ravel()[0]
            vals.append(v)
    except Exception as ex:
        return '%s raised %s: %s' % (text, type(ex).__name__, str(ex)[:100])
    finally:
        fd.datetime.datetime = real_dt
        np.random.rand = real_rand
    if len({repr(v) for v in vals}) != 3:
        return '%s compiled once gave %r on three calls with the clock / random source advanced in between' % (text, vals)
    if kind == 'RANDBETWEEN':
        if not all(isinstance(v, (int, np.integer)) or (isinstance(v, float) and float(v).is_integer()) for v in vals):
            return '%s returned non-integers %r' % (text, vals)
    return None


def _fresh_cases(tier, rng):
    out = []
    for kind, call in (('NOW', 'NOW()'), ('TODAY', 'TODAY()'), ('RAND', 'RAND()'), ('RANDBETWEEN', 'RANDBETWEEN(1,1000000)')):
        for tmpl in ('=%s', '=%s+0', '=IF(TRUE,%s,0)', '=SUM(1,%s)', '=1*(%s)', '=IF(1>0,SUM(1,%s,2),0)', '=(%s)*1+ABS(-1)'):
            out.append((kind, tmpl % call))
    return out


# ------------------------------------------------------------------------------------ bounded: whole models
MODEL_BOOKS = [
    # cells: volatile calls and dependents; names: defined names (global) whose formula is volatile / constant / a cell
    dict(cells={'A1': '=NOW()', 'B1': '=A1+0', 'C1': '=A1', 'A2': '=RAND()', 'B2': '=A2*1', 'C2': '=A2', 'A3': '=TODAY()+7', 'B3': '=A3-7'},
         names={}),
    dict(cells={'A1': '=STAMP', 'B1': '=STAMP+0', 'C1': '=NOW()', 'A2': '=DRAW', 'B2': '=DRAW*1', 'A3': '=VAT*100', 'A4': 5, 'B4': '=FIVE+1'},
         names={'STAMP': 'NOW()', 'DRAW': 'RAND()', 'VAT': '0.2', 'FIVE': 'S!$A$4'}),
    dict(cells={'A1': '=IF(TRUE,NOW(),0)', 'B1': '=SUM(1,A1)', 'A2': '=RANDBETWEEN(1,1000000)', 'B2': '=A2+0', 'C2': '=A2'},
         names={}),
    # formulas that mix an (unchanged) referenced value with a volatile call
    dict(cells={'A4': 3, 'D1': '=A4+NOW()', 'D2': '=IF(A4>1,TODAY()+A4,0)', 'D3': '=RANDBETWEEN(1,A4*1000000)', 'D4': '=A4*RAND()', 'D5': '=A4*2'},
         names={}),
]


def _model_cases(tier, rng):
    return [(i, how) for i in range(len(MODEL_BOOKS)) for how in ('loaded', 'deepcopy', 'json')]


def _check_model(case):
    """A workbook loaded from file (and its deep copy / JSON re-import) is calculated three times with the clock and the random
    source advanced: every volatile cell and every name-based or cell-based dependent changes each time, dependents of one volatile
    cell agree within one calculation, constants stay."""
    import copy
    import datetime
    import json
    import logging
    import os
    import shutil
    import tempfile
    import numpy as np
    import openpyxl
    from openpyxl.workbook.defined_name import DefinedName
    import formulas
    import formulas.functions.date as fd
    i, how = case
    book = MODEL_BOOKS[i]
    counter = {'n': 0}

    class _DT(datetime.datetime):
        @classmethod
        def now(cls, tz=None):
            return datetime.datetime(2031, 3, 13) + datetime.timedelta(days=counter['n'], seconds=17 * counter['n'])
    real_dt, real_rand = fd.datetime.datetime, np.random.rand

    def fake_rand(*a):
        counter['r'] = counter.get('r', 0) + 1
        return ((counter['n'] * 1000 + counter['r']) * 0.0137) % 1.0
    logging.disable(logging.CRITICAL)
    d = tempfile.mkdtemp(prefix='verif_c13_')
    fd.datetime.datetime, np.random.rand = _DT, fake_rand
    try:
        wb = openpyxl.Workbook()
        ws = wb.active
        ws.title = 'S'
        for ref, v in book['cells'].items():
            ws[ref] = v
        for nm, text in book['names'].items():
            wb.defined_names[nm] = DefinedName(nm, attr_text=text)
        path = os.path.join(d, 'book.xlsx')
        wb.save(path)
        counter['n'] = 1
        m = formulas.ExcelModel().loads(path).finish()
        if how == 'deepcopy':
            m = copy.deepcopy(m)
        elif how == 'json':
            m.calculate()
            m = formulas.ExcelModel().from_dict(json.loads(json.dumps(m.to_dict())))
        runs = []
        for step in (2, 3, 5):
            counter['n'], counter['r'] = step, 0
            sol = m.calculate()
            vals = {}
            for k, v in sol.items():
                ks = str(k)
                if '!' in ks and hasattr(v, 'value'):
                    vals[ks.split('!')[-1]] = np.asarray(v.value, object).ravel()[0]
            runs.append(vals)
    except Exception as ex:
        return 'workbook %d (%s): raised %s: %s' % (i, how, type(ex).__name__, str(ex)[:120])
    finally:
        fd.datetime.datetime, np.random.rand = real_dt, real_rand
        logging.disable(logging.NOTSET)
        shutil.rmtree(d, ignore_errors=True)
    cells = book['cells']
    for ref, f in cells.items():
        if not isinstance(f, str):
            continue
        series = [r.get(ref) for r in runs]
        volatile = any(w in f for w in ('NOW', 'TODAY', 'RAND', 'STAMP', 'DRAW')) or \
            any(dep in f and any(w in str(cells[dep]) for w in ('NOW', 'TODAY', 'RAND', 'STAMP', 'DRAW')) for dep in cells if dep != ref)
        if volatile and len({repr(x) for x in series}) != 3:
            return 'workbook %d (%s): %s = %s stays at %r over three calculations with the clock / random source advanced' % (i, how, ref, f, series)
        if not volatile and len({repr(x) for x in series}) != 1:
            return 'workbook %d (%s): constant cell %s = %s changes: %r' % (i, how, ref, f, series)
    # one snapshot per calculation: dependents written as X+0 / X*1 / =X agree with their source
    for r in runs:
        for a, b in (('A1', 'B1'), ('A1', 'C1'), ('A2', 'B2'), ('A2', 'C2')):
            fa, fb = cells.get(a), cells.get(b)
            if isinstance(fb, str) and (fb in ('=%s+0' % a, '=%s*1' % a, '=%s' % a)):
                if repr(r.get(a)) != repr(r.get(b)) and abs(float(r.get(a)) - float(r.get(b))) > 1e-12:
                    return 'workbook %d (%s): %s and its dependent %s differ within one calculation: %r vs %r' % (i, how, a, b, r.get(a), r.get(b))
            if fa in ('=STAMP', '=DRAW') and isinstance(fb, str) and fb in ('=STAMP+0', '=DRAW*1'):
                if abs(float(r.get(a)) - float(r.get(b))) > 1e-12:
                    return 'workbook %d (%s): two uses of one volatile name differ within one calculation: %s=%r %s=%r' % (i, how, a, r.get(a), b, r.get(b))
    return None


# ------------------------------------------------------------------------------------ bounded: a workbook compiled to a function
COMPILE_CELLS = {'A1': 1, 'A2': '=NOW()', 'A3': '=A1+A2', 'A4': '=A1+NOW()', 'A5': '=A2+0', 'A6': '=A1*RAND()+1', 'A7': '=A1*2',
                 'A8': '=IF(A1>0,TODAY()+A1,0)'}
# outputs whose only volatile ingredient is a cell that does not depend on the function's input (A2)
COMPILE_VIA_INDEPENDENT_CELL = {'A3', 'A5'}


def _compile_cases(tier, rng):
    return [('compile', out) for out in ('A3', 'A4', 'A5', 'A6', 'A7', 'A8')]


def _check_compile(case):
    """ExcelModel.compile(inputs=[A1], outputs=[cell]) called three times with the same argument and the clock / random source
    advanced in between: an output that involves a volatile call changes every time, a non-volatile one never."""
    import datetime
    import logging
    import os
    import shutil
    import tempfile
    import numpy as np
    import openpyxl
    import formulas
    import formulas.functions.date as fd
    _, out = case
    counter = {'n': 1, 'r': 0}

    class _DT(datetime.datetime):
        @classmethod
        def now(cls, tz=None):
            return datetime.datetime(2031, 3, 13) + datetime.timedelta(days=counter['n'], seconds=11 * counter['n'])
    real_dt, real_rand = fd.datetime.datetime, np.random.rand

    def fake_rand(*a):
        counter['r'] += 1
        return ((counter['n'] * 1000 + counter['r']) * 0.0137) % 1.0
    logging.disable(logging.CRITICAL)
    d = tempfile.mkdtemp(prefix='verif_c13c_')
    fd.datetime.datetime, np.random.rand = _DT, fake_rand
    try:
        wb = openpyxl.Workbook()
        ws = wb.active
        ws.title = 'S'
        for ref, v in COMPILE_CELLS.items():
            ws[ref] = v
        path = os.path.join(d, 'book.xlsx')
        wb.save(path)
        m = formulas.ExcelModel().loads(path).finish()
        f = m.compile(inputs=["'[book.xlsx]S'!A1"], outputs=["'[book.xlsx]S'!%s" % out])
        vals = []
        for step in (2, 3, 5):
            counter['n'], counter['r'] = step, 0
            r = f(10)
            vals.append(np.asarray(r.value if hasattr(r, 'value') else r, object).ravel()[0])
    except Exception as ex:
        return 'compile([A1], [%s]) raised %s: %s' % (out, type(ex).__name__, str(ex)[:100])
    finally:
        fd.datetime.datetime, np.random.rand = real_dt, real_rand
        logging.disable(logging.NOTSET)
        shutil.rmtree(d, ignore_errors=True)
    volatile = out != 'A7'
    if volatile and len({repr(v) for v in vals}) != 3:
        return 'the function compiled from the workbook for output %s = %s returns %r on three calls with the clock / random source advanced' % (
            out, COMPILE_CELLS[out], vals)
    if not volatile and len({repr(v) for v in vals}) != 1:
        return 'the non-volatile output %s = %s changes between calls: %r' % (out, COMPILE_CELLS[out], vals)
    return None


def _classify_compile(case, detail):
    return 'KF-C13-1' if case[1] in COMPILE_VIA_INDEPENDENT_CELL and 'returns' in detail else None


BOUNDED = [
    Stage('B3:workbook-compiled-to-a-function-re-evaluates-volatile-cells', 'C13', _compile_cases, _check_compile,
          'one workbook (input A1; NOW() in its own cell, inside an input-dependent formula, behind IF; RAND(); dependents) compiled with '
          'ExcelModel.compile for six outputs, each function called three times with the clock / random source advanced', parallel=False,
          classify=_classify_compile),
    Stage('B2:loaded-copied-and-reimported-workbooks-recalculate-volatile-cells', 'C13', _model_cases, _check_model,
          '4 workbooks (volatile cells and dependents, formulas mixing a constant reference with a volatile call, defined names whose formula is volatile / constant / a cell, nested volatile calls) '
          'x 3 ways of obtaining the model (loaded from file, deep copy, JSON re-import), each calculated 3 times with the clock / random '
          'source advanced', parallel=False),
    Stage('B1:compiled-formula-re-evaluates-volatile-calls', 'C13', _fresh_cases, _check_fresh,
          '4 volatile functions x 7 nesting templates, each compiled once and called three times with the clock / random source advanced',
          parallel=False),
]

PROPERTIES = {
    'C13': dict(
        level='other',
        explanation=(
            'Partial. Proved: the impure wrapper yields "no value" while compiling and calls the function afresh otherwise; '
            'RANDBETWEEN returns an integer within its bounds; table obligations: the four volatile names are registered with the '
            'compiling flag and the impure wrapper, AstBuilder.compile sets the flag around the pre-evaluation. '
            'Bounded: compiled formulas with a volatile call at several depths re-evaluate it on every call; workbooks loaded from file, '
            'deep-copied and re-imported from JSON (volatile cells, dependents, volatile / constant / cell-valued defined names) recalculate '
            'every volatile cell and dependent on each calculation, with one value per calculation.'),
        assumptions=['0 <= np.random.rand() < 1', 'schedula treats a NONE output as not produced and keeps such nodes out of the pruned graph (assumed)'],
        not_proved=['never frozen through ExcelModel load / copy / JSON import, one snapshot per calculation: rest on schedula - bounded stage B2 only (4 workbooks x 3 ways of obtaining the model)'],
    ),
}


# ------------------------------------------------------------------------------------ TODAY / NOW read the clock afresh
from pyvc.spec import now_calls

c_today = Contract('formulas.functions.date:xtoday', {}, 'C13', name='xtoday', use=[], float_mode='real')
c_now = Contract('formulas.functions.date:xnow', {}, 'C13', name='xnow', use=[], float_mode='real')
CONTRACTS += [c_today, c_now]
c_today.no_native = c_now.no_native = True      # ghost clock: no concrete replay


def serial_of(d):
    from contracts.c20_calendar import ordinal
    return ordinal(d.year, d.month, d.day) - ordinal(1899, 12, 31) + 1      # dates after 1900-03-01


@c_today.ensures('reads-the-clock-once-per-call-and-returns-that-day', 'P')
def _(result):
    ds = now_calls()
    return len(ds) == 1 and result == serial_of(ds[0])


@c_now.ensures('reads-the-clock-once-per-call-and-returns-that-instant', 'P')
def _(result):
    ds = now_calls()
    return len(ds) == 1 and serial_of(ds[0]) <= result < serial_of(ds[0]) + 1


@c_today.canary('canary:a-fixed-day')
def _(result):
    return result == 47484


# ------------------------------------------------------------------------------------ a formula cell is evaluated afresh on every call
from pyvc.contract import ObjT as _ObjT, TupleT as _TupleT


def _ident_args(*a):
    return a


def _ident_kwargs(**kw):
    return kw


def lemma_cell_called_twice(cell, a):
    """The same cell wrapper called twice with the very same argument (an unchanged referenced value)."""
    first = cell(a)
    second = cell(a)
    return first, second


c_twice = Contract(lambda: lemma_cell_called_twice,
                   dict(cell=_ObjT('formulas.cell:CellWrapper', {'func': FnT([]), 'parse_args': ConstT(_ident_args),
                                                                 'parse_kwargs': ConstT(_ident_kwargs)}),
                        a=OpaqueT()), 'C13', name='lemma:CellWrapper-evaluates-its-formula-on-every-call', use=[], frame=('cell',))
CONTRACTS.append(c_twice)
c_twice.no_native = True


@c_twice.ensures('no-result-is-kept-between-calls-with-unchanged-inputs', 'P')
def _(cell, a, result):
    # the compiled formula (which may contain NOW / RAND at any depth) runs once per call and each call returns its own result
    return n_calls(cell.func) == 2 and returned_by(result[0], cell.func, 0) and returned_by(result[1], cell.func, 1)


@c_twice.canary('canary:second-call-answered-from-memory')
def _(cell, a, result):
    return n_calls(cell.func) == 1
