"""C13 — volatile functions are never frozen (partial): DESIGN §4 C13, A.7."""
import ast as _ast
import schedula as sh
from pyvc.contract import Contract, FnT, OpaqueT, OneOf, ConstT, IntT, RealT, BoolT
from pyvc.spec import n_calls, returned_by, raised_by
from formulas.tokens.operand import NUM, VALUE

CONTRACTS = []


# ------------------------------------------------------------------------------------ impure wrapper
def lemma_impure(func, compiling, a):
    from formulas.functions import wrap_impure_func
    return wrap_impure_func(func)(compiling, a)


c_imp = Contract(lambda: lemma_impure,
                 dict(func=FnT([(ValueError, {})]), compiling=OneOf(ConstT(True), ConstT(False), BoolT()), a=OpaqueT()),
                 'C13', name='wrap_impure_func.wrapper', use=[])
CONTRACTS.append(c_imp)


@c_imp.ensures('while-compiling-no-value-is-produced-and-the-function-is-not-called', 'P')
def _(func, compiling, a, result):
    return (not compiling) or (result is sh.NONE and n_calls(func) == 0)


@c_imp.ensures('otherwise-the-function-is-called-afresh-and-its-result-returned', 'P')
def _(func, compiling, a, result):
    return bool(compiling) or (n_calls(func) == 1 and returned_by(result, func))


@c_imp.raises(ValueError, 'exceptions-of-the-function-propagate', 'S')
def _(func, compiling, a, exc):
    return raised_by(exc, func) and not compiling


@c_imp.canary('canary:always-evaluates')
def _(func, compiling, a, result):
    return n_calls(func) == 1


# ------------------------------------------------------------------------------------ RANDBETWEEN / RAND ranges
c_rb = Contract('formulas.functions.math:xrandbetween',
                dict(bottom=OneOf(IntT(-10 ** 9, 10 ** 9), RealT()), top=OneOf(IntT(-10 ** 9, 10 ** 9), RealT())), 'C13',
                name='xrandbetween', use=[], float_mode='real')
CONTRACTS.append(c_rb)


@c_rb.requires
def _(bottom, top):
    return -10 ** 9 <= bottom <= 10 ** 9 and -10 ** 9 <= top <= 10 ** 9


@c_rb.ensures('an-integer-within-the-bounds-or-NUM', 'P')
def _(bottom, top, result):
    if result is NUM:
        return True
    return isinstance(result, int) and not isinstance(result, bool) and bottom <= result <= top


@c_rb.ensures('NUM-only-when-no-integer-lies-between-the-bounds', 'P')
def _(bottom, top, result):
    import math
    return (result is NUM) == (math.ceil(bottom) > math.floor(top))


@c_rb.canary('canary:always-the-lower-bound')
def _(bottom, top, result):
    return result is NUM or result == bottom


# ------------------------------------------------------------------------------------ tables
class _Table:
    def __init__(self, name, prop, fn):
        self.name, self.prop, self.fn = name, prop, fn

    def run(self):
        return self.fn()


VOLATILE = ('NOW', 'TODAY', 'RAND', 'RANDBETWEEN')


def _volatile_table():
    import formulas
    from formulas.functions import COMPILING
    from contracts.c11_functions import wrapper_chain
    F = formulas.get_functions()
    out = []
    for name in VOLATILE:
        f = F[name]
        ok = (isinstance(f, dict) and COMPILING in f.get('extra_inputs', {}) and f['extra_inputs'][COMPILING] is False
              and wrapper_chain(f)[:1] == ['wrap_impure_func.<locals>.wrapper'])
        out.append(dict(name='T:volatile-registration/%s' % name, ok=ok, kind='P',
                        detail='%s is not registered as {extra_inputs: {COMPILING: False}, function: wrap_impure_func(...)}: '
                               'its value is computed once when a formula is compiled and frozen' % name,
                        witness='=%s compiled once and called twice' % ('RANDBETWEEN(1,1000000)' if name == 'RANDBETWEEN' else name + '()')))
    for name in sorted(F):
        if name in VOLATILE:
            continue
        f = F[name]
        if isinstance(f, dict) and COMPILING in f.get('extra_inputs', {}):
            out.append(dict(name='T:volatile-registration/only-the-four/%s' % name, ok=True, kind='S', detail=''))
    return out


def _compile_flag_table():
    """AstBuilder.compile: the pre-evaluation dispatch receives COMPILING -> True, and the value stored for
    the compiled function is False (statement order read from the AST)."""
    from pyvc.interp import file_ast
    import formulas.builder as fb
    tree = file_ast(fb.__file__)[0]
    fn = next(n for n in _ast.walk(tree) if isinstance(n, _ast.FunctionDef) and n.name == 'compile')
    src = [_ast.unparse(s) for s in fn.body]

    def idx(pred):
        return next((i for i, s in enumerate(src) if pred(s)), None)
    i_true = idx(lambda s: s.replace(' ', '') == 'inp[COMPILING]=True')
    i_call = idx(lambda s: 'dsp(inp)' in s.replace(' ', ''))
    i_false = idx(lambda s: s.replace(' ', '') == 'res[COMPILING]=False')
    out = [
        dict(name='T:compile/pre-evaluation-runs-with-COMPILING-True', ok=i_true is not None and i_call is not None and i_true < i_call,
             kind='P', detail='inp[COMPILING] = True must precede res = dsp(inp) in AstBuilder.compile', witness='=NOW() compiled once, called twice'),
        dict(name='T:compile/compiled-function-stores-COMPILING-False', ok=i_false is not None and i_call is not None and i_false > i_call,
             kind='P', detail='res[COMPILING] = False must follow the pre-evaluation in AstBuilder.compile', witness='=NOW() compiled once, called twice'),
    ]
    return out


TABLES = [_Table('T:volatile-registration', 'C13', _volatile_table), _Table('T:compile-flag', 'C13', _compile_flag_table)]


# ------------------------------------------------------------------------------------ bounded: compiled formulas re-evaluate
from pyvc.bounded import Stage


def _check_fresh(case):
    """A formula containing a volatile call at some depth, compiled once, must re-evaluate the call on every
    call of the compiled function (clock / random source replaced by a counter)."""
    import datetime
    import numpy as np
    import formulas
    import formulas.functions.date as fd
    kind, text = case
    counter = {'n': 0}

    class _DT(datetime.datetime):
        @classmethod
        def now(cls, tz=None):
            counter['n'] += 1
            return datetime.datetime(2030, 1, 1) + datetime.timedelta(days=counter['n'], seconds=counter['n'])
    real_dt, real_rand = fd.datetime.datetime, np.random.rand
    fd.datetime.datetime = _DT

    def fake_rand(*a):
        counter['n'] += 1
        return (counter['n'] * 0.137) % 1.0
    np.random.rand = fake_rand
    try:
        f = formulas.Parser().ast(text)[1].compile()
        vals = []
        for _ in range(3):
            v = f()
            v = np.asarray(v, object).ravel()[0]
            vals.append(v)
    except Exception as ex:
        return '%s raised %s: %s' % (text, type(ex).__name__, str(ex)[:100])
    finally:
        fd.datetime.datetime = real_dt
        np.random.rand = real_rand
    if len({repr(v) for v in vals}) != 3:
        return '%s compiled once gave %r on three calls with the clock / random source advanced in between' % (text, vals)
    if kind == 'RANDBETWEEN':
        if not all(isinstance(v, (int, np.integer)) or (isinstance(v, float) and float(v).is_integer()) for v in vals):
            return '%s returned non-integers %r' % (text, vals)
    return None


def _fresh_cases(tier, rng):
    out = []
    for kind, call in (('NOW', 'NOW()'), ('TODAY', 'TODAY()'), ('RAND', 'RAND()'), ('RANDBETWEEN', 'RANDBETWEEN(1,1000000)')):
        for tmpl in ('=%s', '=%s+0', '=IF(TRUE,%s,0)', '=SUM(1,%s)', '=1*(%s)', '=IF(1>0,SUM(1,%s,2),0)', '=(%s)*1+ABS(-1)'):
            out.append((kind, tmpl % call))
    return out


BOUNDED = [
    Stage('B1:compiled-formula-re-evaluates-volatile-calls', 'C13', _fresh_cases, _check_fresh,
          '4 volatile functions x 7 nesting templates, each compiled once and called three times with the clock / random source advanced',
          parallel=False),
]

PROPERTIES = {
    'C13': dict(
        level='other',
        explanation=(
            'Partial. Proved: the impure wrapper yields "no value" while compiling and calls the function afresh otherwise; '
            'RANDBETWEEN returns an integer within its bounds; table obligations: the four volatile names are registered with the '
            'compiling flag and the impure wrapper, AstBuilder.compile sets the flag around the pre-evaluation. '
            'Bounded: compiled formulas with a volatile call at several depths re-evaluate it on every call.'),
        assumptions=['0 <= np.random.rand() < 1', 'schedula treats a NONE output as not produced and keeps such nodes out of the pruned graph (assumed)'],
        not_proved=['never frozen through ExcelModel.compile / copy / JSON import, one snapshot per calculation: rest on schedula (not decided)'],
    ),
}


# ------------------------------------------------------------------------------------ TODAY / NOW read the clock afresh
from pyvc.spec import now_calls

c_today = Contract('formulas.functions.date:xtoday', {}, 'C13', name='xtoday', use=[], float_mode='real')
c_now = Contract('formulas.functions.date:xnow', {}, 'C13', name='xnow', use=[], float_mode='real')
CONTRACTS += [c_today, c_now]
c_today.no_native = c_now.no_native = True      # ghost clock: no concrete replay


def serial_of(d):
    from contracts.c20_calendar import ordinal
    return ordinal(d.year, d.month, d.day) - ordinal(1899, 12, 31) + 1      # dates after 1900-03-01


@c_today.ensures('reads-the-clock-once-per-call-and-returns-that-day', 'P')
def _(result):
    ds = now_calls()
    return len(ds) == 1 and result == serial_of(ds[0])


@c_now.ensures('reads-the-clock-once-per-call-and-returns-that-instant', 'P')
def _(result):
    ds = now_calls()
    return len(ds) == 1 and serial_of(ds[0]) <= result < serial_of(ds[0]) + 1


@c_today.canary('canary:a-fixed-day')
def _(result):
    return result == 47484
