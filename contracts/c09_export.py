"""C09 — JSON export / import preserve every value and are a fixed point (partial): DESIGN §4 C09."""
import schedula as sh
from pyvc.bounded import Stage
from contracts import specparser as SP

CONTRACTS = []


# ------------------------------------------------------------------------------------ exported text parses back to itself
def _ref_tree(rng, depth):
    """Reference expressions: plain references, intersections of plain references, unions of those.  (An intersection
    whose operand is a parenthesised group is not generated: '(a) (b)' is the adjacent-groups defect KF-C18-2.)"""
    refs = [('ref', 'A1'), ('ref', 'B2'), ('ref', 'A1:B2'), ('ref', 'C1:C3'), ('ref', "'My Sheet'!D4")]

    def leaf():
        return rng.choice(refs) if rng.random() < 0.6 else ('isect', rng.choice(refs), rng.choice(refs))
    if depth <= 0 or rng.random() < 0.3:
        return leaf()
    return ('union', [leaf() if rng.random() < 0.8 else _ref_tree(rng, depth - 1) for _ in range(rng.randrange(2, 4))])


def _reparse_cases(tier, rng):
    cases = []
    n = 1500 if tier == 'quick' else 150000
    for i in range(n):
        t = SP.random_tree(rng, 1 + i % 4)
        cases.append(SP.spell(t, rng, redundant=0.2 if i % 2 else 0.0, spaces=0.3 if i % 3 == 0 else 0.0))
    for i in range(n // 3):
        inner = _ref_tree(rng, 2)
        fn = rng.choice(['SUM', 'LARGE', 'INDEX', 'COUNT', 'MAX'])
        extra = {'LARGE': [('num', '2')], 'INDEX': [('num', '2'), ('num', '1'), ('num', '2')]}.get(fn, [])
        for tree in (('fn', fn, [inner] + extra), ('fn', rng.choice(['SUM', 'MAX']), [('num', '1'), inner])):
            cases.append(('tree', tree, SP.spell(tree, rng)))
    return cases


def _render(text):
    import formulas
    return formulas.Parser().ast(text)[1][-1].get_expr


def _check_reparse(text):
    from formulas.errors import FormulaError
    want = None
    if isinstance(text, tuple):
        _, tree, text = text
        want = SP.render(tree)
    try:
        e1 = _render(text)
    except FormulaError:
        return None          # not a formula of the grammar (C01 / C18 decide that)
    except Exception as ex:
        return '%s raised %s' % (text, type(ex).__name__)
    if want is not None and e1 != want:
        return 'exported text %s of %s is not the rendering %s of its tree' % (e1, text, want)
    try:
        e2 = _render('=' + e1)
    except Exception as ex:
        return 'exported text %s of %s does not parse back (%s)' % (e1, text, type(ex).__name__)
    if e2 != e1:
        return 'exported text %s of %s parses back to a different formula %s' % (e1, text, e2)
    return None


def _classify_reparse(text, detail):
    import re
    if isinstance(text, tuple):
        text = text[2]
    m = re.search(r'exported text (.*?) of ', detail)
    exported = m.group(1) if m else ''
    if SP.has_sign_run(exported):
        return 'KF-C01-1'
    if '%%' in exported:
        return 'KF-C01-2'
    return None


# ------------------------------------------------------------------------------------ JSON model round trip (small models)
SHEET_IDS = ["'[book.xlsx]SHEET1'", "'[book.xlsx]MY SHEET'", "'[book.xlsx]DATA.2'"]
CONSTS = [1, 2.5, -3, 0, True, False, 'text', 'with "quotes"', "it's", '=not a formula?', '=say "hi"', '', '#N/A', 'TRUE', '007', ' padded ',
          'Y', 'E', '#', 'mp', 'EMPTY', 'N']


def _model_cases(tier, rng):
    cases = []
    n = 60 if tier == 'quick' else 6000
    for i in range(n):
        d = {}
        sheets = rng.sample(SHEET_IDS, rng.randrange(1, 3))
        cells = []
        for s in sheets:
            for r in range(1, rng.randrange(2, 5)):
                for c in 'AB':
                    cells.append('%s!%s%d' % (s, c, r))
        rng.shuffle(cells)
        consts = cells[:max(2, len(cells) // 2)]
        for k in consts:
            v = rng.choice(CONSTS)
            # a text constant that starts with '=' has to be written as a formula yielding that text
            d[k] = '="%s"' % v.replace('"', '""') if isinstance(v, str) and v.startswith('=') else v
        done = list(consts)
        for k in cells[len(consts):]:
            a, b = rng.choice(done), rng.choice(done)
            form = rng.choice(['=%s+1', '=%s&"x"', '=IF(ISNUMBER(%s),%s*2,0)', '=SUM(%s,%s)', '=IFERROR(%s/%s,"err")', '=%s=%s',
                               '=LEN(%s)+LEN(%s)', '=-%s%%', '=MISSINGSHEET!A1+%s', '=NOSUCHFN(%s)', '=UNDEFINED_NAME&%s'])
            d[k] = form.replace('%s', '{}').format(*([a, b][:form.count('%s')])) if form.count('%s') <= 2 else form
            if form.count('%s') == 2:
                d[k] = form % (a, b)
            elif form.count('%s') == 1:
                d[k] = form % a
            done.append(k)
        cases.append(tuple(sorted(d.items(), key=lambda kv: repr(kv))))
    # sheets of a dictionary-built model that carry no workbook: names that need quoting for other reasons than a blank
    for sheet in ("'MY SHEET'", "'MY-SHEET'", "'A+B'", "'A(1)'", "'TRUE'", 'DATA.2'):
        cases.append(tuple(sorted({'%s!A1' % sheet: 5, '%s!B1' % sheet: '=%s!A1*2' % sheet, '%s!B2' % sheet: '=SUM(%s!A1:B1)' % sheet}.items())))
    return cases


def _classify_model(case, detail):
    keys = [k for k, _ in case]
    if any(k.startswith("'") and not k.startswith("'[") and ' ' not in k.split('!')[0] for k in keys):
        return 'KF-C09-2'
    return None


def _vals(sol, keys):
    import numpy as np
    out = {}
    for k in keys:
        v = sol.get(k, None)
        if hasattr(v, 'value'):
            v = v.value
        out[k] = None if v is None else [[repr(x) if isinstance(x, float) and x != x else x for x in row] for row in np.asarray(v, object).tolist()]
    return out


def _check_model(case):
    import logging
    import formulas
    logging.disable(logging.CRITICAL)
    d = dict(case)
    # (a model whose sheets carry no workbook is used as imported: completion would look for a workbook file to load them from)
    fin = (lambda m: m.finish()) if all('[' in k for k in d) else (lambda m: m)
    try:
        m1 = fin(formulas.ExcelModel().from_dict(d))
        s1 = m1.calculate()
        d1 = m1.to_dict()
        m2 = fin(formulas.ExcelModel().from_dict(d1))
        s2 = m2.calculate()
        d2 = m2.to_dict()
    except Exception as ex:
        return 'round trip of %r raised %s: %s' % (d, type(ex).__name__, str(ex)[:100])
    finally:
        logging.disable(logging.NOTSET)
    if d1 != d2:
        diff = {k: (d1.get(k), d2.get(k)) for k in set(d1) | set(d2) if d1.get(k) != d2.get(k)}
        return 'second export differs from the first: %r (model %r)' % (diff, d)
    keys = [k for k in d]
    v1, v2 = _vals(s1, keys), _vals(s2, keys)
    # the imported model holds the constants it was given (a constant is an entry that is not a formula text)
    for k, v in d.items():
        if isinstance(v, str) and v.startswith('='):
            continue
        got = v1.get(k)
        from formulas.tokens.operand import XlError
        if isinstance(v, str) and v.startswith('#') and got and isinstance(got[0][0], XlError) and str(got[0][0]) == v:
            continue            # error text in a dictionary denotes the error value
        if got is None or len(got) != 1 or len(got[0]) != 1 or type(got[0][0]) is not type(v) or got[0][0] != v:
            return 'constant %r of cell %s is %r after import (model %r)' % (v, k, got, d)
    if v1 != v2:
        diff = {k: (v1[k], v2[k]) for k in keys if v1[k] != v2[k]}
        return 'values change through export / import: %r (model %r)' % (diff, d)
    return None


XLSX_MODELS = [
    {'DATA': {'A1': 1, 'B1': '=A1+1', 'B2': '=Missing!A1+1', 'B3': "='[gone.xlsx]Sheet1'!A1+1", 'B4': '=IFERROR(Missing!A1,"n/a")'}},
    {'DATA': {'A1': 7, 'A2': 'txt', 'B1': '=SUM(A1:A2)', 'B2': '=A2&"!"'}, 'My Sheet': {'A1': "=DATA!B1*2", 'A2': '=NOSUCHFN(DATA!A1)'}},
    {'S.1': {'A1': True, 'A2': '=IF(A1,UNDEFINED_NAME,0)', 'A3': '=ISERROR(A2)', 'B1': "it's", 'B2': '=LEN(B1)'}},
    {'DATA': {'A1': 1, 'A2': 2, 'A3': 3, 'C1': '=SUM(A:A)', 'C2': '=A1:A3 A2:A2', 'C3': '=Other!A1', 'C4': '=C3+1'}, 'Other': {'A1': 5}},
    # text constants (string-typed cells, marked ('text', ...)) that look like formulas, with and without quotes
    {'Q': {'A1': 'Y', 'A2': 'N', 'A3': 'Y', 'A4': 'E', 'A5': '#', 'A6': 'mp', 'B1': 10, 'B2': 20, 'B3': 30, 'C1': True, 'C2': False,
           'D1': '=COUNTIF(A1:A6,"Y")', 'D2': '=SUMIF(A1:A3,"Y",B1:B3)', 'D3': '=COUNTA(A1:A6)', 'D4': '=IF(A1="Y","yes","no")',
           'D5': '=C1&""', 'D6': '=SUM(C1:C2)', 'D7': '=ISLOGICAL(C2)', 'D8': '=COUNT(B1:C2)'}},
    {'U': {'A1': ('text', ' =1+1'), 'A2': ('text', '{=1+1}'), 'A3': ('text', '#empty'), 'A4': ('text', '  = 2'), 'A5': ('text', '#N/A'),
           'A6': ('text', '#REF!x'), 'A7': ('text', '#EMPTY'), 'B1': '=LEN(A1)', 'B2': '=A2&"!"', 'B3': '=ISBLANK(A3)', 'B5': '=ISERROR(A5)',
           'B6': '=ISTEXT(A6)'}},
    {'T': {'A1': ('text', '=say "hi"'), 'A2': ('text', '=plain'), 'A3': ('text', 'a "quoted" word'), 'A4': ('text', '="'),
           'B1': '=LEN(A1)', 'B2': '=A2&"!"', 'B3': '=A3', 'B4': '=LEN(A4)'}},
    # sheet names that need quoting for other reasons than a blank
    {'MY-SHEET': {'A1': 5, 'A2': "='A+B'!A1*2"}, 'A+B': {'A1': 7, 'A2': "='MY-SHEET'!A1+'2020'!A1"}, '2020': {'A1': 1, 'A2': "='A(1)'!A1&\"x\""},
     'A(1)': {'A1': 'p', 'A2': "=SUM('MY-SHEET'!A1:A2)"}},
    {"O'Brien": {'A1': 3, 'A2': '=A1+1'}, 'DATA': {'A1': "='O''Brien'!A2*2"}},          # an apostrophe in the sheet name (KF-C04-3)
    {'N': {'A1': ('text', '=a\nb'), 'A2': '="x"&CHAR(10)&"y"', 'B1': '=LEN(A1)'}},          # a line break inside a text literal (KF-C09-1)
]


def _xlsx_cases(tier, rng):
    return list(range(len(XLSX_MODELS)))


def _check_xlsx(i):
    """A workbook written with openpyxl into a scratch directory (removed afterwards), loaded from file, exported,
    re-imported: equal values for every node of the first export, and a stable second export."""
    import logging
    import os
    import shutil
    import tempfile
    import openpyxl
    import formulas
    logging.disable(logging.CRITICAL)
    d = tempfile.mkdtemp(prefix='verif_c09_')
    try:
        wb = openpyxl.Workbook()
        wb.remove(wb.active)
        for sheet, cells in XLSX_MODELS[i].items():
            ws = wb.create_sheet(sheet)
            for ref, v in cells.items():
                if isinstance(v, tuple):
                    ws[ref] = 'x'
                    ws[ref].value = v[1]
                    ws[ref].data_type = 's'       # a text cell, whatever its content looks like
                else:
                    ws[ref] = v
        path = os.path.join(d, 'book.xlsx')
        wb.save(path)
        m1 = formulas.ExcelModel().loads(path).finish()
        s1 = m1.calculate()
        d1 = m1.to_dict()
        m2 = formulas.ExcelModel().from_dict(d1)       # as the repository's own round-trip test does: no re-completion
        s2 = m2.calculate()
        d2 = m2.to_dict()
        keys = [k for k in s1 if not isinstance(k, sh.Token)]
        v1, v2 = _vals(s1, keys), _vals(s2, keys)
        if v1 != v2:
            diff = {k: (v1[k], v2[k]) for k in keys if v1[k] != v2[k]}
            return 'workbook %r: values change through export / import: %r' % (XLSX_MODELS[i], diff)
        if d1 != d2:
            diff = {k: (d1.get(k), d2.get(k)) for k in set(d1) | set(d2) if d1.get(k) != d2.get(k)}
            return 'workbook %r: second export differs from the first: %r' % (XLSX_MODELS[i], diff)
    except Exception as ex:
        return 'workbook %r: round trip raised %s: %s' % (XLSX_MODELS[i], type(ex).__name__, str(ex)[:100])
    finally:
        logging.disable(logging.NOTSET)
        shutil.rmtree(d, ignore_errors=True)
    return None


BOUNDED = [
    Stage('B3:json-round-trip-of-workbooks-loaded-from-file', 'C09', _xlsx_cases, _check_xlsx,
          '10 small workbooks written to a scratch directory (dangling sheet / file / name references, unknown functions, whole-column and '
          'intersection references, sheet names that need quoting, text cells that look like formulas / errors / blanks and contain quotes, a line '
          'break inside a text literal), loaded from file, exported and re-imported', parallel=False,
          classify=lambda case, detail: ('KF-C09-1' if XLSX_MODELS[case] is XLSX_MODELS[-1] else
                                         ('KF-C04-3' if any("'" in sheet for sheet in XLSX_MODELS[case]) else None))),
    Stage('B1:exported-text-parses-back-to-the-same-formula', 'C09', _reparse_cases, _check_reparse,
          'random trees of the C01 generator (depth 1..4, 2 spelling styles) and reference expressions (range / intersection / union, '
          'nested to depth 2) as function arguments: get_expr(ast("=" + get_expr(ast(f)))) == get_expr(ast(f)); 2500 quick / about 240000 thorough',
          classify=_classify_reparse, max_report=50),
    Stage('B2:json-export-import-round-trip-of-small-models', 'C09', _model_cases, _check_model,
          'random models of 4..16 cells on 1..2 sheets (names that need quoting), constants of every kind (text that looks like a formula, quotes, '
          'blank text, error text), 11 formula templates incl. unresolved sheets / functions / names: values equal after to_dict -> from_dict, and the '
          'second export equals the first; 60 quick / 6000 thorough; 6 models whose sheets carry no workbook and need quoting', max_report=20,
          classify=_classify_model),
]

PROPERTIES = {
    'C09': dict(
        level='other',
        explanation=('Partial, bounded stand-in: the exported text of a formula parses back to the same formula (C01 generator plus reference '
                     'operators inside function arguments); small models survive the JSON round trip with equal values and a stable second export. '
                     'The rendering functions themselves are compared with the spec rendering under C01.'),
        assumptions=[],
        not_proved=['to_dict / from_dict on whole workbooks (openpyxl-loaded models, array formulas, defined names): whole-model, only small dictionary-built models are explored'],
        bounded_rule='formula texts / dictionary models; distinct = distinct cases',
    ),
}


# ====================================================================================
# proved part: "a formula's exported text parses back to the same formula" rests on the exported text of every node being
# the fully parenthesised rendering of its operands' texts.  The rendering functions are under contract for C01; the same
# contracts are instantiated here because they carry this half of C09 (String literals: the content is written back between
# double quotes exactly as it was read, i.e. with its doubled quotes).
from contracts import c01_grammar as _C01
from pyvc.contract import Contract, StrT

CONTRACTS = []
for _nm9 in _C01._OPS2 + [' ', ',', ':']:
    _C01._set_expr_contract(_nm9, 2, prop='C09', out=CONTRACTS, prefix='export:')
for _nm9 in ('u-', 'u+', '%'):
    _C01._set_expr_contract(_nm9, 1, prop='C09', out=CONTRACTS, prefix='export:')
for _k9 in range(4):
    _C01._fn_set_expr_contract(_k9, prop='C09', out=CONTRACTS, prefix='export:')


def lemma_string_round_trip(self):
    """Exported text of a text literal, and the value it denotes."""
    self.set_expr()
    return self.attr['expr'], self.compile()


c_str9 = Contract(lambda: lemma_string_round_trip, dict(self=_C01._tokT('formulas.tokens.operand:String', name=StrT())), 'C09',
                  name='export:String.set_expr+compile', use=[], frame=('self',))
CONTRACTS.append(c_str9)


@c_str9.ensures('text-literal-is-exported-as-read-and-denotes-its-unescaped-content', 'P')
def _(self, result):
    name = self.attr['name']
    return result[0] == '"' + name + '"' and result[1] == name.replace('""', '"')


@c_str9.canary('canary:quotes-stripped')
def _(self, result):
    return result[0] == self.attr['name']


PROPERTIES['C09']['explanation'] = (
    'Proved: the exported text of every operator, function-call and text-literal node is the fully parenthesised rendering of its '
    'operands\' texts (the set_expr contracts of C01 instantiated for C09; a text literal is written back between double quotes as read and '
    'denotes its content with doubled quotes undone) - so, by structural induction and C01, a formula\'s exported text denotes the same tree. '
    + PROPERTIES['C09']['explanation'].replace('Partial, bounded stand-in:', 'Bounded stand-in for the rest:'))
