"""C04 — reference identifiers: contracts on formulas/tokens/operand.py (DESIGN §4 C04, A.2)."""
from pyvc.contract import Contract, RecordT, IntT, DecT, StrT, OneOf, ConstT, TupleT, ColT
from pyvc.spec import implies, in_re

MAXCOL, MAXROW = 16384, 1048576
CONTRACTS = []

# ------------------------------------------------------------------------------------ column letters <-> numbers


def lemma_col_of_index(n):
    from formulas.tokens.operand import _index2col, _col2index
    return _col2index(_index2col(n))


c_ci = Contract(lambda: lemma_col_of_index, dict(n=IntT(1, 18278)), 'C04', name='lemma:col2index-inverts-index2col', use=[])
CONTRACTS.append(c_ci)


@c_ci.ensures('number-to-letters-to-number', 'P')
def _(n, result):
    return result == n


@c_ci.canary('canary:zero-based')
def _(n, result):
    return result == n - 1


def lemma_index_of_col(s):
    from formulas.tokens.operand import _index2col, _col2index
    return _index2col(_col2index(s))


c_ic = Contract(lambda: lemma_index_of_col, dict(s=ColT(lower=True)), 'C04', name='lemma:index2col-inverts-col2index', use=[])
CONTRACTS.append(c_ic)


@c_ic.ensures('letters-to-number-to-letters', 'P')
def _(s, result):
    return result == s.upper()


@c_ic.canary('canary:keeps-case')
def _(s, result):
    return result == s


c_i2c = Contract('formulas.tokens.operand:_index2col', dict(index=IntT(0, 18278)), 'C04', name='_index2col')
CONTRACTS.append(c_i2c)


@c_i2c.ensures('one-to-three-capital-letters', 'P')
def _(index, result):
    return (len(result) == (0 if index == 0 else 1 if index <= 26 else 2 if index <= 702 else 3)
            and in_re(result, '[A-Z]{0,3}'))


@c_i2c.ensures('grid-corners', 'P')
def _(index, result):
    return (index != 1 or result == 'A') and (index != 26 or result == 'Z') and (index != 27 or result == 'AA') \
        and (index != 702 or result == 'ZZ') and (index != 703 or result == 'AAA') and (index != MAXCOL or result == 'XFD')


@c_i2c.canary('canary:always-one-letter')
def _(index, result):
    return len(result) <= 1


PROPERTIES = {
    'C04': dict(
        level='proof',
        explanation='Contracts and relational lemmas on the real identifier-building functions of tokens/operand.py.',
        assumptions=[],
        not_proved=[],
    ),
}


# ------------------------------------------------------------------------------------ fast resolver paths
Anchor = OneOf(ConstT(''), ConstT('#'))
Row = DecT(1, MAXROW)


def col_ok(c):
    from formulas.tokens.operand import _col2index
    return 1 <= _col2index(c) <= MAXCOL


def boundary(c, r):
    """The grid-boundary spellings whose column / row text the naming scheme drops (KF-C04-1)."""
    return c.upper() == 'XFD' or r == str(MAXROW)


def canon_cell(c, r):
    return c.upper() + r


def lemma_v1_name(r1, c1, sheet_id, anchor):
    from formulas.tokens.operand import fast_range2parts_v1
    return fast_range2parts_v1(r1=r1, c1=c1, sheet_id=sheet_id, anchor=anchor)


c_v1 = Contract(lambda: lemma_v1_name, dict(r1=Row, c1=ColT(), sheet_id=StrT(), anchor=Anchor), 'C04',
                name='fast_range2parts_v1', use=[])
CONTRACTS.append(c_v1)


@c_v1.requires
def _(r1, c1, sheet_id, anchor):
    return col_ok(c1)


@c_v1.ensures('name-is-the-canonical-text', 'S')
def _(r1, c1, sheet_id, anchor, result):
    ref = canon_cell(c1, r1) + anchor
    return result['ref'] == ref and result['name'] == ((sheet_id + '!' + ref) if sheet_id else ref)


@c_v1.known_region('KF-C04-1', 'name-is-the-canonical-text')
def _(r1, c1, sheet_id, anchor):
    return boundary(c1, r1)


@c_v1.ensures('coordinates', 'P')
def _(r1, c1, sheet_id, anchor, result):
    from formulas.tokens.operand import _col2index
    return (result['n1'] == result['n2'] == _col2index(c1) and result['r1'] == result['r2'] == r1
            and result['anchor'] == anchor)


@c_v1.canary('canary:keeps-case')
def _(r1, c1, sheet_id, anchor, result):
    return result['ref'] == c1 + r1 + anchor


def lemma_v2_name(r1, c1, r2, c2, sheet_id):
    from formulas.tokens.operand import fast_range2parts_v2
    return fast_range2parts_v2(r1=r1, c1=c1, r2=r2, c2=c2, sheet_id=sheet_id)


c_v2 = Contract(lambda: lemma_v2_name, dict(r1=Row, c1=ColT(), r2=Row, c2=ColT(), sheet_id=StrT()), 'C04',
                name='fast_range2parts_v2', use=[])
CONTRACTS.append(c_v2)


@c_v2.requires
def _(r1, c1, r2, c2, sheet_id):
    return col_ok(c1) and col_ok(c2)


@c_v2.ensures('name-is-the-canonical-text', 'S')
def _(r1, c1, r2, c2, sheet_id, result):
    a, b = canon_cell(c1, r1), canon_cell(c2, r2)
    ref = a if a == b else a + ':' + b
    return result['ref'] == ref and result['name'] == ((sheet_id + '!' + ref) if sheet_id else ref)


@c_v2.known_region('KF-C04-1', 'name-is-the-canonical-text')
def _(r1, c1, r2, c2, sheet_id):
    return boundary(c1, r1) or boundary(c2, r2)


@c_v2.canary('canary:always-a-range')
def _(r1, c1, r2, c2, sheet_id, result):
    return in_re(result['ref'], '.*:.*')


# ---- L1: spelling independence (relational lemmas between the real resolver paths) ----
def lemma_r1c1_equals_a1(r1, n1, sheet_id, anchor):
    from formulas.tokens.operand import fast_range2parts_v1, fast_range2parts_v3, _index2col
    return (fast_range2parts_v3(r1=r1, n1=n1, sheet_id=sheet_id, anchor=anchor)['name'],
            fast_range2parts_v1(r1=r1, c1=_index2col(n1), sheet_id=sheet_id, anchor=anchor)['name'])


def lemma_r1c1_range_equals_a1(r1, n1, r2, n2, sheet_id):
    from formulas.tokens.operand import fast_range2parts_v2, fast_range2parts_v4, _index2col
    return (fast_range2parts_v4(r1=r1, n1=n1, r2=r2, n2=n2, sheet_id=sheet_id)['name'],
            fast_range2parts_v2(r1=r1, c1=_index2col(n1), r2=r2, c2=_index2col(n2), sheet_id=sheet_id)['name'])


def lemma_redundant_range(r, c, sheet_id):
    from formulas.tokens.operand import fast_range2parts_v1, fast_range2parts_v2
    return (fast_range2parts_v2(r1=r, c1=c, r2=r, c2=c, sheet_id=sheet_id)['name'],
            fast_range2parts_v1(r1=r, c1=c, sheet_id=sheet_id)['name'])


def lemma_case_v1(r, c, sheet_id, anchor):
    from formulas.tokens.operand import fast_range2parts_v1
    return (fast_range2parts_v1(r1=r, c1=c, sheet_id=sheet_id, anchor=anchor)['name'],
            fast_range2parts_v1(r1=r, c1=c.upper(), sheet_id=sheet_id, anchor=anchor)['name'])


def lemma_case_v2(r1, c1, r2, c2, sheet_id):
    from formulas.tokens.operand import fast_range2parts_v2
    return (fast_range2parts_v2(r1=r1, c1=c1, r2=r2, c2=c2, sheet_id=sheet_id)['name'],
            fast_range2parts_v2(r1=r1, c1=c1.upper(), r2=r2, c2=c2.upper(), sheet_id=sheet_id)['name'])


def _same_name_lemma(fn, params, name, region=None, requires=None):
    c = Contract(lambda: fn, params, 'C04', name=name, use=[])
    CONTRACTS.append(c)
    if requires:
        c.requires(requires)

    @c.ensures('same-identifier', 'P')
    def _(result):
        return result[0] == result[1]

    @c.canary('canary:differ')
    def _(result):
        return result[0] != result[1]
    if region:
        c.known_region('KF-C04-2', 'same-identifier')(region)
    return c


Col16384 = IntT(1, MAXCOL)
_same_name_lemma(lemma_r1c1_equals_a1, dict(r1=Row, n1=Col16384, sheet_id=StrT(), anchor=Anchor),
                 'lemma:R1C1-cell-equals-A1-cell')
_same_name_lemma(lemma_r1c1_range_equals_a1, dict(r1=Row, n1=Col16384, r2=Row, n2=Col16384, sheet_id=StrT()),
                 'lemma:R1C1-range-equals-A1-range')


def _req_col(c):
    return col_ok(c)


def _req_col2(c1, c2):
    return col_ok(c1) and col_ok(c2)


# the redundant spelling A1:A1 of a cell: the statement demands the identifier of A1
_same_name_lemma(lemma_redundant_range, dict(r=Row, c=ColT(), sheet_id=StrT()), 'lemma:redundant-range-equals-cell',
                 requires=_req_col,
                 region=lambda r, c, sheet_id: boundary(c, r))
# letter case (found refuted on the pinned tree: 'B1:b1' -> 'B1:B1', 'xfd1' -> 'XFD1'; repaired by a fix: commit)
_same_name_lemma(lemma_case_v1, dict(r=Row, c=ColT(), sheet_id=StrT(), anchor=Anchor), 'lemma:cell-case-insensitive',
                 requires=_req_col)
_same_name_lemma(lemma_case_v2, dict(r1=Row, c1=ColT(), r2=Row, c2=ColT(), sheet_id=StrT()), 'lemma:range-case-insensitive',
                 requires=_req_col2)


# ---- the public resolver: every key set the regex (or ranges.py) can deliver ----
ColNum = OneOf(IntT(1, MAXCOL), DecT(1, MAXCOL))


def lemma_resolve_r1c1(r1, n1, sheet_id):
    from formulas.tokens.operand import fast_range2parts
    return fast_range2parts(r1=r1, n1=n1, sheet_id=sheet_id)


def lemma_resolve_r1c1_range(r1, n1, r2, n2, sheet_id):
    from formulas.tokens.operand import fast_range2parts
    return fast_range2parts(r1=r1, n1=n1, r2=r2, n2=n2, sheet_id=sheet_id)


def lemma_resolve_a1(r1, c1, sheet_id):
    from formulas.tokens.operand import fast_range2parts
    return fast_range2parts(r1=r1, c1=c1, sheet_id=sheet_id)


def lemma_resolve_a1_range(r1, c1, r2, c2, sheet_id):
    from formulas.tokens.operand import fast_range2parts
    return fast_range2parts(r1=r1, c1=c1, r2=r2, c2=c2, sheet_id=sheet_id)


c_r3 = Contract(lambda: lemma_resolve_r1c1, dict(r1=Row, n1=ColNum, sheet_id=StrT()), 'C04',
                name='fast_range2parts{r1,n1}', use=[])
c_r4 = Contract(lambda: lemma_resolve_r1c1_range, dict(r1=Row, n1=ColNum, r2=Row, n2=ColNum, sheet_id=StrT()), 'C04',
                name='fast_range2parts{r1,n1,r2,n2}', use=[])
c_r1 = Contract(lambda: lemma_resolve_a1, dict(r1=Row, c1=ColT(), sheet_id=StrT()), 'C04',
                name='fast_range2parts{r1,c1}', use=[])
c_r2 = Contract(lambda: lemma_resolve_a1_range, dict(r1=Row, c1=ColT(), r2=Row, c2=ColT(), sheet_id=StrT()), 'C04',
                name='fast_range2parts{r1,c1,r2,c2}', use=[])
CONTRACTS += [c_r1, c_r2, c_r3, c_r4]
c_r1.requires(lambda r1, c1, sheet_id: col_ok(c1))
c_r2.requires(lambda r1, c1, r2, c2, sheet_id: col_ok(c1) and col_ok(c2))


def record_ok(result, n1, n2, r1, r2, sheet_id):
    """The record every spelling must produce: integer column numbers that match the letters, rows as the
    given decimal text, the sheet id, and an identifier."""
    from formulas.tokens.operand import _col2index
    return (isinstance(result['n1'], int) and isinstance(result['n2'], int)
            and result['n1'] == n1 == _col2index(result['c1']) and result['n2'] == n2 == _col2index(result['c2'])
            and result['r1'] == r1 and result['r2'] == r2 and result['sheet_id'] == sheet_id
            and isinstance(result['name'], str))


@c_r3.ensures('record-is-the-A1-record', 'P')
def _(r1, n1, sheet_id, result):
    return record_ok(result, int(n1), int(n1), r1, r1, sheet_id)


@c_r4.ensures('record-is-the-A1-record', 'P')
def _(r1, n1, r2, n2, sheet_id, result):
    return record_ok(result, int(n1), int(n2), r1, r2, sheet_id)


@c_r1.ensures('record-is-the-A1-record', 'P')
def _(r1, c1, sheet_id, result):
    from formulas.tokens.operand import _col2index
    return record_ok(result, _col2index(c1), _col2index(c1), r1, r1, sheet_id)


@c_r2.ensures('record-is-the-A1-record', 'P')
def _(r1, c1, r2, c2, sheet_id, result):
    from formulas.tokens.operand import _col2index
    return record_ok(result, _col2index(c1), _col2index(c2), r1, r2, sheet_id)


for _c in (c_r1, c_r2, c_r3, c_r4):
    @_c.canary('canary:column-zero-based')
    def _(result):
        from formulas.tokens.operand import _col2index
        return int(result['n1']) == _col2index(result['c1']) - 1


# ---- FR: the contract under which ranges.py calls the formatter (used by C06 by contract) ----
def lemma_fr(sheet_id, n1, n2, r1, r2):
    from formulas.tokens.operand import range2parts
    return range2parts(('name', 'n1', 'n2'), sheet_id=sheet_id, n1=n1, n2=n2, r1=r1, r2=r2)


c_frp = Contract(lambda: lemma_fr, dict(sheet_id=StrT(), n1=IntT(0, MAXCOL), n2=IntT(0, MAXCOL),
                                         r1=DecT(0, MAXROW), r2=DecT(0, MAXROW)), 'C04',
                 name='range2parts[FR]:proof', use=[])
CONTRACTS.append(c_frp)


@c_frp.ensures('coordinates-preserved', 'P')
def _(sheet_id, n1, n2, r1, r2, result):
    return (result['sheet_id'] == sheet_id and result['n1'] == n1 and result['n2'] == n2
            and result['r1'] == r1 and result['r2'] == r2 and isinstance(result['name'], str))


@c_frp.canary('canary:rows-swapped')
def _(sheet_id, n1, n2, r1, r2, result):
    return result['r1'] == r2


# ---- L2: identifiers are injective (different rectangles / sheets never share one) ----
def lemma_two_cells(r1, c1, s1, r2, c2, s2):
    from formulas.tokens.operand import fast_range2parts
    return (fast_range2parts(r1=r1, c1=c1, sheet_id=s1)['name'], fast_range2parts(r1=r2, c1=c2, sheet_id=s2)['name'])


def lemma_two_ranges(r1, c1, r2, c2, s1, q1, d1, q2, d2, s2):
    from formulas.tokens.operand import fast_range2parts
    return (fast_range2parts(r1=r1, c1=c1, r2=r2, c2=c2, sheet_id=s1)['name'],
            fast_range2parts(r1=q1, c1=d1, r2=q2, c2=d2, sheet_id=s2)['name'])


def lemma_cell_and_range(r1, c1, s1, q1, d1, q2, d2, s2):
    from formulas.tokens.operand import fast_range2parts
    return (fast_range2parts(r1=r1, c1=c1, sheet_id=s1)['name'],
            fast_range2parts(r1=q1, c1=d1, r2=q2, c2=d2, sheet_id=s2)['name'])


UCol = ColT(lower=False)   # upper-case letters: case-insensitivity is proved separately above

c_inj1 = Contract(lambda: lemma_two_cells, dict(r1=Row, c1=UCol, s1=StrT(), r2=Row, c2=UCol, s2=StrT()), 'C04',
                  name='lemma:cell-identifiers-injective', use=[])
c_inj1.requires(lambda r1, c1, s1, r2, c2, s2: col_ok(c1) and col_ok(c2) and not boundary(c1, r1) and not boundary(c2, r2))
CONTRACTS.append(c_inj1)


@c_inj1.ensures('equal-identifier-implies-equal-cell-and-sheet', 'P')
def _(r1, c1, s1, r2, c2, s2, result):
    return result[0] != result[1] or (r1 == r2 and c1 == c2 and s1 == s2)


@c_inj1.canary('canary:identifiers-always-differ')
def _(result):
    return result[0] != result[1]


c_inj2 = Contract(lambda: lemma_two_ranges,
                  dict(r1=Row, c1=UCol, r2=Row, c2=UCol, s1=StrT(), q1=Row, d1=UCol, q2=Row, d2=UCol, s2=StrT()), 'C04',
                  name='lemma:range-identifiers-injective', use=[])
c_inj2.timeout = 30.0


@c_inj2.requires
def _(r1, c1, r2, c2, s1, q1, d1, q2, d2, s2):
    return (col_ok(c1) and col_ok(c2) and col_ok(d1) and col_ok(d2)
            and not boundary(c1, r1) and not boundary(c2, r2) and not boundary(d1, q1) and not boundary(d2, q2)
            and not (c1 == c2 and r1 == r2) and not (d1 == d2 and q1 == q2))


CONTRACTS.append(c_inj2)


@c_inj2.ensures('equal-identifier-implies-equal-rectangle-and-sheet', 'P')
def _(r1, c1, r2, c2, s1, q1, d1, q2, d2, s2, result):
    return result[0] != result[1] or (r1 == q1 and c1 == d1 and r2 == q2 and c2 == d2 and s1 == s2)


@c_inj2.canary('canary:identifiers-always-differ')
def _(result):
    return result[0] != result[1]


c_inj3 = Contract(lambda: lemma_cell_and_range,
                  dict(r1=Row, c1=UCol, s1=StrT(), q1=Row, d1=UCol, q2=Row, d2=UCol, s2=StrT()), 'C04',
                  name='lemma:cell-and-range-identifiers-differ', use=[])
c_inj3.timeout = 30.0


@c_inj3.requires
def _(r1, c1, s1, q1, d1, q2, d2, s2):
    return (col_ok(c1) and col_ok(d1) and col_ok(d2) and not boundary(c1, r1) and not boundary(d1, q1)
            and not boundary(d2, q2) and not (d1 == d2 and q1 == q2))


CONTRACTS.append(c_inj3)


@c_inj3.ensures('a-cell-and-a-proper-range-never-share-an-identifier', 'P')
def _(result):
    return result[0] != result[1]


# ====================================================================================
# bounded stage B1: spelling -> identifier through the real regex, fast and slow resolvers
from pyvc.bounded import Stage


def _col(n):
    s = ''
    while n > 0:
        n, k = divmod(n - 1, 26)
        s = chr(65 + k) + s
    return s


def _spellings_cell(n, r, rng):
    c = _col(n)
    out = [('%s%d' % (c, r), None), ('$%s$%d' % (c, r), None), ('$%s%d' % (c, r), None), ('%s$%d' % (c, r), None),
           ('%s%d' % (c.lower(), r), None), ('R%dC%d' % (r, n), None), ('r%dc%d' % (r, n), None),
           ('%s%d:%s%d' % (c, r, c, r), None), ('%s%d:%s%d' % (c.lower(), r, c, r), None),
           ('R%dC%d:R%dC%d' % (r, n, r, n), None)]
    for _ in range(2):
        dr, dc = rng.choice([-3, -1, 1, 2, 7]), rng.choice([-2, -1, 1, 3])
        hr, hc = r - dr, n - dc
        if 1 <= hr <= MAXROW and 1 <= hc <= MAXCOL:
            out.append(('R[%d]C[%d]' % (dr, dc), {'cr': str(hr), 'cc': hc}))
            out.append(('R[%+d]C[%+d]' % (dr, dc), {'cr': str(hr), 'cc': str(hc)}))
    return out


def _cell_cases(tier, rng):
    cases = []
    for n in range(1, MAXCOL + 1):
        rows = {1, MAXROW} if n % 97 == 0 or n in (1, 26, 27, 702, 703, MAXCOL) else set()
        rows.add(rng.randrange(1, MAXROW + 1))
        if tier == 'thorough':
            rows.update((2, MAXROW - 1, rng.randrange(1, 100)))
        for r in sorted(rows):
            cases.append(('cell', n, r, rng.randrange(1 << 30)))
    return cases


def _resolve(text, ctx=None):
    from formulas.ranges import Ranges
    return Ranges.get_range(text, ctx)


def _check_cell(case):
    import random
    kind, n, r, seed = case
    rng = random.Random(seed)
    c = _col(n)
    base = _resolve('%s%d' % (c, r))
    name = base['name']
    if (int(base['n1']), int(base['n2']), str(base['r1']), str(base['r2'])) != (n, n, str(r), str(r)):
        return 'coordinates of %s%d: %r' % (c, r, base)
    for text, ctx in _spellings_cell(n, r, rng):
        try:
            got = _resolve(text, ctx)
        except Exception as ex:
            return 'spelling %r (host %r) raised %s' % (text, ctx, type(ex).__name__)
        if got['name'] != name:
            return 'spelling %r (host %r) -> %r, but %s%d -> %r' % (text, ctx, got['name'], c, r, name)
        if (int(float(got['n1'])), int(float(got['n2'])), int(float(got['r1'])), int(float(got['r2']))) != (n, n, r, r):
            return 'spelling %r (host %r) coordinates %r' % (text, ctx, {k: got[k] for k in ('n1', 'n2', 'r1', 'r2')})
    back = _resolve(name)
    if back['name'] != name or (int(back['n1']), int(back['n2']), int(back['r1']), int(back['r2'])) != (n, n, r, r):
        return 'read-back of %r (from %s%d) -> %r %r' % (name, c, r, back['name'], {k: back[k] for k in ('n1', 'n2', 'r1', 'r2')})
    for q in ('Sheet1!', "'Sheet1'!", 'sheet1!', "'My Sheet'!", "'my sheet'!"):
        pass
    return None


def _classify_boundary(case, detail):
    if case[0] == 'cell' and (case[1] == MAXCOL or case[2] == MAXROW):
        return 'KF-C04-1'
    if case[0] == 'rect':
        _, n1, r1, n2, r2, _ = case
        if MAXCOL in (n1, n2) or MAXROW in (r1, r2):
            return 'KF-C04-1'
    if case[0] == 'wholecol' and MAXCOL in case[1:]:
        return 'KF-C04-1'
    if case[0] == 'wholerow' and MAXROW in case[1:]:
        return 'KF-C04-1'
    if case[0] == 'sheet' and "'" in case[1]:
        return 'KF-C04-3'
    return None


def _rect_cases(tier, rng):
    cases = []
    k = 3000 if tier == 'quick' else 60000
    for _ in range(k):
        n1 = rng.choice([1, 2, 26, 27, 702, 703, MAXCOL - 1, rng.randrange(1, MAXCOL)])
        n2 = rng.choice([n1, min(MAXCOL - 1, n1 + 1), rng.randrange(n1, MAXCOL)])
        r1 = rng.choice([1, 2, 9, 10, MAXROW - 1, rng.randrange(1, MAXROW)])
        r2 = rng.choice([r1, min(MAXROW - 1, r1 + 1), rng.randrange(r1, MAXROW)])
        cases.append(('rect', n1, r1, n2, r2, rng.randrange(1 << 30)))
    for n1, r1, n2, r2 in ((1, 1, MAXCOL, MAXROW), (1, 1, MAXCOL, 1), (1, 1, 1, MAXROW), (MAXCOL, 1, MAXCOL, 1), (3, MAXROW, 4, MAXROW)):
        cases.append(('rect', n1, r1, n2, r2, 0))
    return cases


def _check_rect(case):
    import random
    kind, n1, r1, n2, r2, seed = case
    rng = random.Random(seed)
    a, b = _col(n1), _col(n2)
    base = _resolve('%s%d:%s%d' % (a, r1, b, r2))
    name = base['name']
    want = (n1, n2, r1, r2)
    spell = [('$%s$%d:$%s$%d' % (a, r1, b, r2), None), ('%s%d:%s%d' % (a.lower(), r1, b.lower(), r2), None),
             ('R%dC%d:R%dC%d' % (r1, n1, r2, n2), None), ('%s$%d:$%s%d' % (a, r1, b, r2), None)]
    dr, dc = rng.choice([-2, 1, 5]), rng.choice([-1, 2])
    hr, hc = r1 - dr, n1 - dc
    if 1 <= hr <= MAXROW and 1 <= hc <= MAXCOL and (r2 - hr) != 0 and (n2 - hc) != 0:
        spell.append(('R[%d]C[%d]:R[%d]C[%d]' % (dr, dc, r2 - hr, n2 - hc), {'cr': str(hr), 'cc': hc}))
    for text, ctx in spell:
        try:
            got = _resolve(text, ctx)
        except Exception as ex:
            return 'spelling %r (host %r) raised %s' % (text, ctx, type(ex).__name__)
        if got['name'] != name:
            return 'spelling %r (host %r) -> %r, but A1 form -> %r' % (text, ctx, got['name'], name)
        if (int(float(got['n1'])), int(float(got['n2'])), int(float(got['r1'])), int(float(got['r2']))) != want:
            return 'spelling %r (host %r) coordinates differ' % (text, ctx)
    back = _resolve(name)
    if back['name'] != name or (int(back['n1'] or 1), int(back['n2']), int(back['r1']) or 1, int(back['r2'])) != want:
        return 'read-back of %r (from %s%d:%s%d) -> %r %r' % (name, a, r1, b, r2, back['name'], {k: back[k] for k in ('n1', 'n2', 'r1', 'r2')})
    if (n1, r1) != (n2, r2):
        single = _resolve('%s%d' % (a, r1))['name']
        if single == name:
            return 'rectangle %s%d:%s%d shares the identifier %r with its first cell' % (a, r1, b, r2, name)
    return None


_SHEETS = ['Sheet1', 'SHEET2', 'Data_1', 'a.b', 'My Sheet', 'x y z', "it's", 'Ünï', 'S1', 'R1C1x', 'été 2020', 'Pad', 'Pad ', ' Pad']
_BOOKS = [None, ('', '1'), ('', '12'), ('', 'book.xlsx'), ('dir', 'book.xlsx'), ('dir/', 'book.xlsx'), ('a b', 'My Book.xlsx'),
          ('data/2023', '2023 budget.xlsx'), ('data/2024', '2023 budget.xlsx'), ('', '1st.xlsx'), ('x', '7up')]


def _sheet_spellings(sheet, book):
    """Textual spellings of one (workbook, sheet) qualifier."""
    q = sheet.replace("'", "''")
    plain_ok = all(ch.isalnum() or ch in '_.' for ch in sheet) and not sheet[0].isdigit()
    out = []
    if book is None:
        out += ["'%s'" % q, "'%s'" % q.lower(), "'%s'" % q.upper()]
        if plain_ok:
            out += [sheet, sheet.lower(), sheet.upper()]
    else:
        d, f = book
        if f.isdigit():
            if plain_ok:
                out += ['[%s]%s' % (f, sheet), '[%s]%s' % (f, sheet.lower())]
        else:
            dd = d if (not d or d.endswith('/')) else d + '/'
            out += ["'%s[%s]%s'" % (dd, f, q), "'%s[%s]%s'" % (dd, f, q.upper())]
    return out


def _sheet_cases(tier, rng):
    return [('sheet', s, b) for s in _SHEETS for b in _BOOKS]


def _check_sheet(case):
    _, sheet, book = case
    sp = _sheet_spellings(sheet, book)
    if not sp:
        return None
    ids = set()
    for q in sp:
        for ref in ('A1', 'b2:C3'):
            try:
                got = _resolve('%s!%s' % (q, ref))
            except Exception as ex:
                return 'qualifier %r raised %s' % (q, type(ex).__name__)
            ids.add((ref, got['sheet_id'], got['name']))
    by_ref = {}
    for ref, sid, name in ids:
        by_ref.setdefault(ref, set()).add((sid, name))
    for ref, v in by_ref.items():
        if len(v) != 1:
            return 'spellings of sheet %r book %r give several identifiers: %r' % (sheet, book, sorted(v))
    sid = next(iter(by_ref['A1']))[0]
    back = _resolve('%s!A1' % sid)
    if back['sheet_id'] != sid or back['name'] != '%s!A1' % sid:
        return 'sheet id %r does not read back: %r' % (sid, (back['sheet_id'], back['name']))
    return None


def _check_sheet_distinct(case):
    seen = {}
    for s in _SHEETS:
        for b in _BOOKS:
            sp = _sheet_spellings(s, b)
            if not sp:
                continue
            sid = _resolve('%s!A1' % sp[0])['sheet_id']
            key = (s.upper(), None if b is None else ((b[0] + '/' if b[0] and not b[0].endswith('/') else b[0]), b[1]))
            if sid in seen and seen[sid] != key:
                return 'sheet id %r shared by %r and %r' % (sid, seen[sid], key)
            seen[sid] = key
    return None


def _whole_cases(tier, rng):
    cols = [1, 2, 26, 27, 702, 703, MAXCOL - 1, MAXCOL] + [rng.randrange(1, MAXCOL) for _ in range(200)]
    rows = [1, 2, 10, MAXROW - 1, MAXROW] + [rng.randrange(1, MAXROW) for _ in range(200)]
    out = [('wholecol', a, b) for a in cols[:40] for b in cols[:12] if a <= b]
    out += [('wholerow', a, b) for a in rows[:40] for b in rows[:12] if a <= b]
    return out


def _check_whole(case):
    kind, a, b = case
    if kind == 'wholecol':
        ca, cb = _col(a), _col(b)
        texts = ['%s:%s' % (ca, cb), '$%s:$%s' % (ca, cb), '%s:%s' % (ca.lower(), cb.lower()), 'C%d:C%d' % (a, b)]
        want = (a, b, 0, MAXROW)
    else:
        texts = ['%d:%d' % (a, b), '$%d:$%d' % (a, b)]     # "R1:R2" is also column R rows 1..2: ambiguous, not demanded
        want = (0, MAXCOL, a, b)
    names = set()
    for t in texts:
        if kind == 'wholecol' and t.startswith('C') and t[1:2].isdigit():
            # "C1:C2" is also a valid A1 spelling (column C rows 1..2): ambiguous by nature, not demanded
            continue
        try:
            got = _resolve(t)
        except Exception as ex:
            return 'spelling %r raised %s' % (t, type(ex).__name__)
        names.add(got['name'])
        if (int(float(got['n1'])), int(float(got['n2'])), int(float(got['r1'])), int(float(got['r2']))) != want:
            return 'spelling %r coordinates %r, expected %r' % (t, {k: got[k] for k in ('n1', 'n2', 'r1', 'r2')}, want)
    if len(names) != 1:
        return 'spellings %r give %r' % (texts, sorted(names))
    name = names.pop()
    back = _resolve(name)
    if back['name'] != name or (int(back['n1']), int(back['n2']), int(back['r1']), int(back['r2'])) != want:
        return 'read-back of %r -> %r' % (name, back['name'])
    return None


# ---- defined names of a loaded workbook: every letter case of a name denotes the name ----
_WB_NAMES = ['Rate', 'my.rate_1', 'TOTAL', 'x_y', 'Tax_2020']


def _wbname_cases(tier, rng):
    return [('wbname', n) for n in _WB_NAMES]


def _check_wbname(case):
    import logging
    import os
    import shutil
    import tempfile
    import numpy as np
    import openpyxl
    import formulas
    from openpyxl.workbook.defined_name import DefinedName
    _, name = case
    logging.disable(logging.CRITICAL)
    d = tempfile.mkdtemp(prefix='verif_c04n_')
    try:
        wb = openpyxl.Workbook()
        ws = wb.active
        ws.title = 'S'
        ws['A1'] = 21
        wb.defined_names[name] = DefinedName(name, attr_text='S!$A$1')
        spellings = [name, name.upper(), name.lower(), name.swapcase()]
        for i, sp in enumerate(spellings):
            ws['B%d' % (i + 1)] = '=%s*2' % sp
        ws['B9'] = '=SUM(%s,%s)' % (name.lower(), name.upper())
        path = os.path.join(d, 'names.xlsx')
        wb.save(path)
        try:
            sol = formulas.ExcelModel().loads(path).finish().calculate()
        except Exception as ex:
            return 'workbook with the defined name %s: loading / calculation raised %s: %s' % (name, type(ex).__name__, str(ex)[:100])

        def val(ref):
            v = sol.get("'[names.xlsx]S'!%s" % ref)
            return np.asarray(v.value, object).ravel()[0] if v is not None else None
        for i, sp in enumerate(spellings):
            if val('B%d' % (i + 1)) != 42:
                return 'defined name %s = S!$A$1 (21): =%s*2 gives %r, expected 42' % (name, sp, val('B%d' % (i + 1)))
        if val('B9') != 42:
            return 'defined name %s: =SUM(%s,%s) gives %r, expected 42' % (name, name.lower(), name.upper(), val('B9'))
        return None
    finally:
        logging.disable(logging.NOTSET)
        shutil.rmtree(d, ignore_errors=True)


# ---- relative R1C1 forms in cells that share one sheet context: each is resolved against ITS host cell ----
def _host_cases(tier, rng):
    hosts = ['B2', 'C5', 'D4', 'AA10', 'B2']
    forms = ['=R[-1]C[-1]', '=R[1]C[2]', '=SUM(R[-1]:R[1])', '=SUM(C[-1]:C[1])', '=R[1]C[-1]+R[-1]C[1]', '=SUM(R[-1]C[-1]:R[1]C[1])']
    return [('hosts', tuple(rng.sample(hosts, len(hosts))), f) for f in forms]


def _check_hosts(case):
    from formulas.cell import Cell
    _, hosts, formula = case
    ctx = {'directory': '', 'filename': 'book.xlsx', 'sheet': 'Sheet1'}
    before = dict(ctx)

    for host in hosts:
        try:
            cell = Cell(host, formula, context=ctx).compile(context=ctx)
            got = sorted(cell.inputs or [])
        except Exception as ex:
            return 'Cell(%s, %s) with a shared sheet context raised %s: %s' % (host, formula, type(ex).__name__, str(ex)[:80])
        try:
            fresh = Cell(host, formula, context=dict(before)).compile(context=dict(before))
            want = sorted(fresh.inputs or [])
        except Exception as ex:
            return 'Cell(%s, %s) with a fresh context raised %s' % (host, formula, type(ex).__name__)
        if got != want:
            return 'host %s, %s: with the sheet context shared by earlier cells the references are %r, with a context of its own %r' % (
                host, formula, got, want)
    return None


BOUNDED = [
    Stage('B2:relative-references-of-cells-sharing-one-sheet-context', 'C04', _host_cases, _check_hosts,
          '6 formulas with relative R1C1 forms placed in five host cells that are built one after the other with the SAME context dictionary '
          '(as ExcelModel builds the cells of a sheet): each resolves against its own host (the absolute value of the offsets is the business of stage B1)',
          parallel=False),
    Stage('B2:defined-names-of-a-workbook-in-any-letter-case', 'C04', _wbname_cases, _check_wbname,
          '%d workbooks with a defined name (mixed case, dots, underscores, digits) referenced in four letter cases from cell formulas: all '
          'spellings denote the name' % len(_WB_NAMES), parallel=False),
    Stage('B1:cell-spellings', 'C04', _cell_cases, _check_cell,
          'every column 1..16384 with a random row (plus boundary rows on selected columns; thorough: 4 more rows per column), '
          '14 spellings each ($ markers, case, R1C1, redundant range, relative forms with hosts), read-back, coordinates',
          classify=_classify_boundary),
    Stage('B1:rectangle-spellings', 'C04', _rect_cases, _check_rect,
          'random and boundary rectangles (3000 quick / 60000 thorough), 4-5 spellings each, read-back, cell/rectangle distinctness',
          classify=_classify_boundary),
    Stage('B1:whole-rows-and-columns', 'C04', _whole_cases, _check_whole,
          'whole-column and whole-row forms over boundary and random indices, $/case/R1C1-style spellings, read-back (slow resolver)',
          classify=_classify_boundary),
    Stage('B1:sheet-qualifiers', 'C04', _sheet_cases, _check_sheet,
          '14 sheet names (incl. leading and trailing blanks) x 11 workbook qualifiers: quoting, case, doubled apostrophes give one id; the id reads back', parallel=False,
          classify=_classify_boundary),
    Stage('B1:sheet-ids-distinct', 'C04', lambda tier, rng: [('all',)], _check_sheet_distinct,
          'ids of the 154 (workbook, sheet) pairs are pairwise distinct', parallel=False),
    Stage('B1:defined-name-spellings', 'C04', lambda tier, rng: [('name', n) for n in _NAMES], lambda case: _check_name(case[1]),
          '%d defined names (dotted names whose first segment looks like an A1 / R1C1 cell address, underscores, digits) in three letter cases, '
          'inside formulas: one reference token, one identifier whatever the case' % 14, parallel=False),
    Stage('A:upper-axioms', 'C04', lambda tier, rng: [(lo, min(lo + 0x8000, 0x110000)) for lo in range(0, 0x110000, 0x8000)],
          lambda case: _check_upper_axioms(*case),
          'the engine\'s axioms about str.upper() on arbitrary text, checked on every code point (upper() is character-wise): '
          'idempotent, never empty, creates/removes none of the punctuation [ ] \' ! : / and blank', exhaustive=True, parallel=False,
          weight=lambda case: case[1] - case[0]),
]


_NAMES = ['sales', 'Q1.sales', 'FY21.total', 'R1C1.x', 'tax_rate', 'a.b.c', '_x1', 'H2.rev', 'ABC1_total', 'x.1', 'XFD1.n', 'R2.total', 'C3.k', 'rate.Q4']


def _check_name(name):
    import formulas
    ids = set()
    for sp in (name, name.lower(), name.upper()):
        for tmpl in ('=%s+1', '=SUM(%s,2)', '=IF(%s>0,%s,0)'):
            text = tmpl.replace('%s', sp)
            try:
                f = formulas.Parser().ast(text)[1].compile()
            except Exception as ex:
                return 'the defined name %r is not read as a reference in %r (%s)' % (sp, text, type(ex).__name__)
            inputs = list(f.inputs)
            if len(inputs) != 1:
                return '%r: the defined name %r is read as the references %r' % (text, sp, inputs)
            ids.add(inputs[0])
    if len(ids) != 1:
        return 'letter case changes the identifier of the defined name %r: %r' % (name, sorted(ids))
    if ids != {name.upper()}:
        return 'the defined name %r has the identifier %r' % (name, sorted(ids))
    return None


def _check_upper_axioms(lo, hi):
    from pyvc.models import UPPER_STABLE
    for k in range(lo, hi):
        c = chr(k)
        u = c.upper()
        if u.upper() != u or not u:
            return 'upper() not idempotent / empty at U+%04X' % k
        for ch in UPPER_STABLE:
            if (ch in u) != (ch == c):
                return 'upper() of U+%04X creates or removes %r' % (k, ch)
    # character-wise: a sample of concatenations
    for k in range(lo, hi, 997):
        w = chr(k) + 'ß' + chr(k) + "a'["
        if w.upper() != ''.join(x.upper() for x in w):
            return 'upper() is not character-wise on %r' % w
    return None



# ====================================================================================
# table obligations: the wiring of the slow (schedula) resolver, read from the AST of _range2parts
import ast as _ast


class _Table:
    def __init__(self, name, prop, fn):
        self.name, self.prop, self.fn = name, prop, fn

    def run(self):
        return self.fn()


def _range2parts_wiring():
    """Ground facts about the LIVE dispatcher the slow resolver builds (captured by running the real _range2parts with
    schedula's DispatchPipe replaced by a recorder): independent of how the code that wires it is written."""
    import schedula as _sh
    import formulas.tokens.operand as od
    captured = {}
    real = _sh.DispatchPipe

    def recorder(dsp, *a, **k):
        captured['dsp'] = dsp
        return real(dsp, *a, **k)
    od.sh.DispatchPipe = recorder
    try:
        fn = getattr(od._range2parts, '__wrapped__', od._range2parts)
        fn(('r1', 'c1', 'sheet_id'), ('name',))
    finally:
        od.sh.DispatchPipe = real
    dsp = captured['dsp']

    def fname(f):
        n = getattr(f, '__name__', None) or getattr(getattr(f, 'func', None), '__name__', repr(f))
        return 'sh.bypass' if f is _sh.bypass else n
    funcs = [(fname(node['function']), tuple(node['inputs']), tuple(node['outputs'])) for node in dsp.function_nodes.values()]
    datas = {}
    for k, v in dsp.default_values.items():
        val = v['value']
        datas[k] = {od._maxcol(): '_maxcol()', od._maxrow(): '_maxrow()'}.get(val, repr(val)) if not isinstance(val, bool) else repr(val)
    want_funcs = {
        ('_sum', ('cr', 'rr1'), ('r1',)), ('_sum', ('cc', 'rc1'), ('n1',)),
        ('_sum', ('cr', 'rr2'), ('r2',)), ('_sum', ('cc', 'rc2'), ('n2',)),
        ('_index2col', ('n1',), ('c1',)), ('_index2col', ('n2',), ('c2',)),
        ('_col2index', ('c1',), ('n1',)), ('_col2index', ('c2',), ('n2',)),
        ('sh.bypass', ('c1',), ('c2',)), ('sh.bypass', ('r1',), ('r2',)),
        ('_build_ref', ('c1', 'r1', 'c2', 'r2', 'anchor'), ('ref',)), ('_build_id', ('ref', 'sheet_id'), ('name',)),
    }
    out = []
    got = set(funcs)
    for w in sorted(want_funcs):
        out.append(dict(name='T:_range2parts-wiring/%s%s->%s' % (w[0], list(w[1]), list(w[2])), ok=w in got, kind='P',
                        detail='missing from the dispatcher built by _range2parts; present: %s' % sorted(x for x in got if x[2] == w[2]),
                        witness='R[1]C[1]:R[2]C[2] hosted at C5 must resolve to D6:E7'))
    for g in sorted(got - want_funcs):
        out.append(dict(name='T:_range2parts-wiring/unexpected:%s%s->%s' % (g[0], list(g[1]), list(g[2])), ok=False, kind='S',
                        detail='function node not in the specification of the resolver', witness=None))
    want_defaults = {'cr': "'1'", 'cc': "'1'", 'n1': '0', 'r1': "'0'", 'c2': '_maxcol()', 'r2': '_maxrow()', 'anchor': "''"}
    for k, v in sorted(want_defaults.items()):
        out.append(dict(name='T:_range2parts-defaults/%s' % k, ok=datas.get(k) == v, kind='P',
                        detail='default of %s is %r, expected %s' % (k, datas.get(k), v), witness=None))
    return out


TABLES = [_Table('T:_range2parts-wiring', 'C04', _range2parts_wiring)]

PROPERTIES['C04']['explanation'] = (
    'Column letters <-> numbers inverse (complete up to ZZZ by unwinding); every fast resolver key set yields the A1 record; '
    'A1 / R1C1 / redundant-range / letter-case spellings give one identifier (relational lemmas between the real resolver paths); '
    'identifiers are injective (cells, rectangles, cell vs rectangle, arbitrary sheet ids); range2parts[FR] proved; the wiring of the '
    'schedula-based slow resolver is checked as table obligations on the live dispatcher it builds. Spelling -> parts through the regex, the slow resolver, '
    'sheet qualifiers and read-back are bounded stages (B1).')
PROPERTIES['C04']['assumptions'] = [
    'rows are canonical decimal text (kind DecStr); str(int) canonical and injective (uninterpreted dec/undec with per-occurrence axioms)',
    'string-equality simplification in pyvc.terms: cancellation and unique split at the last separator (theorems of the free monoid)',
    'regex delivers the named groups (bounded stage only); schedula evaluates the wired graph of _range2parts as wired',
    'functools.lru_cache transparent on _index2col/_maxcol/_maxrow',
]
PROPERTIES['C04']['not_proved'] = ['_build_sheet_id: case-insensitivity and doubled-apostrophe spellings of the sheet name are bounded only (upper() is uninterpreted); form and workbook-injectivity are proved',
                                   'regex spelling -> parts, relative references through the schedula resolver: bounded stage only']


# ------------------------------------------------------------------------------------ sheet identifiers (_build_sheet_id)
# Sheet and file names as Excel admits them in a qualifier: no brackets, no line breaks; directories carry no '['.
_NAME_RE = r"[^\[\]\n]*"
SheetName, FileName, DirName = StrT(), StrT(), StrT()

c_sid = Contract('formulas.tokens.operand:_build_sheet_id', dict(sheet=SheetName, directory=DirName, filename=FileName), 'C04', returns=StrT(),
                 name='_build_sheet_id')
CONTRACTS.append(c_sid)


def _plain(x):
    return not ('[' in x) and not (']' in x) and not ('\n' in x)


@c_sid.requires
def _(sheet, directory, filename):
    return _plain(sheet) and _plain(filename) and _plain(directory)


def spec_sheet_id(sheet, directory, filename):
    """[n]SHEET for an external-link index n (all digits), 'dir/[file]SHEET' for a workbook file, SHEET (quoted when it
    holds a blank) otherwise; SHEET is the upper-cased sheet name with doubled apostrophes undone."""
    s = sheet.replace("''", "'").upper()
    if filename == '':
        return ("'" + s + "'") if ' ' in s else s
    if in_re(filename, '[0-9]+'):
        return '[' + filename + ']' + s
    d = directory if (directory == '' or directory.endswith('/')) else directory + '/'
    return "'" + d + '[' + filename + ']' + s + "'"


@c_sid.ensures('identifier-has-the-documented-form', 'P')
def _(sheet, directory, filename, result):
    return result == spec_sheet_id(sheet, directory, filename)


@c_sid.canary('canary:directory-never-matters')
def _(sheet, directory, filename, result):
    return result == spec_sheet_id(sheet, '', filename)


@c_sid.ensures('workbook-can-be-read-off-the-identifier', 'P')
def _(sheet, directory, filename, result):
    # a left inverse: the file name and (for workbook files) the normalised directory are substrings of the identifier
    # at positions fixed by its first brackets; hence identifiers of different workbooks differ (lemma below)
    i, j = result.find('['), result.find(']')
    return filename == '' or (
        0 <= i < j and result[i + 1:j] == filename
        and ((i == 0) if in_re(filename, '[0-9]+') else (result[0:1] == "'" and result[1:i] == _norm_dir(directory))))


def _norm_dir(d):
    return d if (d == '' or d.endswith('/')) else d + '/'


def lemma_sheet_ids_distinct(s1, d1, f1, s2, d2, f2):
    from formulas.tokens.operand import _build_sheet_id
    return _build_sheet_id(s1, d1, f1), _build_sheet_id(s2, d2, f2)


c_sid_inj = Contract(lambda: lemma_sheet_ids_distinct,
                     dict(s1=StrT(), d1=StrT(), f1=StrT(), s2=StrT(), d2=StrT(), f2=StrT()), 'C04',
                     name='lemma:workbooks-do-not-share-sheet-ids', use=['_build_sheet_id'])
CONTRACTS.append(c_sid_inj)


@c_sid_inj.requires
def _(s1, d1, f1, s2, d2, f2):
    return _plain(s1) and _plain(f1) and _plain(d1) and _plain(s2) and _plain(f2) and _plain(d2)


@c_sid_inj.ensures('same-identifier-only-for-the-same-workbook', 'P')
def _(s1, d1, f1, s2, d2, f2, result):
    # a qualifier with a file name never shares its identifier with one of another file or another directory
    return (result[0] != result[1]) or f1 == '' or f2 == '' or (
        f1 == f2 and (in_re(f1, '[0-9]+') or _norm_dir(d1) == _norm_dir(d2)))


@c_sid_inj.canary('canary:ids-always-differ')
def _(s1, d1, f1, s2, d2, f2, result):
    return result[0] != result[1]


# ------------------------------------------------------------------------------------ numeric workbook indices ([1]Sheet!A1)
# range2parts with an `excel_id`: the workbook is the one the host's link table gives for the index - directory included, even when
# it is the empty (base) directory and the host itself lives in a sub-folder; index 0 is the host workbook.
_LINKS = {'1': ('', 'b.xlsx'), '2': ('sub', 'b.xlsx'), '3': ('other/', 'c.xlsx')}


def lemma_linked_workbook(which, hostdir, sheet, r1, c1):
    from formulas.tokens.operand import range2parts
    return range2parts(None, excel_id=which, external_links=dict(_LINKS), directory=hostdir, filename='a.xlsx', sheet=sheet, r1=r1, c1=c1)


c_linked = Contract(lambda: lemma_linked_workbook,
                    dict(which=OneOf(ConstT('0'), ConstT('1'), ConstT('2'), ConstT('3')), hostdir=OneOf(ConstT(''), ConstT('sub'), ConstT('deep/er')),
                         sheet=StrT(), r1=DecT(1, MAXROW), c1=ColT()), 'C04',
                    name='range2parts[workbook index]', use=['_build_sheet_id'])
CONTRACTS.append(c_linked)


@c_linked.requires
def _(which, hostdir, sheet, r1, c1):
    return _plain(sheet)


@c_linked.ensures('the-index-denotes-the-workbook-of-the-link-table-with-its-directory', 'P')
def _(which, hostdir, sheet, r1, c1, result):
    d, f = (hostdir, 'a.xlsx') if which == '0' else _LINKS[which]
    # (the cell part of the name is the business of the resolver contracts above; here: it is prefixed by the right workbook)
    return result['sheet_id'] == spec_sheet_id(sheet, d, f) and result['name'] == result['sheet_id'] + '!' + result['ref']


@c_linked.canary('canary:always-the-host-directory')
def _(which, hostdir, sheet, r1, c1, result):
    return result['sheet_id'] == spec_sheet_id(sheet, hostdir, 'a.xlsx' if which == '0' else _LINKS[which][1])
