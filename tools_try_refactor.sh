#!/bin/sh
# usage: tools_try_refactor.sh <patch.diff> <PROP> [PROP...]  — applies a behaviour-preserving patch to /repo, runs the quick checks,
# restores /repo; every check must exit 0 and print no VIOLATION / PROOF-BROKEN / CHECKER-ERROR / UNDECIDED line
p=$1; shift
cd /repo && git apply --3way "$p" 2>/tmp/refactor_apply.log || { echo "patch-does-not-apply: $(head -3 /tmp/refactor_apply.log)"; git checkout -- . ; git reset -q; exit 9; }
git reset -q
for prop in "$@"; do
  cd /verif && timeout 1800 ./check $prop --tier quick > /tmp/refactor_$prop.log 2>&1; rc=$?
  bad=$(grep -cE "^(VIOLATION|PROOF-BROKEN|CHECKER-ERROR|UNDECIDED)" /tmp/refactor_$prop.log)
  echo "$prop rc=$rc alarms=$bad $(grep tier= /tmp/refactor_$prop.log | cut -c1-160)"
  grep -E "^(VIOLATION|PROOF-BROKEN|CHECKER-ERROR|UNDECIDED)" /tmp/refactor_$prop.log | head -4 | cut -c1-300
done
cd /repo && git checkout -- . && git status --short | head -3; (cd /verif && git checkout -- evidence 2>/dev/null)   # evidence written against a changed tree is discarded
