#!/bin/sh
# usage: tools_seed_sweep.sh <from> <to> [props…]   — runs the quick checks under several seeds, reports non-zero exits
from=$1; to=$2; shift 2
props=${@:-$(/venv/bin/python -c "import json;print(' '.join(c['property_id'] for c in json.load(open('MANIFEST.json'))['checks']))")}
for seed in $(seq $from $to); do for p in $props; do
  VERIF_SEED=$seed ./check $p > /tmp/sweep_$$.log 2>&1; rc=$?
  if [ $rc -ne 0 ]; then echo "seed=$seed $p rc=$rc"; grep -E "VIOL|ERROR" /tmp/sweep_$$.log | cut -c1-240 | head -3; fi
done; done; echo sweep-finished
