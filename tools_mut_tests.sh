#!/bin/sh
# usage: tools_mut_tests.sh <mutant dir> <workers>  — which mutants does the repository's own test suite NOT notice?
# one scratch worktree of /repo HEAD per worker (removed afterwards); result lines "<id> survived|killed" in <mutant dir>/tests.txt
dir=$1; W=${2:-10}
: > $dir/tests.txt
for w in $(seq 0 $((W-1))); do
  (
    wt=/tmp/mutwt_$w
    git -C /repo worktree add -q --detach $wt HEAD || exit 9
    cd $wt
    i=0
    for f in $(ls $dir/M*.diff | sort); do
      if [ $((i % W)) -eq $w ]; then
        id=$(basename $f .diff)
        if git apply $f 2>/dev/null; then
          timeout 600 /venv/bin/python -W ignore -m pytest -q -x -p no:cacheprovider --timeout=300 --deselect test/test_cell.py::TestCell::test_output_403 --deselect test/test_cell.py::TestCell::test_output_404 --deselect test/test_excel.py::TestExcelModel::test_excel_model > /tmp/muttest_$w.log 2>&1
          rc=$?
          if [ $rc -eq 0 ]; then echo "$id survived" >> $dir/tests.txt; else echo "$id killed" >> $dir/tests.txt; fi
          git checkout -q -- . ; git clean -qfd test 2>/dev/null
        else
          echo "$id noapply" >> $dir/tests.txt
        fi
      fi
      i=$((i+1))
    done
    cd /; git -C /repo worktree remove --force $wt
  ) &
done
wait
echo "done: $(grep -c survived $dir/tests.txt) survived, $(grep -c killed $dir/tests.txt) killed"
